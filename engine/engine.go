package main

import (
	"go/types"
	"crypto/sha256"
	"fmt"
	"os"
	"sort"
	"strings"
	"sync"
	"time"

	"golang.org/x/tools/go/packages"
	"golang.org/x/tools/go/ssa"
	"golang.org/x/tools/go/ssa/ssautil"
)

// Loaded is the SSA program built from /repo's working tree plus overlay harness files.
type Loaded struct {
	prog    *ssa.Program
	pkgs    []*ssa.Package
	modPath string
	loadS   float64
	solvers chan *Solver
	nsolv   int
	solverBin string
	timeoutMs int
}

func goEnv() []string {
	env := []string{}
	for _, e := range os.Environ() {
		if strings.HasPrefix(e, "PATH=") || strings.HasPrefix(e, "GOFLAGS=") || strings.HasPrefix(e, "GOTOOLCHAIN=") || strings.HasPrefix(e, "GOPROXY=") || strings.HasPrefix(e, "GOSUMDB=") {
			continue
		}
		env = append(env, e)
	}
	env = append(env, "PATH=/opt/veriftools/go1.26.8/bin:"+os.Getenv("PATH"), "GOTOOLCHAIN=local", "GOFLAGS=-mod=readonly", "GOPROXY=off", "GOSUMDB=off", "GOWORK=off")
	return env
}

// Load type-checks and builds SSA for the given package patterns in repoDir with the overlay applied.
func Load(repoDir string, overlay map[string][]byte, patterns []string, nsolv int, solverBin string, timeoutMs int) (*Loaded, error) {
	t0 := time.Now()
	cfg := &packages.Config{Mode: packages.LoadAllSyntax, Dir: repoDir, Env: goEnv(), Overlay: overlay}
	pkgs, err := packages.Load(cfg, patterns...)
	if err != nil {
		return nil, err
	}
	var errs []string
	packages.Visit(pkgs, nil, func(p *packages.Package) {
		for _, e := range p.Errors {
			errs = append(errs, e.Error())
		}
	})
	if len(errs) > 0 {
		return nil, fmt.Errorf("load errors:\n%s", strings.Join(errs, "\n"))
	}
	prog, spkgs := ssautil.AllPackages(pkgs, ssa.InstantiateGenerics)
	prog.Build()
	l := &Loaded{prog: prog, modPath: "github.com/modelcontextprotocol/go-sdk", nsolv: nsolv, solverBin: solverBin, timeoutMs: timeoutMs}
	for _, p := range spkgs {
		if p != nil {
			l.pkgs = append(l.pkgs, p)
		}
	}
	l.solvers = make(chan *Solver, nsolv)
	var wg sync.WaitGroup
	for i := 0; i < nsolv; i++ {
		wg.Add(1)
		go func() {
			defer wg.Done()
			l.solvers <- NewSolver(solverBin, timeoutMs)
		}()
	}
	wg.Wait()
	l.loadS = time.Since(t0).Seconds()
	return l, nil
}

func (l *Loaded) Close() {
	close(l.solvers)
	for s := range l.solvers {
		s.Close()
	}
}

func (l *Loaded) findFunc(name string) *ssa.Function {
	for _, p := range l.pkgs {
		if f := p.Func(name); f != nil {
			return f
		}
	}
	return nil
}

// EntrySpec configures the exploration of one harness entry point.
type EntrySpec struct {
	Name        string            `json:"name"`
	Unwind      int               `json:"unwind"`
	Memo        bool              `json:"memo"`
	Sched       bool              `json:"sched"`
	Preempt     int               `json:"preempt"`
	Overrides   map[string]string `json:"overrides"`
	Borrowed    bool              `json:"borrowed"` // copied from another property's check: optional if its harness file breaks
	Params      map[string]int    `json:"params"`
	NoInit      bool              `json:"no_init"`
	MaxPaths    int               `json:"max_paths"`
	AllowPanic  []string          `json:"allow_panic"`
	UnwindIsViolation bool        `json:"unwind_is_violation"`
	AllowBlocked bool             `json:"allow_blocked"`
	Reach       []string          `json:"reach"`
	MapOrder    bool              `json:"map_order"`
	NoFold      bool              `json:"no_fold"`
	NoWrap      bool              `json:"no_wrap"`
	Tiers       []string          `json:"tiers"`
	Doc         string            `json:"doc"`
}

type Violation struct {
	Kind      string            `json:"kind"`
	Label     string            `json:"label"`
	Msg       string            `json:"msg"`
	Model     map[string]string `json:"model"`
	Decisions string            `json:"decisions"`
	Entry     string            `json:"entry"`
	Replayed  string            `json:"replayed,omitempty"`
}

type FuncInfo struct {
	Fn     string `json:"fn"`
	Instrs int    `json:"instrs"`
	Sha    string `json:"sha"`
	// block coverage (only with VERIF_COVERAGE_DIR): source file, first line, number of blocks, and for
	// every block its [min,max] source line and whether some explored path executed it
	File    string   `json:"file,omitempty"`
	Line    int      `json:"line,omitempty"`
	NBlocks int      `json:"nblocks,omitempty"`
	Covered []int    `json:"covered,omitempty"`
	BlockLn [][2]int `json:"block_lines,omitempty"`
}

var coverageOn = os.Getenv("VERIF_COVERAGE_DIR") != ""

func (e *Engine) newBlockSet() map[*ssa.BasicBlock]bool {
	if !coverageOn {
		return nil
	}
	return map[*ssa.BasicBlock]bool{}
}

type EntryResult struct {
	Entry       string            `json:"entry"`
	Paths       int               `json:"paths"`
	Completed   int               `json:"completed"`
	Nontrivial  int               `json:"nontrivial"`
	Outcomes    map[string]int    `json:"outcomes"`
	Reach       map[string]int    `json:"reach"`
	Obligations int               `json:"obligations"`
	Discharged  int               `json:"discharged"`
	Violations  []Violation       `json:"violations"`
	ViolCount   map[string]int    `json:"violation_counts"`
	Known       map[string]string `json:"known"`
	Inconclusive []string         `json:"inconclusive"`
	Queries     int               `json:"queries"`
	SolverS     float64           `json:"solver_s"`
	Unknown     int               `json:"unknown"`
	Merged      int               `json:"merged"`
	NoMerge     int               `json:"nomerge"`
	Funcs       []FuncInfo        `json:"functions"`
	Samples     []map[string]string `json:"samples"`
	Spawned     []string          `json:"spawned,omitempty"`
	Externals   []string          `json:"lenient_externals,omitempty"`
	WallS       float64           `json:"wall_s"`
	Truncated   bool              `json:"truncated"`
	MissingReach []string         `json:"missing_reach,omitempty"`
	OutcomeSamples map[string][]string `json:"outcome_samples,omitempty"`
}

type intrinsicFn func(x *Exec, fn *ssa.Function, args []Value) Value

// Engine explores one entry.
type Engine struct {
	l       *Loaded
	spec    *EntrySpec
	entry   *ssa.Function
	initFn  *ssa.Function
	modPath string
	over    map[string]*ssa.Function
	icache  sync.Map
	activeKnown map[string]bool
	noFold, noWrap, mapOrderFork bool

	mu     sync.Mutex
	cond   *sync.Cond
	queue  [][]Dec
	active int
	memo   map[string]bool
	res    *EntryResult
	funcs  map[*ssa.Function]bool
	rtypes map[string]types.Type
	rtmu   sync.Mutex
	blocks map[*ssa.BasicBlock]bool
	unknownQ []string
	stop   bool
	trace  bool
	replayMode bool
	forkSites map[string]int
	foldStats sync.Map
	pdomCache sync.Map
}

func (e *Engine) push(p []Dec) {
	if e.replayMode {
		return
	}
	e.mu.Lock()
	e.queue = append(e.queue, p)
	e.mu.Unlock()
	e.cond.Signal()
}

func (e *Engine) noteFork(x *Exec) {
	site := "?"
	if x.cur != nil && len(x.cur.frames) > 0 {
		fr := x.cur.frames[len(x.cur.frames)-1]
		bi := -1
		if fr.block != nil {
			bi = fr.block.Index
		}
		site = fmt.Sprintf("%s#%d", fr.fn.String(), bi)
	}
	e.mu.Lock()
	if e.forkSites == nil {
		e.forkSites = map[string]int{}
	}
	e.forkSites[site]++
	e.mu.Unlock()
}

type foldStat struct{ ok, fail int }

func (e *Engine) foldHopeless(b *ssa.BasicBlock) bool {
	if v, ok := e.foldStats.Load(b); ok {
		st := v.(*foldStat)
		return st.ok == 0 && st.fail >= 3
	}
	return false
}

func (e *Engine) foldResult(b *ssa.BasicBlock, ok bool) {
	v, _ := e.foldStats.LoadOrStore(b, &foldStat{})
	st := v.(*foldStat)
	if ok {
		st.ok++
	} else {
		st.fail++
	}
}

func (e *Engine) noteUnknown(q string) {
	e.mu.Lock()
	if len(e.unknownQ) < 5 {
		if len(q) > 300 {
			q = q[:300]
		}
		e.unknownQ = append(e.unknownQ, q)
	}
	e.mu.Unlock()
}

func (e *Engine) okGlobal(g *ssa.Global) bool {
	// globals of uninitialised packages that are safe to read as zero values
	switch g.String() {
	case "encoding/base64.StdEncoding", "encoding/base64.URLEncoding", "encoding/base64.RawStdEncoding", "encoding/base64.RawURLEncoding", "io.Discard", "golang.org/x/oauth2.HTTPClient", "log/slog.DiscardHandler", "net/http.LocalAddrContextKey":
		return true // only passed to the base64 models, never dereferenced
	}
	return false
}

func (e *Engine) memoSeen(sig string) bool {
	e.mu.Lock()
	defer e.mu.Unlock()
	if e.memo[sig] {
		return true
	}
	e.memo[sig] = true
	return false
}

func encodeDec(d []Dec) string {
	var b strings.Builder
	for _, x := range d {
		fmt.Fprintf(&b, "%c%d.", x.K, x.V)
	}
	return b.String()
}

func decodeDec(s string) []Dec {
	var out []Dec
	for _, p := range strings.Split(s, ".") {
		if p == "" {
			continue
		}
		var v int
		fmt.Sscanf(p[1:], "%d", &v)
		out = append(out, Dec{p[0], v})
	}
	return out
}

// Explore runs the entry to exhaustion (or MaxPaths) with the given number of workers.
func (l *Loaded) Explore(spec *EntrySpec, activeKnown map[string]bool, workers int, trace bool) (*EntryResult, error) {
	t0 := time.Now()
	e := &Engine{l: l, spec: spec, modPath: l.modPath, over: map[string]*ssa.Function{}, activeKnown: activeKnown,
		memo: map[string]bool{}, funcs: map[*ssa.Function]bool{}, trace: trace}
	e.cond = sync.NewCond(&e.mu)
	e.noFold, e.noWrap, e.mapOrderFork = spec.NoFold, spec.NoWrap, spec.MapOrder
	e.entry = l.findFunc(spec.Name)
	if e.entry == nil {
		return nil, fmt.Errorf("entry %s not found", spec.Name)
	}
	if d := os.Getenv("VERIF_DUMPFN"); d != "" {
		for f := range ssautil.AllFunctions(l.prog) {
			if f.Name() == d {
				f.WriteTo(os.Stderr)
			} else if strings.HasPrefix(d, "?") && strings.Contains(f.String(), d[1:]) {
				fmt.Fprintln(os.Stderr, "FN:", f.String())
			}
		}
	}
	if !spec.NoInit {
		e.initFn = e.entry.Pkg.Func("init")
	}
	for k, v := range spec.Overrides {
		hf := l.findFunc(v)
		if hf == nil {
			return nil, fmt.Errorf("override target %s not found", v)
		}
		e.over[k] = hf
	}
	e.res = &EntryResult{Entry: spec.Name, Outcomes: map[string]int{}, Reach: map[string]int{}, ViolCount: map[string]int{}, Known: map[string]string{}}
	e.queue = [][]Dec{debugDec}
	maxPaths := spec.MaxPaths
	if maxPaths == 0 {
		maxPaths = 200000
	}
	if workers < 1 {
		workers = 1
	}
	if workers > l.nsolv {
		workers = l.nsolv
	}
	var wg sync.WaitGroup
	var fatal any
	for w := 0; w < workers; w++ {
		wg.Add(1)
		go func() {
			defer wg.Done()
			sol := <-l.solvers
			defer func() { l.solvers <- sol }()
			q0, t0s, u0 := sol.Queries, sol.Time, sol.Unknown
			x := newExec(e, sol)
			defer func() {
				if r := recover(); r != nil {
					e.mu.Lock()
					if fatal == nil {
						fatal = r
					}
					e.stop = true
					e.active--
					e.mu.Unlock()
					e.cond.Broadcast()
				}
			}()
			for {
				e.mu.Lock()
				for len(e.queue) == 0 && e.active > 0 && !e.stop {
					e.cond.Wait()
				}
				if e.stop || (len(e.queue) == 0 && e.active == 0) {
					e.mu.Unlock()
					e.cond.Broadcast()
					break
				}
				if e.res.Paths >= maxPaths {
					e.res.Truncated = true
					e.stop = true
					e.mu.Unlock()
					e.cond.Broadcast()
					break
				}
				dec := e.queue[len(e.queue)-1]
				e.queue = e.queue[:len(e.queue)-1]
				e.active++
				e.res.Paths++
				e.mu.Unlock()
				out, pr := x.runOnce(dec, nil)
				e.mu.Lock()
				e.record(x, out, pr)
				e.active--
				e.mu.Unlock()
				e.cond.Broadcast()
			}
			e.mu.Lock()
			e.res.Queries += sol.Queries - q0
			e.res.SolverS += (sol.Time - t0s).Seconds()
			e.res.Unknown += sol.Unknown - u0
			e.res.Merged += x.Merged
			e.res.NoMerge += x.NoMerge
			for f := range x.funcsSeen {
				e.funcs[f] = true
			}
			for b := range x.blocksSeen {
				if e.blocks == nil {
					e.blocks = map[*ssa.BasicBlock]bool{}
				}
				e.blocks[b] = true
			}
			for k, n := range x.extSeen {
				_ = n
				found := false
				for _, s := range e.res.Externals {
					if s == k {
						found = true
					}
				}
				if !found {
					e.res.Externals = append(e.res.Externals, k)
				}
			}
			e.mu.Unlock()
		}()
	}
	wg.Wait()
	if fatal != nil {
		return nil, fmt.Errorf("engine failure in %s: %v", spec.Name, fatal)
	}
	for f := range e.funcs {
		if fp := fnPkg(f); fp == nil || !strings.HasPrefix(fp.Pkg.Path(), l.modPath) && f.Blocks == nil {
			continue
		}
		n := 0
		for _, b := range f.Blocks {
			n += len(b.Instrs)
		}
		var sb strings.Builder
		f.WriteTo(&sb)
		sum := sha256.Sum256([]byte(sb.String()))
		fi := FuncInfo{Fn: f.String(), Instrs: n, Sha: fmt.Sprintf("%x", sum[:6])}
		if coverageOn && f.Prog != nil {
			pos := f.Prog.Fset.Position(f.Pos())
			fi.File, fi.Line, fi.NBlocks = pos.Filename, pos.Line, len(f.Blocks)
			for _, b := range f.Blocks {
				lo, hi := 0, 0
				for _, in := range b.Instrs {
					if p := in.Pos(); p.IsValid() {
						ln := f.Prog.Fset.Position(p).Line
						if lo == 0 || ln < lo {
							lo = ln
						}
						if ln > hi {
							hi = ln
						}
					}
				}
				fi.BlockLn = append(fi.BlockLn, [2]int{lo, hi})
				if e.blocks[b] {
					fi.Covered = append(fi.Covered, b.Index)
				}
			}
		}
		e.res.Funcs = append(e.res.Funcs, fi)
	}
	sort.Slice(e.res.Funcs, func(i, j int) bool { return e.res.Funcs[i].Fn < e.res.Funcs[j].Fn })
	sort.Strings(e.res.Externals)
	for _, u := range e.unknownQ {
		e.res.Inconclusive = append(e.res.Inconclusive, "solver unknown: "+u)
	}
	for _, r := range spec.Reach {
		if e.res.Reach[r] == 0 {
			e.res.MissingReach = append(e.res.MissingReach, r)
		}
	}
	e.res.WallS = time.Since(t0).Seconds()
	if os.Getenv("VERIF_FORKSITES") != "" {
		type kv struct {
			k string
			n int
		}
		var kvs []kv
		for k, n := range e.forkSites {
			kvs = append(kvs, kv{k, n})
		}
		sort.Slice(kvs, func(i, j int) bool { return kvs[i].n > kvs[j].n })
		for i, p := range kvs {
			if i >= 15 {
				break
			}
			fmt.Fprintf(os.Stderr, "  fork site %-80s %d\n", p.k, p.n)
		}
	}
	return e.res, nil
}

type pathReport struct {
	model    map[string]string
	label    string
	asserts  int
	proved   int
}

// record is called with e.mu held.
func (e *Engine) record(x *Exec, out abortSig, pr *pathReport) {
	r := e.res
	kind := out.Kind
	r.Obligations += pr.asserts
	r.Discharged += pr.proved
	for k := range x.reached {
		r.Reach[k]++
	}
	for k, w := range x.knownHit {
		if _, ok := r.Known[k]; !ok {
			r.Known[k] = w
		}
	}
	if len(x.spawnedNames) > 0 && len(r.Spawned) == 0 {
		r.Spawned = append(r.Spawned, x.spawnedNames...)
	}
	isViol := false
	switch kind {
	case "OK":
		r.Completed++
		if pr.asserts > 0 {
			r.Nontrivial++
		}
		if len(r.Samples) < 3 && pr.model != nil {
			r.Samples = append(r.Samples, pr.model)
		}
	case "ASSUME", "MERGED":
	case "KNOWN":
		r.Completed++
	case "PANIC-ALLOWED":
		r.Completed++
	case "VIOLATION", "PANIC", "DEADLOCK":
		isViol = true
	case "BLOCKED":
		if e.spec.AllowBlocked {
			r.Completed++
		} else {
			isViol = true
		}
	case "UNWIND":
		if e.spec.UnwindIsViolation {
			isViol = true
		} else if len(r.Inconclusive) < 10 {
			r.Inconclusive = append(r.Inconclusive, "UNWIND-EXCEEDED "+out.Msg)
		}
	default: // UNSUPPORTED, INCONCLUSIVE
		if len(r.Inconclusive) < 10 {
			r.Inconclusive = append(r.Inconclusive, kind+": "+out.Msg)
		}
	}
	r.Outcomes[kind]++
	if r.OutcomeSamples == nil {
		r.OutcomeSamples = map[string][]string{}
	}
	if len(r.OutcomeSamples[kind]) < 2 {
		r.OutcomeSamples[kind] = append(r.OutcomeSamples[kind], encodeDec(x.dec[:min(x.pos, len(x.dec))])+" "+out.Msg)
	}
	if isViol {
		r.Completed++
		r.Nontrivial++
		label := pr.label
		if label == "" {
			label = kind
		}
		key := kind + ":" + label
		r.ViolCount[key]++
		if r.ViolCount[key] <= 3 {
			r.Violations = append(r.Violations, Violation{Kind: kind, Label: label, Msg: out.Msg, Model: pr.model, Decisions: encodeDec(x.dec[:x.pos]), Entry: e.spec.Name})
		}
	}
}

func (e *Engine) intrinsic(fn *ssa.Function) intrinsicFn {
	if v, ok := e.icache.Load(fn); ok {
		if v == nil {
			return nil
		}
		return v.(intrinsicFn)
	}
	h := e.lookupIntrinsic(fn)
	if h == nil {
		e.icache.Store(fn, nil)
		return nil
	}
	e.icache.Store(fn, h)
	return h
}
