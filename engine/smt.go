package main

import (
	"syscall"
	"bufio"
	"fmt"
	"io"
	"math/big"
	"os/exec"
	"strconv"
	"strings"
	"time"
)

type Sort int

const (
	SBool Sort = iota
	SInt
	SStr   // concrete strings only (C is always set); symbolic strings are *StrV
	SFloat // (_ FloatingPoint 11 53)
	SFInt  // a float64 whose value is an integer: E is an Int-sorted term holding the exact value
)

func (s Sort) String() string {
	return [...]string{"Bool", "Int", "String", "(_ FloatingPoint 11 53)", "Int"}[s]
}

// Term is an SMT term; C holds the concrete value when known (bool, int64, string, float64).
// Integers are mathematical Ints on the SMT side; machine wrap-around is handled by Exec.fit.
type Term struct {
	S Sort
	E string
	C any
	// B: optional known bounds of a symbolic Int (inclusive); used to skip overflow queries
	B *[2]int64
}

func boundsOf(t *Term) (lo, hi int64, ok bool) {
	if t.S != SInt {
		return 0, 0, false
	}
	if t.IsConc() {
		v := t.C.(int64)
		return v, v, true
	}
	if t.B != nil {
		return t.B[0], t.B[1], true
	}
	return 0, 0, false
}

func withBounds(t *Term, lo, hi int64) *Term {
	t.B = &[2]int64{lo, hi}
	return t
}

const safeBound = int64(1) << 61

func (t *Term) IsConc() bool { return t.C != nil }

var (
	tTrue  = &Term{S: SBool, E: "true", C: true}
	tFalse = &Term{S: SBool, E: "false", C: false}
)

func mkBool(b bool) *Term {
	if b {
		return tTrue
	}
	return tFalse
}

func intLit(i int64) string {
	if i >= 0 {
		return strconv.FormatInt(i, 10)
	}
	if i == -9223372036854775808 {
		return "(- 9223372036854775808)"
	}
	return "(- " + strconv.FormatInt(-i, 10) + ")"
}

func mkInt(i int64) *Term { return &Term{S: SInt, E: intLit(i), C: i} }

// mkBig builds an Int literal that may not fit in int64 (uint64 constants); C stays nil unless it fits.
func mkBig(b *big.Int) *Term {
	if b.IsInt64() {
		return mkInt(b.Int64())
	}
	if b.Sign() < 0 {
		return &Term{S: SInt, E: "(- " + new(big.Int).Neg(b).String() + ")"}
	}
	return &Term{S: SInt, E: b.String()}
}

func mkStr(s string) *Term { return &Term{S: SStr, E: strconv.Quote(s), C: s} }

func app(s Sort, op string, args ...*Term) *Term {
	var b strings.Builder
	b.WriteByte('(')
	b.WriteString(op)
	for _, a := range args {
		b.WriteByte(' ')
		b.WriteString(a.E)
	}
	b.WriteByte(')')
	return &Term{S: s, E: b.String()}
}

func tNot(a *Term) *Term {
	if a.IsConc() {
		return mkBool(!a.C.(bool))
	}
	if strings.HasPrefix(a.E, "(not ") {
		return &Term{S: SBool, E: a.E[5 : len(a.E)-1]}
	}
	return app(SBool, "not", a)
}
func tAnd(a, b *Term) *Term {
	if a.IsConc() {
		if a.C.(bool) {
			return b
		}
		return a
	}
	if b.IsConc() {
		if b.C.(bool) {
			return a
		}
		return b
	}
	return app(SBool, "and", a, b)
}
func tOr(a, b *Term) *Term {
	if a.IsConc() {
		if a.C.(bool) {
			return a
		}
		return b
	}
	if b.IsConc() {
		if b.C.(bool) {
			return b
		}
		return a
	}
	return app(SBool, "or", a, b)
}
func tIte(c, a, b *Term) *Term {
	if c.IsConc() {
		if c.C.(bool) {
			return a
		}
		return b
	}
	if a.IsConc() && b.IsConc() && a.C == b.C {
		return a
	}
	r := app(a.S, "ite", c, a, b)
	if al, ah, ok := boundsOf(a); ok {
		if bl, bh, ok := boundsOf(b); ok {
			withBounds(r, min(al, bl), max(ah, bh))
		}
	}
	return r
}
func tEq(a, b *Term) *Term {
	if a.IsConc() && b.IsConc() && a.S != SFloat {
		return mkBool(a.C == b.C)
	}
	if a.S == SFInt || b.S == SFInt {
		return fintCmp("=", a, b)
	}
	if a.S == SFloat {
		if a.IsConc() && b.IsConc() {
			return mkBool(a.C.(float64) == b.C.(float64))
		}
		return app(SBool, "fp.eq", a, b)
	}
	if a.E == b.E {
		return tTrue
	}
	return app(SBool, "=", a, b)
}
func tLt(a, b *Term) *Term {
	if a.IsConc() && b.IsConc() {
		return mkBool(a.C.(int64) < b.C.(int64))
	}
	return app(SBool, "<", a, b)
}
func tLe(a, b *Term) *Term {
	if a.IsConc() && b.IsConc() {
		return mkBool(a.C.(int64) <= b.C.(int64))
	}
	return app(SBool, "<=", a, b)
}
func tAdd(a, b *Term) *Term {
	if a.IsConc() && b.IsConc() {
		p, q := a.C.(int64), b.C.(int64)
		r := p + q
		if (r > p) == (q > 0) { // no int64 overflow in the engine's own arithmetic
			return mkInt(r)
		}
		return mkBig(new(big.Int).Add(big.NewInt(p), big.NewInt(q)))
	}
	if b.IsConc() && b.C.(int64) == 0 {
		return a
	}
	if a.IsConc() && a.C.(int64) == 0 {
		return b
	}
	r := app(SInt, "+", a, b)
	if al, ah, ok := boundsOf(a); ok {
		if bl, bh, ok := boundsOf(b); ok && al > -safeBound && ah < safeBound && bl > -safeBound && bh < safeBound {
			withBounds(r, al+bl, ah+bh)
		}
	}
	return r
}
func tSub(a, b *Term) *Term {
	if a.IsConc() && b.IsConc() {
		p, q := a.C.(int64), b.C.(int64)
		r := p - q
		if (r < p) == (q > 0) {
			return mkInt(r)
		}
		return mkBig(new(big.Int).Sub(big.NewInt(p), big.NewInt(q)))
	}
	if b.IsConc() && b.C.(int64) == 0 {
		return a
	}
	r := app(SInt, "-", a, b)
	if al, ah, ok := boundsOf(a); ok {
		if bl, bh, ok := boundsOf(b); ok && al > -safeBound && ah < safeBound && bl > -safeBound && bh < safeBound {
			withBounds(r, al-bh, ah-bl)
		}
	}
	return r
}

// ---------------------------------------------------------------- solver

type Solver struct {
	cmd       *exec.Cmd
	in        io.WriteCloser
	out       *bufio.Reader
	Queries   int
	Unknown   int
	Time      time.Duration
	Log       io.Writer
	timeoutMs int
	bin       string
}

func NewSolver(bin string, timeoutMs int) *Solver {
	if bin == "" {
		bin = "z3"
	}
	var cmd *exec.Cmd
	switch {
	case strings.Contains(bin, "cvc5"):
		cmd = exec.Command(bin, "--incremental", "--lang=smt2", "--produce-models", fmt.Sprintf("--tlimit-per=%d", timeoutMs))
	default:
		cmd = exec.Command(bin, "-in", "-smt2")
	}
	// the solver must not outlive the engine (e.g. when the check is killed by `timeout`)
	cmd.SysProcAttr = &syscall.SysProcAttr{Pdeathsig: syscall.SIGKILL}
	in, _ := cmd.StdinPipe()
	outp, _ := cmd.StdoutPipe()
	cmd.Stderr = cmd.Stdout
	if err := cmd.Start(); err != nil {
		panic(err)
	}
	s := &Solver{cmd: cmd, in: in, out: bufio.NewReaderSize(outp, 1<<16), timeoutMs: timeoutMs, bin: bin}
	if strings.Contains(bin, "cvc5") {
		s.send("(set-logic ALL)")
	} else {
		s.send("(set-option :print-success false)")
		s.send("(set-option :produce-models true)")
		s.send(fmt.Sprintf("(set-option :timeout %d)", timeoutMs))
	}
	return s
}

func (s *Solver) Close() {
	s.in.Close()
	s.cmd.Process.Kill()
	s.cmd.Wait()
}

func (s *Solver) send(x string) {
	if s.Log != nil {
		fmt.Fprintln(s.Log, x)
	}
	io.WriteString(s.in, x+"\n")
}
func (s *Solver) readLine() string {
	l, err := s.out.ReadString('\n')
	if err != nil {
		panic("solver died: " + err.Error())
	}
	return strings.TrimSpace(l)
}
func (s *Solver) Push()          { s.send("(push 1)") }
func (s *Solver) Pop()           { s.send("(pop 1)") }
func (s *Solver) Assert(t *Term) { s.send("(assert " + t.E + ")") }
func (s *Solver) Declare(n string, so Sort) {
	s.send(fmt.Sprintf("(declare-const %s %s)", n, so))
}

// Check returns "sat", "unsat" or "unknown". Any (error line is reported as a panic(abortSig INCONCLUSIVE)
// by the caller through the "error:" prefix.
func (s *Solver) Check() string {
	t0 := time.Now()
	s.send("(check-sat)")
	r := s.readLine()
	for r == "" {
		r = s.readLine()
	}
	s.Queries++
	s.Time += time.Since(t0)
	if strings.HasPrefix(r, "(error") {
		return "error:" + r
	}
	if r != "sat" && r != "unsat" {
		s.Unknown++
		return "unknown"
	}
	return r
}

// CheckWith: is (pc ∧ t) satisfiable?
func (s *Solver) CheckWith(t *Term) string {
	s.Push()
	s.Assert(t)
	r := s.Check()
	s.Pop()
	return r
}

func (s *Solver) readSexp() string {
	depth, started := 0, false
	var b strings.Builder
	for !started || depth > 0 {
		c, err := s.out.ReadByte()
		if err != nil {
			break
		}
		if c == '(' {
			depth++
			started = true
		} else if c == ')' {
			depth--
		}
		if started {
			b.WriteByte(c)
		}
	}
	return b.String()
}

// Model returns the values of the named constants in the current (sat) context.
func (s *Solver) Model(names []string) map[string]string {
	m := map[string]string{}
	for _, n := range names {
		s.send("(get-value (" + n + "))")
		v := strings.TrimSpace(s.readSexp())
		v = strings.TrimPrefix(v, "(("+n)
		v = strings.TrimSuffix(v, "))")
		m[n] = normModelVal(strings.TrimSpace(v))
	}
	return m
}

// normModelVal turns "(- 5)" into "-5"; other values are kept as printed.
func normModelVal(v string) string {
	if strings.HasPrefix(v, "(- ") && strings.HasSuffix(v, ")") {
		return "-" + strings.TrimSpace(v[3:len(v)-1])
	}
	return v
}
