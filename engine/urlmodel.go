package main

import (
	"go/types"
	"net"
	"net/netip"
	"net/url"
	"strings"

	"golang.org/x/tools/go/ssa"
)

// net/url is executed natively on concrete strings (its parser uses lookup tables initialised in package
// init, which the engine does not run). Symbolic URL text is unsupported: harnesses draw URLs from
// concrete alphabets.

func (x *Exec) urlToAgg(u *url.URL, st *types.Struct) *Agg {
	a := x.zero(st).(*Agg)
	for i := 0; i < st.NumFields(); i++ {
		switch st.Field(i).Name() {
		case "Scheme":
			a.Elems[i] = mkStr(u.Scheme)
		case "Opaque":
			a.Elems[i] = mkStr(u.Opaque)
		case "Host":
			a.Elems[i] = mkStr(u.Host)
		case "Path":
			a.Elems[i] = mkStr(u.Path)
		case "RawPath":
			a.Elems[i] = mkStr(u.RawPath)
		case "RawQuery":
			a.Elems[i] = mkStr(u.RawQuery)
		case "Fragment":
			a.Elems[i] = mkStr(u.Fragment)
		case "RawFragment":
			a.Elems[i] = mkStr(u.RawFragment)
		case "OmitHost":
			a.Elems[i] = mkBool(u.OmitHost)
		case "ForceQuery":
			a.Elems[i] = mkBool(u.ForceQuery)
		}
	}
	return a
}

func (x *Exec) aggToURL(p *Pointer) *url.URL {
	a := x.loadAgg(p)
	st := urlStructOf(x)
	u := &url.URL{}
	for i := 0; i < st.NumFields(); i++ {
		get := func() string {
			t, ok := a.Elems[i].(*Term)
			if !ok || !t.IsConc() {
				x.abort("UNSUPPORTED", "symbolic url.URL field "+st.Field(i).Name())
			}
			s, _ := t.C.(string)
			return s
		}
		switch st.Field(i).Name() {
		case "Scheme":
			u.Scheme = get()
		case "Opaque":
			u.Opaque = get()
		case "Host":
			u.Host = get()
		case "Path":
			u.Path = get()
		case "RawPath":
			u.RawPath = get()
		case "RawQuery":
			u.RawQuery = get()
		case "Fragment":
			u.Fragment = get()
		case "RawFragment":
			u.RawFragment = get()
		case "OmitHost":
			u.OmitHost = a.Elems[i].(*Term).C.(bool)
		case "ForceQuery":
			u.ForceQuery = a.Elems[i].(*Term).C.(bool)
		}
	}
	return u
}

var urlStruct *types.Struct

func urlStructOf(x *Exec) *types.Struct {
	if urlStruct != nil {
		return urlStruct
	}
	for _, p := range x.prog.AllPackages() {
		if p.Pkg.Path() == "net/url" {
			urlStruct = p.Pkg.Scope().Lookup("URL").Type().Underlying().(*types.Struct)
		}
	}
	return urlStruct
}

func urlIntrinsic(name string, fn *ssa.Function) intrinsicFn {
	switch name {
	case "net/url.Parse":
		return func(x *Exec, f *ssa.Function, a []Value) Value {
			s := x.strOf(a[0])
			u, err := url.Parse(s)
			if err != nil {
				return tup((*Pointer)(nil), x.newErr("parse "+s+": "+err.Error()))
			}
			return tup(&Pointer{Obj: x.newObj(x.urlToAgg(u, urlStructOf(x)), "url.URL")}, nilErr)
		}
	case "github.com/modelcontextprotocol/go-sdk/internal/util.IsLoopback":
		// executed natively on the concrete host string (net.SplitHostPort / netip.ParseAddr are std parsers)
		return func(x *Exec, f *ssa.Function, a []Value) Value {
			addr := x.strOf(a[0])
			host, _, err := net.SplitHostPort(addr)
			if err != nil {
				host = strings.Trim(addr, "[]")
			}
			if host == "localhost" {
				return tTrue
			}
			ip, err := netip.ParseAddr(host)
			if err != nil {
				return tFalse
			}
			return mkBool(ip.IsLoopback())
		}
	case "(*net/url.URL).String":
		return func(x *Exec, f *ssa.Function, a []Value) Value { return mkStr(x.aggToURL(a[0].(*Pointer)).String()) }
	case "(*net/url.URL).Hostname":
		return func(x *Exec, f *ssa.Function, a []Value) Value { return mkStr(x.aggToURL(a[0].(*Pointer)).Hostname()) }
	case "(*net/url.URL).Port":
		return func(x *Exec, f *ssa.Function, a []Value) Value { return mkStr(x.aggToURL(a[0].(*Pointer)).Port()) }
	case "(*net/url.URL).IsAbs":
		return func(x *Exec, f *ssa.Function, a []Value) Value { return mkBool(x.aggToURL(a[0].(*Pointer)).IsAbs()) }
	}
	return nil
}
