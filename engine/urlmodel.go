package main

import (
	"go/types"
	"net"
	"net/netip"
	"net/url"
	"sync"

	"golang.org/x/tools/go/ssa"
)

// net/url is executed natively on concrete strings (its parser uses lookup tables initialised in package
// init, which the engine does not run). Symbolic URL text is unsupported: harnesses draw URLs from
// concrete alphabets.

func (x *Exec) urlToAgg(u *url.URL, st *types.Struct) *Agg {
	a := x.zero(st).(*Agg)
	for i := 0; i < st.NumFields(); i++ {
		switch st.Field(i).Name() {
		case "Scheme":
			a.Elems[i] = mkStr(u.Scheme)
		case "Opaque":
			a.Elems[i] = mkStr(u.Opaque)
		case "Host":
			a.Elems[i] = mkStr(u.Host)
		case "Path":
			a.Elems[i] = mkStr(u.Path)
		case "RawPath":
			a.Elems[i] = mkStr(u.RawPath)
		case "RawQuery":
			a.Elems[i] = mkStr(u.RawQuery)
		case "Fragment":
			a.Elems[i] = mkStr(u.Fragment)
		case "RawFragment":
			a.Elems[i] = mkStr(u.RawFragment)
		case "OmitHost":
			a.Elems[i] = mkBool(u.OmitHost)
		case "ForceQuery":
			a.Elems[i] = mkBool(u.ForceQuery)
		}
	}
	return a
}

func (x *Exec) aggToURL(p *Pointer) *url.URL {
	a := x.loadAgg(p)
	st := urlStructOf(x)
	u := &url.URL{}
	for i := 0; i < st.NumFields(); i++ {
		get := func() string {
			t, ok := a.Elems[i].(*Term)
			if !ok || !t.IsConc() {
				x.abort("UNSUPPORTED", "symbolic url.URL field "+st.Field(i).Name())
			}
			s, _ := t.C.(string)
			return s
		}
		switch st.Field(i).Name() {
		case "Scheme":
			u.Scheme = get()
		case "Opaque":
			u.Opaque = get()
		case "Host":
			u.Host = get()
		case "Path":
			u.Path = get()
		case "RawPath":
			u.RawPath = get()
		case "RawQuery":
			u.RawQuery = get()
		case "Fragment":
			u.Fragment = get()
		case "RawFragment":
			u.RawFragment = get()
		case "OmitHost":
			u.OmitHost = a.Elems[i].(*Term).C.(bool)
		case "ForceQuery":
			u.ForceQuery = a.Elems[i].(*Term).C.(bool)
		}
	}
	return u
}

var urlStruct *types.Struct

var (
	netipMu    sync.Mutex
	netipAddrs []netip.Addr
	netipIdx   map[netip.Addr]int
)

func urlStructOf(x *Exec) *types.Struct {
	if urlStruct != nil {
		return urlStruct
	}
	for _, p := range x.prog.AllPackages() {
		if p.Pkg.Path() == "net/url" {
			urlStruct = p.Pkg.Scope().Lookup("URL").Type().Underlying().(*types.Struct)
		}
	}
	return urlStruct
}

func urlIntrinsic(name string, fn *ssa.Function) intrinsicFn {
	switch name {
	case "net/url.Parse":
		return func(x *Exec, f *ssa.Function, a []Value) Value {
			s := x.strOf(a[0])
			u, err := url.Parse(s)
			if err != nil {
				return tup((*Pointer)(nil), x.newErr("parse "+s+": "+err.Error()))
			}
			return tup(&Pointer{Obj: x.newObj(x.urlToAgg(u, urlStructOf(x)), "url.URL")}, nilErr)
		}
	// util.IsLoopback itself runs as real SSA; only the std parsers below it are native (concrete strings).
	case "net.SplitHostPort":
		return func(x *Exec, f *ssa.Function, a []Value) Value {
			h, p, err := net.SplitHostPort(x.strOf(a[0]))
			if err != nil {
				return tup(mkStr(""), mkStr(""), x.newErr(err.Error()))
			}
			return tup(mkStr(h), mkStr(p), nilErr)
		}
	case "net/netip.ParseAddr":
		// the Addr is an opaque value: its second word holds an index into the worker's table of parsed addresses
		return func(x *Exec, f *ssa.Function, a []Value) Value {
			z := x.zero(fn.Signature.Results().At(0).Type()).(*Agg)
			ip, err := netip.ParseAddr(x.strOf(a[0]))
			if err != nil {
				return tup(z, x.newErr(err.Error()))
			}
			netipMu.Lock()
			n := netipIdx[ip]
			if n == 0 {
				netipAddrs = append(netipAddrs, ip)
				n = len(netipAddrs)
				if netipIdx == nil {
					netipIdx = map[netip.Addr]int{}
				}
				netipIdx[ip] = n
			}
			netipMu.Unlock()
			z.Elems[0].(*Agg).Elems[1] = mkInt(int64(n))
			return tup(z, nilErr)
		}
	case "(net/netip.Addr).IsLoopback", "(net/netip.Addr).IsValid", "(net/netip.Addr).Is4", "(net/netip.Addr).Is6", "(net/netip.Addr).IsUnspecified", "(net/netip.Addr).IsPrivate":
		return func(x *Exec, f *ssa.Function, a []Value) Value {
			t, ok := a[0].(*Agg).Elems[0].(*Agg).Elems[1].(*Term)
			if !ok || !t.IsConc() {
				x.abort("UNSUPPORTED", "netip.Addr not produced by ParseAddr")
			}
			var ip netip.Addr
			netipMu.Lock()
			if i := t.C.(int64); i > 0 && int(i) <= len(netipAddrs) {
				ip = netipAddrs[i-1]
			}
			netipMu.Unlock()
			switch name {
			case "(net/netip.Addr).IsLoopback":
				return mkBool(ip.IsLoopback())
			case "(net/netip.Addr).IsValid":
				return mkBool(ip.IsValid())
			case "(net/netip.Addr).Is4":
				return mkBool(ip.Is4())
			case "(net/netip.Addr).Is6":
				return mkBool(ip.Is6())
			case "(net/netip.Addr).IsUnspecified":
				return mkBool(ip.IsUnspecified())
			}
			return mkBool(ip.IsPrivate())
		}
	case "(*net/url.URL).Parse":
		return func(x *Exec, f *ssa.Function, a []Value) Value {
			ref := x.strOf(a[1])
			u, err := x.aggToURL(a[0].(*Pointer)).Parse(ref)
			if err != nil {
				return tup((*Pointer)(nil), x.newErr("parse "+ref+": "+err.Error()))
			}
			return tup(&Pointer{Obj: x.newObj(x.urlToAgg(u, urlStructOf(x)), "url.URL")}, nilErr)
		}
	case "(*net/url.URL).String":
		return func(x *Exec, f *ssa.Function, a []Value) Value { return mkStr(x.aggToURL(a[0].(*Pointer)).String()) }
	case "(*net/url.URL).Hostname":
		return func(x *Exec, f *ssa.Function, a []Value) Value { return mkStr(x.aggToURL(a[0].(*Pointer)).Hostname()) }
	case "(*net/url.URL).Port":
		return func(x *Exec, f *ssa.Function, a []Value) Value { return mkStr(x.aggToURL(a[0].(*Pointer)).Port()) }
	case "(*net/url.URL).IsAbs":
		return func(x *Exec, f *ssa.Function, a []Value) Value { return mkBool(x.aggToURL(a[0].(*Pointer)).IsAbs()) }
	}
	return nil
}
