package main

import (
	"go/types"
	"fmt"
	"go/token"
	"net/textproto"
	"strings"

	"golang.org/x/tools/go/ssa"
)

// invoke calls method m on an interface value (real SSA method of the dynamic type, or a native method).
func (x *Exec) invoke(v Value, m string, args ...Value) Value {
	iv, _ := v.(*IfaceV)
	if iv == nil {
		x.abort("PANIC", "invoke "+m+" on nil interface")
	}
	if iv.T == nil {
		if h := x.nativeMethod(iv, m, nil); h != nil {
			return h(args)
		}
		x.abort("UNSUPPORTED", "native method "+m)
	}
	fn := x.prog.LookupMethod(iv.T, nil, m)
	if fn == nil {
		x.abort("UNSUPPORTED", "no method "+m+" on "+iv.T.String())
	}
	return x.call(fn, append([]Value{iv.V}, args...), nil)
}

func isSpaceTerm(b *Term) *Term {
	return tOr(tEq(b, mkInt(32)), tAnd(tLe(mkInt(9), b), tLe(b, mkInt(13))))
}

// asciiOrAbort makes sure byte b is < 0x80 on this path (forking away the non-ASCII case as unsupported).
func (x *Exec) asciiOrAbort(b *Term, what string) {
	if b.IsConc() {
		if b.C.(int64) >= 128 && b.C.(int64) < 1000 {
			x.abort("UNSUPPORTED", what+" on non-ASCII byte")
		}
		return
	}
	if x.sat(tLe(mkInt(128), b)) {
		if x.branch(tLe(mkInt(128), b)) {
			x.abort("UNSUPPORTED", what+" on non-ASCII byte")
		}
	}
}

func (x *Exec) strSlice(ss []Value) *SliceV {
	if len(ss) == 0 {
		return (*SliceV)(nil)
	}
	return x.newSlice(ss, "[]string")
}

func (x *Exec) trimSpace(sv *StrV, left, right bool) *StrV {
	lo, hi := 0, len(sv.B)
	if left {
		for lo < hi {
			x.asciiOrAbort(sv.B[lo], "TrimSpace")
			if !x.branch(isSpaceTerm(sv.B[lo])) {
				break
			}
			lo++
		}
	}
	if right {
		for hi > lo {
			x.asciiOrAbort(sv.B[hi-1], "TrimSpace")
			if !x.branch(isSpaceTerm(sv.B[hi-1])) {
				break
			}
			hi--
		}
	}
	return &StrV{B: append([]*Term{}, sv.B[lo:hi]...)}
}

// indexOf finds the first occurrence of sep in s (both byte strings), forking on symbolic comparisons.
func (x *Exec) indexOf(s, sep []*Term) int {
	if len(sep) == 0 {
		return 0
	}
	for i := 0; i+len(sep) <= len(s); i++ {
		eq := tTrue
		for j := range sep {
			eq = tAnd(eq, tEq(s[i+j], sep[j]))
		}
		if x.branch(eq) {
			return i
		}
	}
	return -1
}

func (x *Exec) lastIndexOf(s, sep []*Term) int {
	for i := len(s) - len(sep); i >= 0; i-- {
		eq := tTrue
		for j := range sep {
			eq = tAnd(eq, tEq(s[i+j], sep[j]))
		}
		if x.branch(eq) {
			return i
		}
	}
	return -1
}

func (x *Exec) bytesOf(v Value) []*Term {
	switch v := v.(type) {
	case *SliceV:
		var out []*Term
		for _, e := range x.sliceElems(v) {
			out = append(out, e.(*Term))
		}
		return out
	}
	return x.toStrV(v).B
}

func (x *Exec) byteSlice(b []*Term) *SliceV {
	if b == nil {
		return (*SliceV)(nil)
	}
	es := make([]Value, len(b))
	for i, t := range b {
		es[i] = t
	}
	return x.newSlice(es, "[]byte")
}

func canonHeader(x *Exec, v Value) *Term {
	return mkStr(textproto.CanonicalMIMEHeaderKey(x.strOf(v)))
}

func stringsIntrinsic(name string, fn *ssa.Function) intrinsicFn {
	switch name {
	case "strings.Fields":
		return func(x *Exec, _ *ssa.Function, a []Value) Value {
			sv := x.toStrV(a[0])
			var out []Value
			var cur []*Term
			flush := func() {
				if len(cur) > 0 {
					out = append(out, normStr(&StrV{B: cur}))
					cur = nil
				}
			}
			for _, b := range sv.B {
				if b.IsConc() && b.C.(int64) >= 1000 {
					cur = append(cur, b)
					continue
				}
				x.asciiOrAbort(b, "strings.Fields")
				if x.branch(isSpaceTerm(b)) {
					flush()
				} else {
					cur = append(cur, b)
				}
			}
			flush()
			return x.strSlice(out)
		}
	case "strings.Join":
		return func(x *Exec, _ *ssa.Function, a []Value) Value {
			sep := x.toStrV(a[1])
			out := &StrV{}
			for i, e := range x.sliceElems(a[0].(*SliceV)) {
				if i > 0 {
					out.B = append(out.B, sep.B...)
				}
				out.B = append(out.B, x.toStrV(e).B...)
			}
			return normStr(out)
		}
	case "strings.TrimSpace":
		return func(x *Exec, _ *ssa.Function, a []Value) Value { return normStr(x.trimSpace(x.toStrV(a[0]), true, true)) }
	case "bytes.TrimSpace":
		return func(x *Exec, _ *ssa.Function, a []Value) Value {
			s, _ := a[0].(*SliceV)
			if s == nil {
				return (*SliceV)(nil)
			}
			r := x.trimSpace(&StrV{B: x.bytesOf(s)}, true, true)
			if len(r.B) == 0 {
				return (*SliceV)(nil)
			}
			return x.byteSlice(r.B)
		}
	case "strings.Index", "strings.Contains", "bytes.Index", "bytes.Contains":
		return func(x *Exec, _ *ssa.Function, a []Value) Value {
			i := x.indexOf(x.bytesOf(a[0]), x.bytesOf(a[1]))
			if strings.HasSuffix(name, "Contains") {
				return mkBool(i >= 0)
			}
			return mkInt(int64(i))
		}
	case "strings.LastIndex":
		return func(x *Exec, _ *ssa.Function, a []Value) Value {
			return mkInt(int64(x.lastIndexOf(x.bytesOf(a[0]), x.bytesOf(a[1]))))
		}
	case "strings.IndexByte", "bytes.IndexByte":
		return func(x *Exec, _ *ssa.Function, a []Value) Value {
			return mkInt(int64(x.indexOf(x.bytesOf(a[0]), []*Term{a[1].(*Term)})))
		}
	case "strings.LastIndexByte":
		return func(x *Exec, _ *ssa.Function, a []Value) Value {
			return mkInt(int64(x.lastIndexOf(x.bytesOf(a[0]), []*Term{a[1].(*Term)})))
		}
	case "strings.Cut", "bytes.Cut":
		isBytes := name == "bytes.Cut"
		return func(x *Exec, _ *ssa.Function, a []Value) Value {
			s, sep := x.bytesOf(a[0]), x.bytesOf(a[1])
			i := x.indexOf(s, sep)
			mk := func(b []*Term) Value {
				if isBytes {
					return x.byteSlice(append([]*Term{}, b...))
				}
				return normStr(&StrV{B: append([]*Term{}, b...)})
			}
			if i < 0 {
				if isBytes {
					return tup(a[0], (*SliceV)(nil), tFalse)
				}
				return tup(a[0], mkStr(""), tFalse)
			}
			return tup(mk(s[:i]), mk(s[i+len(sep):]), tTrue)
		}
	case "strings.Split":
		return func(x *Exec, _ *ssa.Function, a []Value) Value {
			s, sep := x.bytesOf(a[0]), x.bytesOf(a[1])
			if len(sep) == 0 {
				x.abort("UNSUPPORTED", "strings.Split with empty separator")
			}
			var out []Value
			for {
				i := x.indexOf(s, sep)
				if i < 0 {
					break
				}
				out = append(out, normStr(&StrV{B: append([]*Term{}, s[:i]...)}))
				s = s[i+len(sep):]
			}
			out = append(out, normStr(&StrV{B: append([]*Term{}, s...)}))
			return x.strSlice(out)
		}
	case "bytes.Equal":
		return func(x *Exec, _ *ssa.Function, a []Value) Value {
			return x.strEq(&StrV{B: x.bytesOf(a[0])}, &StrV{B: x.bytesOf(a[1])})
		}
	case "strings.EqualFold":
		return func(x *Exec, _ *ssa.Function, a []Value) Value {
			p, q := x.bytesOf(a[0]), x.bytesOf(a[1])
			if len(p) != len(q) {
				return tFalse
			}
			lower := func(b *Term) *Term {
				x.asciiOrAbort(b, "EqualFold")
				if b.IsConc() {
					c := b.C.(int64)
					if c >= 'A' && c <= 'Z' {
						c += 32
					}
					return mkInt(c)
				}
				return tIte(tAnd(tLe(mkInt('A'), b), tLe(b, mkInt('Z'))), tAdd(b, mkInt(32)), b)
			}
			r := tTrue
			for i := range p {
				r = tAnd(r, tEq(lower(p[i]), lower(q[i])))
			}
			return r
		}
	case "strings.TrimRight", "strings.TrimLeft", "strings.Trim", "bytes.TrimRight":
		return func(x *Exec, _ *ssa.Function, a []Value) Value {
			s := x.bytesOf(a[0])
			cut := x.strOf(a[1])
			in := func(b *Term) *Term {
				r := tFalse
				for i := 0; i < len(cut); i++ {
					r = tOr(r, tEq(b, mkInt(int64(cut[i]))))
				}
				return r
			}
			lo, hi := 0, len(s)
			if !strings.HasSuffix(name, "Right") {
				for lo < hi && x.branch(in(s[lo])) {
					lo++
				}
			}
			if !strings.HasSuffix(name, "Left") {
				for hi > lo && x.branch(in(s[hi-1])) {
					hi--
				}
			}
			if strings.HasPrefix(name, "bytes.") {
				if a[0].(*SliceV) == nil {
					return (*SliceV)(nil)
				}
				return x.byteSlice(append([]*Term{}, s[lo:hi]...))
			}
			return normStr(&StrV{B: append([]*Term{}, s[lo:hi]...)})
		}
	// ---- net/http.Header as a plain map with canonical concrete keys
	case "(net/http.Header).Get":
		return func(x *Exec, _ *ssa.Function, a []Value) Value {
			m, _ := a[0].(*MapV)
			if e := x.mapFind(m, canonHeader(x, a[1])); e != nil {
				if vs := x.sliceElems(e.V.(*SliceV)); len(vs) > 0 {
					return vs[0]
				}
			}
			return mkStr("")
		}
	case "(net/http.Header).Values":
		return func(x *Exec, _ *ssa.Function, a []Value) Value {
			m, _ := a[0].(*MapV)
			if e := x.mapFind(m, canonHeader(x, a[1])); e != nil {
				return e.V
			}
			return (*SliceV)(nil)
		}
	case "(net/http.Header).Set", "(net/http.Header).Add":
		add := strings.HasSuffix(name, "Add")
		return func(x *Exec, _ *ssa.Function, a []Value) Value {
			m, _ := a[0].(*MapV)
			if m == nil {
				x.abort("PANIC", "assignment to entry in nil map (http.Header)")
			}
			k := canonHeader(x, a[1])
			e := x.mapFind(m, k)
			if e == nil {
				m.Entries = append(m.Entries, &MapEntry{K: k, V: x.strSlice([]Value{a[2]})})
			} else if add {
				e.V = x.strSlice(append(append([]Value{}, x.sliceElems(e.V.(*SliceV))...), a[2]))
			} else {
				e.V = x.strSlice([]Value{a[2]})
			}
			return nil
		}
	case "(net/http.Header).Del":
		return func(x *Exec, _ *ssa.Function, a []Value) Value {
			m, _ := a[0].(*MapV)
			if m == nil {
				return nil
			}
			k := canonHeader(x, a[1])
			if e := x.mapFind(m, k); e != nil {
				for i, f := range m.Entries {
					if f == e {
						m.Entries = append(append([]*MapEntry{}, m.Entries[:i]...), m.Entries[i+1:]...)
					}
				}
			}
			return nil
		}
	case "net/http.Error":
		return func(x *Exec, _ *ssa.Function, a []Value) Value {
			h := x.invoke(a[0], "Header")
			if m, _ := h.(*MapV); m != nil {
				for _, k := range []string{"Content-Length"} {
					for i, f := range m.Entries {
						if kt, ok := f.K.(*Term); ok && kt.IsConc() && kt.C.(string) == k {
							m.Entries = append(append([]*MapEntry{}, m.Entries[:i]...), m.Entries[i+1:]...)
							break
						}
					}
				}
				set := func(k, v string) {
					for _, f := range m.Entries {
						if kt, ok := f.K.(*Term); ok && kt.IsConc() && kt.C.(string) == k {
							f.V = x.strSlice([]Value{mkStr(v)})
							return
						}
					}
					m.Entries = append(m.Entries, &MapEntry{K: mkStr(k), V: x.strSlice([]Value{mkStr(v)})})
				}
				set("Content-Type", "text/plain; charset=utf-8")
				set("X-Content-Type-Options", "nosniff")
			}
			x.invoke(a[0], "WriteHeader", a[2])
			body := x.binop(token.ADD, a[1], mkStr("\n"), nil, nil)
			x.invoke(a[0], "Write", x.byteSlice(x.toStrV(body).B))
			return nil
		}
	}
	_ = fmt.Sprint
	return nil
}

// findMethod returns the method named m of type t (nil if t has none); unlike prog.LookupMethod it does not panic.
func (x *Exec) findMethod(t types.Type, pkg *types.Package, m string) *ssa.Function {
	ms := x.prog.MethodSets.MethodSet(t)
	for i := 0; i < ms.Len(); i++ {
		sel := ms.At(i)
		if sel.Obj().Name() == m && (sel.Obj().Exported() || pkg == nil || sel.Obj().Pkg() == pkg) {
			return x.prog.MethodValue(sel)
		}
	}
	return nil
}
