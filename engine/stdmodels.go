package main

import (
	"reflect"
	"go/types"
	"math"
	"strconv"
	"fmt"
	"go/token"
	"net/textproto"
	"strings"

	"golang.org/x/tools/go/ssa"
)

// invoke calls method m on an interface value (real SSA method of the dynamic type, or a native method).
func (x *Exec) invoke(v Value, m string, args ...Value) Value {
	iv, _ := v.(*IfaceV)
	if iv == nil {
		x.abort("PANIC", "invoke "+m+" on nil interface")
	}
	if iv.T == nil {
		if h := x.nativeMethod(iv, m, nil); h != nil {
			return h(args)
		}
		x.abort("UNSUPPORTED", "native method "+m)
	}
	fn := x.prog.LookupMethod(iv.T, nil, m)
	if fn == nil {
		x.abort("UNSUPPORTED", "no method "+m+" on "+iv.T.String())
	}
	return x.call(fn, append([]Value{iv.V}, args...), nil)
}

func isSpaceTerm(b *Term) *Term {
	return tOr(tEq(b, mkInt(32)), tAnd(tLe(mkInt(9), b), tLe(b, mkInt(13))))
}

// asciiOrAbort makes sure byte b is < 0x80 on this path (forking away the non-ASCII case as unsupported).
func (x *Exec) asciiOrAbort(b *Term, what string) {
	if b.IsConc() {
		if b.C.(int64) >= 128 && b.C.(int64) < 1000 {
			x.abort("UNSUPPORTED", what+" on non-ASCII byte")
		}
		return
	}
	if x.sat(tLe(mkInt(128), b)) {
		if x.branch(tLe(mkInt(128), b)) {
			x.abort("UNSUPPORTED", what+" on non-ASCII byte")
		}
	}
}

func (x *Exec) strSlice(ss []Value) *SliceV {
	if len(ss) == 0 {
		return (*SliceV)(nil)
	}
	return x.newSlice(ss, "[]string")
}

func (x *Exec) trimSpace(sv *StrV, left, right bool) *StrV {
	lo, hi := 0, len(sv.B)
	if left {
		for lo < hi {
			x.asciiOrAbort(sv.B[lo], "TrimSpace")
			if !x.branch(isSpaceTerm(sv.B[lo])) {
				break
			}
			lo++
		}
	}
	if right {
		for hi > lo {
			x.asciiOrAbort(sv.B[hi-1], "TrimSpace")
			if !x.branch(isSpaceTerm(sv.B[hi-1])) {
				break
			}
			hi--
		}
	}
	return &StrV{B: append([]*Term{}, sv.B[lo:hi]...)}
}

// indexOf finds the first occurrence of sep in s (both byte strings), forking on symbolic comparisons.
func (x *Exec) indexOf(s, sep []*Term) int {
	if len(sep) == 0 {
		return 0
	}
	for i := 0; i+len(sep) <= len(s); i++ {
		eq := tTrue
		for j := range sep {
			eq = tAnd(eq, tEq(s[i+j], sep[j]))
		}
		if x.branch(eq) {
			return i
		}
	}
	return -1
}

func (x *Exec) lastIndexOf(s, sep []*Term) int {
	for i := len(s) - len(sep); i >= 0; i-- {
		eq := tTrue
		for j := range sep {
			eq = tAnd(eq, tEq(s[i+j], sep[j]))
		}
		if x.branch(eq) {
			return i
		}
	}
	return -1
}

func (x *Exec) bytesOf(v Value) []*Term {
	switch v := v.(type) {
	case *SliceV:
		var out []*Term
		for _, e := range x.sliceElems(v) {
			out = append(out, e.(*Term))
		}
		return out
	}
	return x.toStrV(v).B
}

func (x *Exec) byteSlice(b []*Term) *SliceV {
	if b == nil {
		return (*SliceV)(nil)
	}
	es := make([]Value, len(b))
	for i, t := range b {
		es[i] = t
	}
	return x.newSlice(es, "[]byte")
}

func canonHeader(x *Exec, v Value) *Term {
	return mkStr(textproto.CanonicalMIMEHeaderKey(x.strOf(v)))
}

func stringsIntrinsic(name string, fn *ssa.Function) intrinsicFn {
	switch name {
	case "strings.Fields":
		return func(x *Exec, _ *ssa.Function, a []Value) Value {
			sv := x.toStrV(a[0])
			var out []Value
			var cur []*Term
			flush := func() {
				if len(cur) > 0 {
					out = append(out, normStr(&StrV{B: cur}))
					cur = nil
				}
			}
			for _, b := range sv.B {
				if b.IsConc() && b.C.(int64) >= 1000 {
					cur = append(cur, b)
					continue
				}
				x.asciiOrAbort(b, "strings.Fields")
				if x.branch(isSpaceTerm(b)) {
					flush()
				} else {
					cur = append(cur, b)
				}
			}
			flush()
			return x.strSlice(out)
		}
	case "strings.Join":
		return func(x *Exec, _ *ssa.Function, a []Value) Value {
			sep := x.toStrV(a[1])
			out := &StrV{}
			for i, e := range x.sliceElems(a[0].(*SliceV)) {
				if i > 0 {
					out.B = append(out.B, sep.B...)
				}
				out.B = append(out.B, x.toStrV(e).B...)
			}
			return normStr(out)
		}
	case "strings.TrimSpace":
		return func(x *Exec, _ *ssa.Function, a []Value) Value { return normStr(x.trimSpace(x.toStrV(a[0]), true, true)) }
	case "bytes.TrimSpace":
		return func(x *Exec, _ *ssa.Function, a []Value) Value {
			s, _ := a[0].(*SliceV)
			if s == nil {
				return (*SliceV)(nil)
			}
			r := x.trimSpace(&StrV{B: x.bytesOf(s)}, true, true)
			if len(r.B) == 0 {
				return (*SliceV)(nil)
			}
			return x.byteSlice(r.B)
		}
	case "strings.Index", "strings.Contains", "bytes.Index", "bytes.Contains":
		return func(x *Exec, _ *ssa.Function, a []Value) Value {
			i := x.indexOf(x.bytesOf(a[0]), x.bytesOf(a[1]))
			if strings.HasSuffix(name, "Contains") {
				return mkBool(i >= 0)
			}
			return mkInt(int64(i))
		}
	case "strings.LastIndex":
		return func(x *Exec, _ *ssa.Function, a []Value) Value {
			return mkInt(int64(x.lastIndexOf(x.bytesOf(a[0]), x.bytesOf(a[1]))))
		}
	case "strings.IndexByte", "bytes.IndexByte":
		return func(x *Exec, _ *ssa.Function, a []Value) Value {
			return mkInt(int64(x.indexOf(x.bytesOf(a[0]), []*Term{a[1].(*Term)})))
		}
	case "strings.LastIndexByte":
		return func(x *Exec, _ *ssa.Function, a []Value) Value {
			return mkInt(int64(x.lastIndexOf(x.bytesOf(a[0]), []*Term{a[1].(*Term)})))
		}
	case "strings.Cut", "bytes.Cut":
		isBytes := name == "bytes.Cut"
		return func(x *Exec, _ *ssa.Function, a []Value) Value {
			s, sep := x.bytesOf(a[0]), x.bytesOf(a[1])
			i := x.indexOf(s, sep)
			mk := func(b []*Term) Value {
				if isBytes {
					return x.byteSlice(append([]*Term{}, b...))
				}
				return normStr(&StrV{B: append([]*Term{}, b...)})
			}
			if i < 0 {
				if isBytes {
					return tup(a[0], (*SliceV)(nil), tFalse)
				}
				return tup(a[0], mkStr(""), tFalse)
			}
			return tup(mk(s[:i]), mk(s[i+len(sep):]), tTrue)
		}
	case "strings.Split":
		return func(x *Exec, _ *ssa.Function, a []Value) Value {
			s, sep := x.bytesOf(a[0]), x.bytesOf(a[1])
			if len(sep) == 0 {
				x.abort("UNSUPPORTED", "strings.Split with empty separator")
			}
			var out []Value
			for {
				i := x.indexOf(s, sep)
				if i < 0 {
					break
				}
				out = append(out, normStr(&StrV{B: append([]*Term{}, s[:i]...)}))
				s = s[i+len(sep):]
			}
			out = append(out, normStr(&StrV{B: append([]*Term{}, s...)}))
			return x.strSlice(out)
		}
	case "bytes.Equal":
		return func(x *Exec, _ *ssa.Function, a []Value) Value {
			return x.strEq(&StrV{B: x.bytesOf(a[0])}, &StrV{B: x.bytesOf(a[1])})
		}
	case "strings.Compare", "internal/bytealg.abigen_runtime_cmpstring", "cmp.Compare[string]", "bytes.Compare":
		// three-way comparison as ite over the byte-array encoding
		return func(x *Exec, _ *ssa.Function, a []Value) Value {
			p, q := x.bytesOf(a[0]), x.bytesOf(a[1])
			lt := x.strLess(p, q, false)
			gt := x.strLess(q, p, false)
			return tIte(lt, mkInt(-1), tIte(gt, mkInt(1), mkInt(0)))
		}
	case "strings.EqualFold":
		return func(x *Exec, _ *ssa.Function, a []Value) Value {
			p, q := x.bytesOf(a[0]), x.bytesOf(a[1])
			if len(p) != len(q) {
				return tFalse
			}
			lower := func(b *Term) *Term {
				x.asciiOrAbort(b, "EqualFold")
				if b.IsConc() {
					c := b.C.(int64)
					if c >= 'A' && c <= 'Z' {
						c += 32
					}
					return mkInt(c)
				}
				return tIte(tAnd(tLe(mkInt('A'), b), tLe(b, mkInt('Z'))), tAdd(b, mkInt(32)), b)
			}
			r := tTrue
			for i := range p {
				r = tAnd(r, tEq(lower(p[i]), lower(q[i])))
			}
			return r
		}
	case "strings.TrimRight", "strings.TrimLeft", "strings.Trim", "bytes.TrimRight":
		return func(x *Exec, _ *ssa.Function, a []Value) Value {
			s := x.bytesOf(a[0])
			cut := x.strOf(a[1])
			in := func(b *Term) *Term {
				r := tFalse
				for i := 0; i < len(cut); i++ {
					r = tOr(r, tEq(b, mkInt(int64(cut[i]))))
				}
				return r
			}
			lo, hi := 0, len(s)
			if !strings.HasSuffix(name, "Right") {
				for lo < hi && x.branch(in(s[lo])) {
					lo++
				}
			}
			if !strings.HasSuffix(name, "Left") {
				for hi > lo && x.branch(in(s[hi-1])) {
					hi--
				}
			}
			if strings.HasPrefix(name, "bytes.") {
				sl := a[0].(*SliceV)
				if sl == nil {
					return (*SliceV)(nil)
				}
				if sl.LenT == nil {
					// a sub-slice of the argument, as in the library: it shares the argument's memory
					return &SliceV{Arr: sl.Arr, Off: sl.Off + lo, Len: hi - lo, Cap: sl.Cap - lo}
				}
				return x.byteSlice(append([]*Term{}, s[lo:hi]...))
			}
			return normStr(&StrV{B: append([]*Term{}, s[lo:hi]...)})
		}
	case "strconv.FormatInt", "strconv.Itoa":
		return func(x *Exec, _ *ssa.Function, a []Value) Value {
			t := a[0].(*Term)
			if len(a) > 1 {
				if b := a[1].(*Term); !b.IsConc() || b.C.(int64) != 10 {
					x.abort("UNSUPPORTED", "FormatInt base != 10")
				}
			}
			if t.IsConc() {
				return mkStr(strconv.FormatInt(t.C.(int64), 10))
			}
			return x.newToken("dec", t)
		}
	case "strconv.Unquote":
		// Only the case the real implementation cannot reach is modelled: a JSON text standing for a string (token).
		// JSON and Go string literals agree except where JSON allows what Go does not: "\/" and surrogate pairs. A peer is
		// free to write a '/' either way, so unquoting the JSON text of a string containing '/' may fail.
		return func(x *Exec, f *ssa.Function, a []Value) Value {
			ti := x.tokenOf(a[0])
			if ti == nil || ti.kind != "json" {
				if t, ok := a[0].(*Term); ok && t.IsConc() {
					r, err := strconv.Unquote(t.C.(string))
					if err != nil {
						return tup(mkStr(""), x.newErr("strconv: "+err.Error()))
					}
					return tup(mkStr(r), nilErr)
				}
				x.abort("UNSUPPORTED", "strconv.Unquote of a symbolic non-token string")
			}
			arg := ti.arg
			if iv, ok := arg.(*IfaceV); ok && iv != nil {
				arg = iv.V
			}
			if !isStringVal(arg) {
				return tup(mkStr(""), x.newErr("strconv: invalid syntax"))
			}
			sv := x.toStrV(arg)
			has := tFalse
			for _, b := range sv.B {
				has = tOr(has, tOr(tEq(b, mkInt('/')), tLe(mkInt(0xF0), b)))
			}
			if x.branch(has) && x.choose('c', 2, nil) == 1 {
				return tup(mkStr(""), x.newErr("strconv: invalid syntax (JSON-only escape)"))
			}
			return tup(arg, nilErr)
		}
	case "strconv.Atoi", "strconv.ParseInt":
		return func(x *Exec, f *ssa.Function, a []Value) Value {
			if ti := x.tokenOf(a[0]); ti != nil && ti.kind == "dec" {
				return tup(ti.arg, nilErr)
			}
			if t, ok := a[0].(*Term); ok && t.IsConc() {
				n, err := strconv.ParseInt(t.C.(string), 10, 64)
				if err != nil {
					return tup(mkInt(n), x.newErr("strconv: "+err.Error())) // like strconv: 0 on syntax errors, the clamped value on range errors
				}
				return tup(mkInt(n), nilErr)
			}
			// symbolic digits: evaluate the decimal value, forking on digit-ness
			bs := x.toStrV(a[0]).B
			neg := false
			if len(bs) > 0 {
				if x.branch(tEq(bs[0], mkInt('-'))) {
					neg = true
					bs = bs[1:]
				} else if x.branch(tEq(bs[0], mkInt('+'))) {
					bs = bs[1:]
				}
			}
			if len(bs) == 0 || len(bs) > 18 {
				return tup(mkInt(0), x.newErr("strconv: invalid syntax"))
			}
			val := mkInt(0)
			for _, b := range bs {
				if b.IsConc() && b.C.(int64) >= 1000 {
					return tup(mkInt(0), x.newErr("strconv: invalid syntax"))
				}
				if !x.branch(tAnd(tLe(mkInt('0'), b), tLe(b, mkInt('9')))) {
					return tup(mkInt(0), x.newErr("strconv: invalid syntax"))
				}
				val = tAdd(app(SInt, "*", val, mkInt(10)), tSub(b, mkInt('0')))
			}
			if neg {
				val = tSub(mkInt(0), val)
			}
			return tup(val, nilErr)
		}
	case "strconv.ParseFloat":
		return func(x *Exec, f *ssa.Function, a []Value) Value {
			if ti := x.tokenOf(a[0]); ti != nil && ti.kind == "dec" {
				return tup(x.intToFloat(ti.arg.(*Term), types.Typ[types.Int64]), nilErr)
			}
			if t, ok := a[0].(*Term); ok && t.IsConc() {
				v, err := strconv.ParseFloat(t.C.(string), 64)
				if err != nil {
					return tup(mkFloat(0), x.newErr("strconv: "+err.Error()))
				}
				return tup(mkFloat(v), nilErr)
			}
			// any other text: either a syntax error or some float (uninterpreted)
			if x.branch(x.fresh("parsefloat_err", SBool)) {
				return tup(mkFloat(0), x.newErr("strconv.ParseFloat: invalid syntax"))
			}
			return tup(x.fresh("parsefloat", SFloat), nilErr)
		}
	case "(*encoding/base64.Encoding).EncodeToString":
		return func(x *Exec, _ *ssa.Function, a []Value) Value {
			src := &StrV{B: x.bytesOf(a[1])}
			if len(src.B) == 0 {
				return mkStr("")
			}
			return x.newToken("b64", src)
		}
	case "(*encoding/base64.Encoding).DecodeString":
		return func(x *Exec, _ *ssa.Function, a []Value) Value {
			if t, ok := a[1].(*Term); ok && t.IsConc() && t.C.(string) == "" {
				return tup(x.byteSlice([]*Term{}), nilErr)
			}
			if ti := x.tokenOf(a[1]); ti != nil && ti.kind == "b64" {
				return tup(x.byteSlice(append([]*Term{}, ti.arg.(*StrV).B...)), nilErr)
			}
			// not produced by the encoder: rejected, or decodes to arbitrary bytes (uninterpreted, but a function
			// of its input: the same text decodes the same way)
			key := "b64:"
			for _, b := range x.bytesOf(a[1]) {
				key += b.E + ","
			}
			if r, ok := x.ufMemo[key]; ok {
				if r == nil {
					return tup((*SliceV)(nil), x.newErr("illegal base64 data"))
				}
				return tup(x.byteSlice(append([]*Term{}, r...)), nilErr)
			}
			if x.ufMemo == nil {
				x.ufMemo = map[string][]*Term{}
			}
			if x.branch(x.fresh("b64_err", SBool)) {
				x.ufMemo[key] = nil
				return tup((*SliceV)(nil), x.newErr("illegal base64 data"))
			}
			n := x.choose('c', 3, nil)
			var bs []*Term
			for i := 0; i < n; i++ {
				b := x.fresh("b64dec", SInt)
				x.sol.Assert(tLe(mkInt(0), b))
				x.sol.Assert(tLe(b, mkInt(255)))
				bs = append(bs, b)
			}
			if bs == nil {
				bs = []*Term{}
			}
			x.ufMemo[key] = bs
			return tup(x.byteSlice(append([]*Term{}, bs...)), nilErr)
		}
	case "math.Pow":
		// concrete arguments only (the library routine goes through Float64bits)
		return func(x *Exec, _ *ssa.Function, a []Value) Value {
			p, q := a[0].(*Term), a[1].(*Term)
			pf, ok1 := p.C.(float64)
			qf, ok2 := q.C.(float64)
			if !p.IsConc() || !q.IsConc() || !ok1 || !ok2 {
				x.abort("UNSUPPORTED", "math.Pow of symbolic arguments")
			}
			return mkFloat(math.Pow(pf, qf))
		}
	case "math.Trunc":
		return func(x *Exec, _ *ssa.Function, a []Value) Value {
			t := a[0].(*Term)
			if t.S == SFInt {
				return t
			}
			if t.IsConc() {
				return mkFloat(math.Trunc(t.C.(float64)))
			}
			return &Term{S: SFloat, E: "(fp.roundToIntegral RTZ " + t.E + ")"}
		}
	case "math.IsNaN":
		return func(x *Exec, _ *ssa.Function, a []Value) Value {
			t := a[0].(*Term)
			if t.S == SFInt {
				return tFalse
			}
			if t.IsConc() {
				return mkBool(math.IsNaN(t.C.(float64)))
			}
			return app(SBool, "fp.isNaN", t)
		}
	case "math.IsInf":
		return func(x *Exec, _ *ssa.Function, a []Value) Value {
			t := a[0].(*Term)
			sign := a[1].(*Term).C.(int64)
			if t.S == SFInt {
				return tFalse
			}
			if t.IsConc() {
				return mkBool(math.IsInf(t.C.(float64), int(sign)))
			}
			inf := app(SBool, "fp.isInfinite", t)
			switch {
			case sign > 0:
				return tAnd(inf, app(SBool, "fp.isPositive", t))
			case sign < 0:
				return tAnd(inf, app(SBool, "fp.isNegative", t))
			}
			return inf
		}
	// ---- net/http.Header as a plain map with canonical concrete keys
	// ---- sync.Map as an association list per map object; reflect.TypeOf as an opaque, comparable type name
	// ---- strings.Builder over its own buf field (the real methods go through unsafe)
	case "(*strings.Builder).WriteByte", "(*strings.Builder).WriteString", "(*strings.Builder).Write", "(*strings.Builder).WriteRune",
		"(*strings.Builder).String", "(*strings.Builder).Len", "(*strings.Builder).Reset", "(*strings.Builder).Grow":
		op := name[strings.LastIndex(name, ".")+1:]
		return func(x *Exec, f *ssa.Function, a []Value) Value {
			p, _ := a[0].(*Pointer)
			if p == nil {
				x.abort("PANIC", "nil *strings.Builder")
			}
			st := f.Signature.Recv().Type().(*types.Pointer).Elem().Underlying().(*types.Struct)
			bi := -1
			for i := 0; i < st.NumFields(); i++ {
				if st.Field(i).Name() == "buf" {
					bi = i
				}
			}
			fp := sub(p, bi)
			var cur []*Term
			if sl, _ := x.load(fp).(*SliceV); sl != nil {
				cur = x.bytesOf(sl)
			}
			put := func(b []*Term) { x.store(fp, x.byteSlice(append(append([]*Term{}, cur...), b...))) }
			switch op {
			case "WriteByte":
				put([]*Term{a[1].(*Term)})
				return nilErr
			case "WriteString":
				b := x.toStrV(a[1]).B
				put(b)
				return tup(mkInt(int64(len(b))), nilErr)
			case "Write":
				b := x.bytesOf(a[1])
				put(b)
				return tup(mkInt(int64(len(b))), nilErr)
			case "WriteRune":
				r := a[1].(*Term)
				if !r.IsConc() || r.C.(int64) >= 128 {
					x.abort("UNSUPPORTED", "strings.Builder.WriteRune of a symbolic or non-ASCII rune")
				}
				put([]*Term{r})
				return tup(mkInt(1), nilErr)
			case "String":
				return normStr(&StrV{B: append([]*Term{}, cur...)})
			case "Len":
				return mkInt(int64(len(cur)))
			case "Reset":
				x.store(fp, (*SliceV)(nil))
			}
			return nil
		}
	// ---- sync.Pool as a LIFO stash per pool object: Get hands back the most recently Put object (the schedule under
	// which pooled objects are reused at once — the one that exposes aliasing of pooled buffers), else New()
	case "(*sync.Pool).Get", "(*sync.Pool).Put":
		op := name[strings.LastIndex(name, ".")+1:]
		return func(x *Exec, f *ssa.Function, a []Value) Value {
			p, _ := a[0].(*Pointer)
			if p == nil {
				x.abort("PANIC", "nil *sync.Pool")
			}
			if x.syncPools == nil {
				x.syncPools = map[string][]Value{}
			}
			k := ptrKey(p)
			if op == "Put" {
				if iv, _ := a[1].(*IfaceV); iv != nil {
					x.syncPools[k] = append(x.syncPools[k], a[1])
				}
				return nil
			}
			if st := x.syncPools[k]; len(st) > 0 {
				v := st[len(st)-1]
				x.syncPools[k] = st[:len(st)-1]
				return v
			}
			pt := f.Signature.Recv().Type().(*types.Pointer).Elem().Underlying().(*types.Struct)
			for i := 0; i < pt.NumFields(); i++ {
				if pt.Field(i).Name() == "New" {
					if nf := x.load(sub(p, i)); !isNilValue(nf) {
						return x.callValue(nf, nil)
					}
				}
			}
			return (*IfaceV)(nil)
		}
	// ---- (*json.Encoder).Encode: the uninterpreted JSON text of v plus a newline, handed to the encoder's writer
	case "(*encoding/json.Encoder).Encode", "(*github.com/segmentio/encoding/json.Encoder).Encode":
		return func(x *Exec, f *ssa.Function, a []Value) Value {
			p, _ := a[0].(*Pointer)
			if p == nil {
				x.abort("PANIC", "nil *json.Encoder")
			}
			st := f.Signature.Recv().Type().(*types.Pointer).Elem().Underlying().(*types.Struct)
			for i := 0; i < st.NumFields(); i++ {
				if st.Field(i).Name() == "w" {
					w := x.load(sub(p, i))
					t := x.newToken("json", a[1])
					data := x.byteSlice(append(append([]*Term{}, t.B...), mkInt('\n')))
					r := x.invoke(w, "Write", data)
					if tu, ok := r.(*Tuple); ok && len(tu.Elems) == 2 {
						return tu.Elems[1]
					}
					return nilErr
				}
			}
			x.abort("UNSUPPORTED", "json.Encoder without a writer field")
			return nil
		}
	case "(*sync.Map).Load", "(*sync.Map).Store", "(*sync.Map).LoadOrStore", "(*sync.Map).Delete", "(*sync.Map).LoadAndDelete":
		op := name[strings.LastIndex(name, ".")+1:]
		return func(x *Exec, _ *ssa.Function, a []Value) Value {
			p, _ := a[0].(*Pointer)
			if p == nil {
				x.abort("PANIC", "nil *sync.Map")
			}
			if x.syncMaps == nil {
				x.syncMaps = map[string]*MapV{}
			}
			k := ptrKey(p)
			m := x.syncMaps[k]
			if m == nil {
				x.nobj++
				m = &MapV{ID: x.nobj}
				x.syncMaps[k] = m
			}
			e := x.mapFind(m, a[1])
			switch op {
			case "Load":
				if e == nil {
					return tup((*IfaceV)(nil), tFalse)
				}
				return tup(e.V, tTrue)
			case "Store":
				if e != nil {
					e.V = a[2]
				} else {
					m.Entries = append(m.Entries, &MapEntry{K: a[1], V: a[2]})
				}
				return nil
			case "LoadOrStore":
				if e != nil {
					return tup(e.V, tTrue)
				}
				m.Entries = append(m.Entries, &MapEntry{K: a[1], V: a[2]})
				return tup(a[2], tFalse)
			default: // Delete, LoadAndDelete
				var old Value = (*IfaceV)(nil)
				found := tFalse
				if e != nil {
					old, found = e.V, tTrue
					for i, f := range m.Entries {
						if f == e {
							m.Entries = append(append([]*MapEntry{}, m.Entries[:i]...), m.Entries[i+1:]...)
							break
						}
					}
				}
				if op == "LoadAndDelete" {
					return tup(old, found)
				}
				return nil
			}
		}
	case "reflect.TypeOf":
		return func(x *Exec, _ *ssa.Function, a []Value) Value {
			iv, _ := a[0].(*IfaceV)
			if iv == nil || iv.T == nil {
				return (*IfaceV)(nil)
			}
			return x.rtypeOf(iv.T)
		}
	case "crypto/rand.Text":
		// a fresh identifier per call (26 characters like the library's); distinct calls give distinct strings
		return func(x *Exec, _ *ssa.Function, a []Value) Value {
			x.randN++
			return mkStr(fmt.Sprintf("RND%05dABCDEFGHIJKLMNOPQR", x.randN))
		}
	case "reflect.Zero":
		// reflect.Zero(t): a reflect.Value holding the zero value of t; only .Interface() is modelled
		return func(x *Exec, f *ssa.Function, a []Value) Value {
			t := x.rtypeFrom(a[0])
			if t == nil {
				x.abort("UNSUPPORTED", "reflect.Zero of an unknown type")
			}
			rv, _ := x.zero(f.Signature.Results().At(0).Type()).(*Agg)
			x.rvalues[rv] = &IfaceV{T: t, V: x.zero(t)}
			return rv
		}
	case "(reflect.Value).Interface":
		return func(x *Exec, _ *ssa.Function, a []Value) Value {
			if rv, ok := a[0].(*Agg); ok {
				if v, ok := x.rvalues[rv]; ok {
					return v
				}
			}
			x.abort("UNSUPPORTED", "reflect.Value.Interface on a value the model did not create")
			return nil
		}
	case "net/http.CanonicalHeaderKey", "net/textproto.CanonicalMIMEHeaderKey":
		return func(x *Exec, _ *ssa.Function, a []Value) Value { return canonHeader(x, a[0]) }
	case "(net/http.Header).Get":
		return func(x *Exec, _ *ssa.Function, a []Value) Value {
			m, _ := a[0].(*MapV)
			if e := x.mapFind(m, canonHeader(x, a[1])); e != nil {
				if vs := x.sliceElems(e.V.(*SliceV)); len(vs) > 0 {
					return vs[0]
				}
			}
			return mkStr("")
		}
	case "(net/http.Header).Values":
		return func(x *Exec, _ *ssa.Function, a []Value) Value {
			m, _ := a[0].(*MapV)
			if e := x.mapFind(m, canonHeader(x, a[1])); e != nil {
				return e.V
			}
			return (*SliceV)(nil)
		}
	case "(net/http.Header).Set", "(net/http.Header).Add":
		add := strings.HasSuffix(name, "Add")
		return func(x *Exec, _ *ssa.Function, a []Value) Value {
			m, _ := a[0].(*MapV)
			if m == nil {
				x.abort("PANIC", "assignment to entry in nil map (http.Header)")
			}
			k := canonHeader(x, a[1])
			e := x.mapFind(m, k)
			if e == nil {
				m.Entries = append(m.Entries, &MapEntry{K: k, V: x.strSlice([]Value{a[2]})})
			} else if add {
				e.V = x.strSlice(append(append([]Value{}, x.sliceElems(e.V.(*SliceV))...), a[2]))
			} else {
				e.V = x.strSlice([]Value{a[2]})
			}
			return nil
		}
	case "(net/http.Header).Del":
		return func(x *Exec, _ *ssa.Function, a []Value) Value {
			m, _ := a[0].(*MapV)
			if m == nil {
				return nil
			}
			k := canonHeader(x, a[1])
			if e := x.mapFind(m, k); e != nil {
				for i, f := range m.Entries {
					if f == e {
						m.Entries = append(append([]*MapEntry{}, m.Entries[:i]...), m.Entries[i+1:]...)
					}
				}
			}
			return nil
		}
	case "fmt.Fprintf":
		return func(x *Exec, _ *ssa.Function, a []Value) Value {
			s := x.sprintf(x.strOf(a[1]), x.sliceElems(a[2].(*SliceV)))
			return x.invoke(a[0], "Write", x.byteSlice(x.toStrV(s).B))
		}
	case "fmt.Fprint":
		return func(x *Exec, _ *ssa.Function, a []Value) Value {
			out := &StrV{}
			for _, e := range x.sliceElems(a[1].(*SliceV)) {
				x.fmtValue(out, 'v', e)
			}
			return x.invoke(a[0], "Write", x.byteSlice(out.B))
		}
	case "net/http.NewResponseController":
		return func(x *Exec, f *ssa.Function, a []Value) Value { return (*Pointer)(nil) }
	case "(*net/http.ResponseController).Flush":
		return func(x *Exec, f *ssa.Function, a []Value) Value { return nilErr }
	case "net/http.Error":
		return func(x *Exec, _ *ssa.Function, a []Value) Value {
			h := x.invoke(a[0], "Header")
			if m, _ := h.(*MapV); m != nil {
				for _, k := range []string{"Content-Length"} {
					for i, f := range m.Entries {
						if kt, ok := f.K.(*Term); ok && kt.IsConc() && kt.C.(string) == k {
							m.Entries = append(append([]*MapEntry{}, m.Entries[:i]...), m.Entries[i+1:]...)
							break
						}
					}
				}
				set := func(k, v string) {
					for _, f := range m.Entries {
						if kt, ok := f.K.(*Term); ok && kt.IsConc() && kt.C.(string) == k {
							f.V = x.strSlice([]Value{mkStr(v)})
							return
						}
					}
					m.Entries = append(m.Entries, &MapEntry{K: mkStr(k), V: x.strSlice([]Value{mkStr(v)})})
				}
				set("Content-Type", "text/plain; charset=utf-8")
				set("X-Content-Type-Options", "nosniff")
			}
			x.invoke(a[0], "WriteHeader", a[2])
			body := x.binop(token.ADD, a[1], mkStr("\n"), nil, nil)
			x.invoke(a[0], "Write", x.byteSlice(x.toStrV(body).B))
			return nil
		}
	}
	_ = fmt.Sprint
	return nil
}

// findMethod returns the method named m of type t (nil if t has none); unlike prog.LookupMethod it does not panic.
func (x *Exec) findMethod(t types.Type, pkg *types.Package, m string) *ssa.Function {
	ms := x.prog.MethodSets.MethodSet(t)
	for i := 0; i < ms.Len(); i++ {
		sel := ms.At(i)
		if sel.Obj().Name() == m && (sel.Obj().Exported() || pkg == nil || sel.Obj().Pkg() == pkg) {
			return x.prog.MethodValue(sel)
		}
	}
	return nil
}

// ---- reflect.Type: an opaque, comparable name of a go/types type (map key, ==) with Kind, Elem and String.

func (x *Exec) rtypeOf(t types.Type) *IfaceV {
	name := "reflect.Type:" + t.String()
	if x.eng.rtypes == nil {
		x.eng.rtypes = map[string]types.Type{}
	}
	x.eng.rtmu.Lock()
	x.eng.rtypes[name] = t
	x.eng.rtmu.Unlock()
	return &IfaceV{T: types.Typ[types.String], V: mkStr(name)}
}

func (x *Exec) rtypeFrom(v Value) types.Type {
	iv, _ := v.(*IfaceV)
	if iv == nil {
		return nil
	}
	t, ok := iv.V.(*Term)
	if !ok || !t.IsConc() {
		return nil
	}
	name, _ := t.C.(string)
	x.eng.rtmu.Lock()
	defer x.eng.rtmu.Unlock()
	return x.eng.rtypes[name]
}

// reflectTypeMethod: methods of the reflect.Type interface on the model's type names.
func (x *Exec) reflectTypeMethod(iv *IfaceV, m string) func([]Value) Value {
	t := x.rtypeFrom(iv)
	if t == nil {
		return nil
	}
	switch m {
	case "Kind":
		return func([]Value) Value {
			k := reflect.Invalid
			switch u := t.Underlying().(type) {
			case *types.Pointer:
				k = reflect.Pointer
			case *types.Struct:
				k = reflect.Struct
			case *types.Map:
				k = reflect.Map
			case *types.Slice:
				k = reflect.Slice
			case *types.Interface:
				k = reflect.Interface
			case *types.Basic:
				switch {
				case u.Info()&types.IsString != 0:
					k = reflect.String
				case u.Info()&types.IsBoolean != 0:
					k = reflect.Bool
				case u.Info()&types.IsInteger != 0:
					k = reflect.Int
				case u.Info()&types.IsFloat != 0:
					k = reflect.Float64
				}
			}
			return mkInt(int64(k))
		}
	case "Elem":
		return func([]Value) Value {
			switch u := t.Underlying().(type) {
			case *types.Pointer:
				return x.rtypeOf(u.Elem())
			case *types.Slice:
				return x.rtypeOf(u.Elem())
			case *types.Map:
				return x.rtypeOf(u.Elem())
			}
			x.abort("PANIC", "reflect: Elem of invalid type "+t.String())
			return nil
		}
	case "String", "Name":
		return func([]Value) Value { return mkStr(t.String()) }
	}
	return nil
}
