package main

import (
	"runtime"
)

// G is an interpreted goroutine, hosted on its own Go goroutine; exactly one runs at a time.
type G struct {
	id      int
	done    bool
	blocked func() bool // nil = runnable; otherwise blocked while it returns true
	wake    chan struct{}
	frames  []*Frame
	depth   int
}

func (x *Exec) initSched() {
	x.gs = []*G{{id: 0, wake: make(chan struct{})}}
	x.cur = x.gs[0]
	x.locks = map[string]*lockState{}
	x.epoch++
	x.pending = nil
	x.preempt = 0
}

func (x *Exec) enabled() []*G {
	var r []*G
	for _, g := range x.gs {
		if !g.done && (g.blocked == nil || !g.blocked()) {
			r = append(r, g)
		}
	}
	return r
}

// yield is a scheduling point. The current goroutine may be descheduled.
func (x *Exec) yield() {
	if len(x.gs) == 1 {
		return
	}
	me := x.cur
	en := x.enabled()
	if len(en) == 0 {
		x.abort("DEADLOCK", "no enabled goroutine")
	}
	meEnabled := false
	for _, g := range en {
		if g == me {
			meEnabled = true
		}
	}
	var next *G
	if meEnabled && x.preempt >= x.maxPreempt {
		next = me
	} else {
		k := x.choose('c', len(en), nil)
		next = en[k]
		if meEnabled && next != me {
			x.preempt++
		}
	}
	if next == me {
		return
	}
	x.switchTo(next)
}

func (x *Exec) switchTo(next *G) {
	me := x.cur
	x.cur = next
	ep := x.epoch // before handing over: the goroutine woken next may end the path (and bump the epoch) at once
	next.wake <- struct{}{}
	<-me.wake
	if x.epoch != ep {
		runtime.Goexit()
	}
	if x.pending != nil && me.id == 0 {
		p := *x.pending
		x.pending = nil
		panic(p)
	}
}

func (x *Exec) spawn(body func()) {
	g := &G{id: len(x.gs), wake: make(chan struct{})}
	x.gs = append(x.gs, g)
	ep := x.epoch
	go func() {
		<-g.wake
		if x.epoch != ep {
			return
		}
		defer func() {
			if r := recover(); r != nil {
				if a, ok := r.(abortSig); ok {
					x.pending = &a
					g.done = true
					// hand control back to main, which re-raises
					x.cur = x.gs[0]
					x.gs[0].wake <- struct{}{}
					return
				}
				panic(r)
			}
		}()
		body()
		g.done = true
		// goroutine finished: pick someone else
		en := x.enabled()
		if len(en) == 0 {
			a := abortSig{"DEADLOCK", "goroutine exit with nobody runnable"}
			x.pending = &a
			x.cur = x.gs[0]
			x.gs[0].wake <- struct{}{}
			return
		}
		k := x.choose('c', len(en), nil)
		next := en[k]
		x.cur = next
			next.wake <- struct{}{}
	}()
}

// killAll terminates host goroutines left over at the end of a run.
func (x *Exec) killAll() {
	x.epoch++
	for _, g := range x.gs[1:] {
		if !g.done {
			g := g
			go func() { g.wake <- struct{}{} }() // the parked host goroutine sees the new epoch and exits
		}
	}
}

type lockState struct {
	w *G
	r int
}

func (x *Exec) lockMutex(key string, read bool) {
	x.yield() // acquisition is a scheduling point
	st := x.locks[key]
	if st == nil {
		st = &lockState{}
		x.locks[key] = st
	}
	busy := func() bool { return st.w != nil || (!read && st.r > 0) }
	for busy() {
		me := x.cur
		me.blocked = busy
		x.yield()
		me.blocked = nil
	}
	if read {
		st.r++
	} else {
		st.w = x.cur
	}
}

func (x *Exec) unlockMutex(key string, read bool) {
	st := x.locks[key]
	if st == nil || (read && st.r == 0) || (!read && st.w == nil) {
		x.abort("PANIC", "sync: unlock of unlocked mutex")
	}
	if read {
		st.r--
	} else {
		st.w = nil
	}
}
