package main

import (
	"fmt"
	"sort"
	"strings"

	"golang.org/x/tools/go/ssa"
)

// liveAt: SSA values that may still be read by fr from its current position on.
func liveAt(fr *Frame) map[ssa.Value]bool {
	live := map[ssa.Value]bool{}
	seen := map[*ssa.BasicBlock]bool{}
	var use = func(in ssa.Instruction) {
		var ops []*ssa.Value
		for _, o := range in.Operands(ops) {
			if o != nil && *o != nil {
				live[*o] = true
			}
		}
	}
	b := fr.block
	if b == nil {
		return live
	}
	for i := fr.pc; i < len(b.Instrs); i++ {
		use(b.Instrs[i])
	}
	var walk func(bb *ssa.BasicBlock)
	walk = func(bb *ssa.BasicBlock) {
		if seen[bb] {
			return
		}
		seen[bb] = true
		for _, in := range bb.Instrs {
			use(in)
		}
		for _, s := range bb.Succs {
			walk(s)
		}
	}
	for _, s := range b.Succs {
		walk(s)
	}
	// the recover block is reachable implicitly
	if fr.fn.Recover != nil {
		walk(fr.fn.Recover)
	}
	return live
}

type sigCtx struct {
	x       *Exec
	b       strings.Builder
	ids     map[any]int
	symb    bool
	visited map[any]bool
}

func (c *sigCtx) id(k any) int {
	if n, ok := c.ids[k]; ok {
		return n
	}
	n := len(c.ids) + 1
	c.ids[k] = n
	return n
}

func (c *sigCtx) val(v Value) {
	switch v := v.(type) {
	case nil:
		c.b.WriteString("nil;")
	case *Term:
		if v.IsConc() {
			fmt.Fprintf(&c.b, "%v;", v.C)
		} else {
			c.symb = true
			c.b.WriteString("SYM;")
		}
	case *StrV:
		c.b.WriteString("str[")
		for _, t := range v.B {
			c.val(t)
		}
		c.b.WriteString("]")
	case *Pointer:
		if v == nil {
			c.b.WriteString("nilp;")
			return
		}
		fmt.Fprintf(&c.b, "p%d%v;", c.id(v.Obj), v.Path)
		c.obj(v.Obj)
	case *Agg:
		c.b.WriteString("{")
		for _, e := range v.Elems {
			c.val(e)
		}
		c.b.WriteString("}")
	case *SliceV:
		if v == nil {
			c.b.WriteString("nils;")
			return
		}
		if v.LenT != nil {
			fmt.Fprintf(&c.b, "opaque(%s);", v.Tag)
			return
		}
		fmt.Fprintf(&c.b, "sl%d:%d:%d;", c.id(v.Arr), v.Off, v.Len)
		c.obj(v.Arr)
	case *MapV:
		if v == nil {
			c.b.WriteString("nilm;")
			return
		}
		fmt.Fprintf(&c.b, "m%d", c.id(v))
		if c.x.shared[sharedKeyMap(v)] || c.visited[v] {
			c.b.WriteString(";")
			return
		}
		c.visited[v] = true
		c.b.WriteString("[")
		for _, e := range v.Entries {
			if e.Present != nil {
				c.symb = true
			}
			c.val(e.K)
			c.val(e.V)
		}
		c.b.WriteString("]")
	case *IfaceV:
		if v == nil {
			c.b.WriteString("nili;")
			return
		}
		if v.T != nil {
			c.b.WriteString(v.T.String())
		}
		c.b.WriteString("<")
		c.val(v.V)
		c.b.WriteString(">")
	case *Closure:
		if v == nil {
			c.b.WriteString("nilf;")
			return
		}
		c.b.WriteString("fn:" + v.Fn.String() + "(")
		for _, bv := range v.Bind {
			c.val(bv)
		}
		c.b.WriteString(")")
	case *Tuple:
		c.b.WriteString("(")
		for _, e := range v.Elems {
			c.val(e)
		}
		c.b.WriteString(")")
	case *ErrObj:
		fmt.Fprintf(&c.b, "err%d:%s(", c.id(v), v.Msg)
		if !c.visited[v] {
			c.visited[v] = true
			for _, w := range v.Wraps {
				c.val(w)
			}
		}
		c.b.WriteString(")")
	case *ChanV:
		if v == nil {
			c.b.WriteString("nilc;")
			return
		}
		fmt.Fprintf(&c.b, "ch%d", c.id(v))
		if !c.x.shared[sharedKeyChan(v)] {
			if v.ClosedT != nil {
				c.symb = true
			}
			fmt.Fprintf(&c.b, ":%v:%d", v.Closed, len(v.Buf))
		}
		c.b.WriteString(";")
	case *RankStr:
		c.val(v.Rank)
	case *NativeFn:
		if v == nil {
			c.b.WriteString("nilnf;")
			return
		}
		c.b.WriteString("native:" + v.Name + ";")
	case *CtxV:
		fmt.Fprintf(&c.b, "ctx%d", c.id(v))
		if !c.visited[v] {
			c.visited[v] = true
			c.val(v.Done)
			c.val(v.Err)
			if v.Parent != nil {
				c.val(v.Parent)
			}
		}
		c.b.WriteString(";")
	case *MapIter, *StrIter:
		c.symb = true // do not merge inside iterations
	case *ssa.Builtin:
		c.b.WriteString("builtin;")
	default:
		c.symb = true
		fmt.Fprintf(&c.b, "?%T;", v)
	}
}

func (c *sigCtx) obj(o *Object) {
	if c.visited[o] {
		return
	}
	c.visited[o] = true
	fmt.Fprintf(&c.b, "o%d=", c.id(o))
	c.objVal(o, o.Val, nil)
}

func (c *sigCtx) objVal(o *Object, v Value, path []int) {
	if c.x.shared[sharedKeyPtr(&Pointer{Obj: o, Path: path})] {
		c.b.WriteString("SHARED;")
		return
	}
	if a, ok := v.(*Agg); ok && a != nil {
		c.b.WriteString("{")
		for i, e := range a.Elems {
			c.objVal(o, e, append(append([]int{}, path...), i))
		}
		c.b.WriteString("}")
		return
	}
	c.val(v)
}

func sharedKeyPtr(p *Pointer) string { return fmt.Sprintf("P%p%v", p.Obj, p.Path) }
func sharedKeyChan(c *ChanV) string  { return fmt.Sprintf("C%p", c) }
func sharedKeyMap(m *MapV) string    { return fmt.Sprintf("M%p", m) }

// signature of the thread-local state; ok=false when a live scalar is symbolic.
func (x *Exec) signature() (string, bool) {
	c := &sigCtx{x: x, ids: map[any]int{}, visited: map[any]bool{}}
	for _, fr := range x.cur.frames {
		blk := -1
		if fr.block != nil {
			blk = fr.block.Index
		}
		fmt.Fprintf(&c.b, "\n%s@%d.%d:", fr.fn.String(), blk, fr.pc)
		live := liveAt(fr)
		var names []string
		byName := map[string]ssa.Value{}
		for v := range fr.env {
			if live[v] {
				n := v.Name()
				names = append(names, n)
				byName[n] = v
			}
		}
		sort.Strings(names)
		for _, n := range names {
			c.b.WriteString(n + "=")
			c.val(fr.env[byName[n]])
		}
		fmt.Fprintf(&c.b, " defers=%d", len(fr.defers))
	}
	return c.b.String(), !c.symb
}
