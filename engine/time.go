package main

import (
	"go/token"
	"go/types"

	"golang.org/x/tools/go/ssa"
)

// Time model: time.Time{wall, ext, loc} with wall = 0, loc = nil and ext = nanoseconds as a mathematical
// integer of any size (a real Time spans ±292e9 years; a harness may place instants beyond 2^63 ns with vTimeSec).
// Add is exact; Sub/Since/Until return a Duration and saturate at the int64 range exactly like the library
// (a difference beyond ±292 years is maxDuration/minDuration). time.Now is arbitrary, >= 1, <= 2^62 and
// non-decreasing.

// satDur saturates a mathematical difference to the range of time.Duration.
func satDur(d *Term) *Term {
	if lo, hi, ok := boundsOf(d); ok && lo > -safeBound && hi < safeBound {
		return d
	}
	if d.IsConc() {
		return d
	}
	max, min := mkInt(1<<63-1), mkInt(-1<<63)
	r := tIte(tLt(max, d), max, tIte(tLt(d, min), min, d))
	return r
}

func (x *Exec) mkTime(ns *Term) *Agg {
	return &Agg{Elems: []Value{mkInt(0), ns, (*Pointer)(nil)}}
}

func timeNs(v Value) *Term { return v.(*Agg).Elems[1].(*Term) }

func (x *Exec) timeNow(t types.Type) Value {
	n := x.fresh("now", SInt)
	if !n.IsConc() {
		lo := mkInt(1)
		if x.lastNow != nil {
			lo = x.lastNow
		}
		x.sol.Assert(tLe(lo, n))
		x.sol.Assert(tLe(n, mkInt(1<<62)))
	}
	x.lastNow = n
	return x.mkTime(n)
}

func timeIntrinsic(name string, fn *ssa.Function) intrinsicFn {
	switch name {
	case "(time.Time).Add":
		return func(x *Exec, _ *ssa.Function, a []Value) Value { return x.mkTime(tAdd(timeNs(a[0]), a[1].(*Term))) }
	case "(time.Time).Sub":
		return func(x *Exec, _ *ssa.Function, a []Value) Value { return satDur(tSub(timeNs(a[0]), timeNs(a[1]))) }
	case "(time.Time).Before":
		return func(x *Exec, _ *ssa.Function, a []Value) Value { return tLt(timeNs(a[0]), timeNs(a[1])) }
	case "(time.Time).After":
		return func(x *Exec, _ *ssa.Function, a []Value) Value { return tLt(timeNs(a[1]), timeNs(a[0])) }
	case "(time.Time).Equal":
		return func(x *Exec, _ *ssa.Function, a []Value) Value { return tEq(timeNs(a[0]), timeNs(a[1])) }
	case "(time.Time).IsZero":
		return func(x *Exec, _ *ssa.Function, a []Value) Value { return tEq(timeNs(a[0]), mkInt(0)) }
	case "(time.Time).Compare":
		return func(x *Exec, _ *ssa.Function, a []Value) Value {
			p, q := timeNs(a[0]), timeNs(a[1])
			return tIte(tLt(p, q), mkInt(-1), tIte(tLt(q, p), mkInt(1), mkInt(0)))
		}
	case "time.Since":
		return func(x *Exec, f *ssa.Function, a []Value) Value {
			return satDur(tSub(timeNs(x.timeNow(nil)), timeNs(a[0])))
		}
	case "time.Until":
		return func(x *Exec, f *ssa.Function, a []Value) Value {
			return satDur(tSub(timeNs(a[0]), timeNs(x.timeNow(nil))))
		}
	}
	_ = token.ADD
	if h := urlIntrinsic(name, fn); h != nil {
		return h
	}
	return stringsIntrinsic(name, fn)
}
