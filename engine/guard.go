package main

import "strings"

// Lockset obligations: vGuard(&mu, objs...) declares that the given objects (whole heap objects, fields,
// maps, slice backing arrays) may only be accessed by code under test while mu is held.
type guardEntry struct {
	obj  any // *Object or *MapV
	path []int
	mu   string
}

func (x *Exec) inHarnessCode() bool {
	fs := x.cur.frames
	if len(fs) == 0 {
		return true
	}
	n := fs[len(fs)-1].fn.Name()
	return strings.HasPrefix(n, "zz")
}

func (x *Exec) muHeld(mu string) bool {
	if x.sched {
		st := x.locks[mu]
		return st != nil && (st.w == x.cur || st.r > 0)
	}
	return x.seqLocks[mu] != 0
}

func (x *Exec) checkGuardPtr(p *Pointer) {
	for _, g := range x.guards {
		if g.obj != any(p.Obj) || len(p.Path) < len(g.path) {
			continue
		}
		match := true
		for i := range g.path {
			if g.path[i] != p.Path[i] {
				match = false
			}
		}
		if match && !x.muHeld(g.mu) && !x.inHook && !x.inHarnessCode() {
			x.abort("VIOLATION", "lockset")
		}
	}
}

func (x *Exec) checkGuardObj(o any) {
	for _, g := range x.guards {
		if g.obj == o && !x.muHeld(g.mu) && !x.inHook && !x.inHarnessCode() {
			x.abort("VIOLATION", "lockset")
		}
	}
}

func (x *Exec) addGuards(mu *Pointer, objs []Value) {
	k := ptrKey(mu)
	for _, o := range objs {
		switch v := unwrapAny(o).(type) {
		case *Pointer:
			if v != nil {
				x.guards = append(x.guards, guardEntry{obj: v.Obj, path: v.Path, mu: k})
			}
		case *MapV:
			if v != nil {
				x.guards = append(x.guards, guardEntry{obj: v, mu: k})
			}
		case *SliceV:
			if v != nil && v.Arr != nil {
				x.guards = append(x.guards, guardEntry{obj: v.Arr, mu: k})
			}
		}
	}
}
