package main

import (
	"fmt"
	"strings"
	"go/token"
	"sort"
)

// StrV: a string (or []byte content) of concrete length with possibly symbolic bytes (Int 0..255).
// Elements with a concrete value >= 1000 are opaque tokens produced by uninterpreted encoders
// (base64, decimal formatting, JSON): they only support equality, concatenation and slicing around them.
type StrV struct {
	B []*Term
}

func (x *Exec) toStrV(v Value) *StrV {
	switch v := v.(type) {
	case *StrV:
		return v
	case *Term:
		if v.IsConc() {
			s := v.C.(string)
			r := &StrV{B: make([]*Term, len(s))}
			for i := 0; i < len(s); i++ {
				r.B[i] = mkInt(int64(s[i]))
			}
			return r
		}
	case *RankStr:
		x.abort("UNSUPPORTED", "content operation on rank-encoded string (use vStringN in the harness)")
	}
	x.abort("UNSUPPORTED", fmt.Sprintf("toStrV %T", v))
	return nil
}

func (x *Exec) strEq(a, b Value) *Term {
	if ta, ok := a.(*Term); ok && ta.IsConc() {
		if tb, ok := b.(*Term); ok && tb.IsConc() {
			return mkBool(ta.C == tb.C)
		}
	}
	ra, isRA := a.(*RankStr)
	rb, isRB := b.(*RankStr)
	if isRA || isRB {
		return x.rankCmp(token.EQL, a, b, ra, rb)
	}
	sa, sb := x.toStrV(a), x.toStrV(b)
	if len(sa.B) != len(sb.B) {
		return mkBool(false)
	}
	r := mkBool(true)
	for i := range sa.B {
		p, q := sa.B[i], sb.B[i]
		if p.IsConc() && q.IsConc() && p.C.(int64) >= 1000 && q.C.(int64) >= 1000 && p.C != q.C {
			// two different tokens of an injective encoder are equal iff their arguments are
			tp, tq := x.tokens[p.C.(int64)-1000].(*tokenInfo), x.tokens[q.C.(int64)-1000].(*tokenInfo)
			if tp.kind == tq.kind && (tp.kind == "dec" || tp.kind == "b64" || strings.HasPrefix(tp.kind, "enc:")) {
				r = tAnd(r, x.eqVal(tp.arg, tq.arg))
				continue
			}
		}
		r = tAnd(r, tEq(p, q))
	}
	return r
}

func rankOf(r *RankStr, s string) (int, bool) {
	i := sort.SearchStrings(r.Consts, s)
	if i < len(r.Consts) && r.Consts[i] == s {
		return 2*i + 1, true
	}
	return 2 * i, false
}

// rankCmp compares a rank-encoded string with a constant or a sibling of the same family.
func (x *Exec) rankCmp(op token.Token, a, b Value, ra, rb *RankStr) *Term {
	var l, r *Term
	var sameGap *Term
	switch {
	case ra != nil && rb != nil:
		if len(ra.Consts) != len(rb.Consts) {
			x.abort("UNSUPPORTED", "comparison of rank strings of different families")
		}
		l, r = ra.Rank, rb.Rank
		if ra == rb {
			sameGap = tFalse
		} else {
			sameGap = tAnd(tEq(l, r), tEq(app(SInt, "mod", l, mkInt(2)), mkInt(0)))
		}
	case ra != nil:
		tb, ok := b.(*Term)
		if !ok || !tb.IsConc() {
			x.abort("UNSUPPORTED", "rank string compared with symbolic string")
		}
		k, exact := rankOf(ra, tb.C.(string))
		l, r = ra.Rank, mkInt(int64(k))
		sameGap = tFalse
		if !exact {
			sameGap = tEq(l, r)
		}
	default:
		ta, ok := a.(*Term)
		if !ok || !ta.IsConc() {
			x.abort("UNSUPPORTED", "rank string compared with symbolic string")
		}
		k, exact := rankOf(rb, ta.C.(string))
		l, r = mkInt(int64(k)), rb.Rank
		sameGap = tFalse
		if !exact {
			sameGap = tEq(l, r)
		}
	}
	// Two different strings inside one gap are not ordered by their rank: arbitrary answer, but the same answer
	// every time the same pair is compared on this path.
	if !sameGap.IsConc() && x.sat(sameGap) {
		if x.branch(sameGap) {
			key := fmt.Sprintf("%p|%p|%v|%v|%d", ra, rb, a, b, op)
			if ra != nil && rb == nil {
				key = fmt.Sprintf("%p|%s|%d", ra, b.(*Term).E, op)
			} else if rb != nil && ra == nil {
				key = fmt.Sprintf("%s|%p|%d", a.(*Term).E, rb, op)
			}
			if t, ok := x.gapMemo[key]; ok {
				return t
			}
			if x.gapMemo == nil {
				x.gapMemo = map[string]*Term{}
			}
			t := x.fresh("gapcmp", SBool)
			x.gapMemo[key] = t
			return t
		}
	}
	switch op {
	case token.EQL:
		return tEq(l, r)
	case token.NEQ:
		return tNot(tEq(l, r))
	case token.LSS:
		return tLt(l, r)
	case token.LEQ:
		return tLe(l, r)
	case token.GTR:
		return tLt(r, l)
	case token.GEQ:
		return tLe(r, l)
	}
	x.abort("UNSUPPORTED", "rank string op "+op.String())
	return nil
}

func (x *Exec) strLess(a, b []*Term, orEqual bool) *Term {
	if len(a) == 0 {
		if len(b) > 0 {
			return tTrue
		}
		return mkBool(orEqual)
	}
	if len(b) == 0 {
		return tFalse
	}
	return tOr(tLt(a[0], b[0]), tAnd(tEq(a[0], b[0]), x.strLess(a[1:], b[1:], orEqual)))
}

func (x *Exec) strBinop(op token.Token, a, b Value) (Value, bool) {
	ra, isRA := a.(*RankStr)
	rb, isRB := b.(*RankStr)
	if isRA || isRB {
		switch op {
		case token.EQL, token.NEQ, token.LSS, token.LEQ, token.GTR, token.GEQ:
			if op == token.NEQ {
				return tNot(x.rankCmp(token.EQL, a, b, ra, rb)), true
			}
			return x.rankCmp(op, a, b, ra, rb), true
		}
		x.abort("UNSUPPORTED", "operation "+op.String()+" on rank-encoded string")
	}
	_, isA := a.(*StrV)
	_, isB := b.(*StrV)
	if !isA && !isB {
		return nil, false
	}
	sa, sb := x.toStrV(a), x.toStrV(b)
	switch op {
	case token.ADD:
		return normStr(&StrV{B: append(append([]*Term{}, sa.B...), sb.B...)}), true
	case token.EQL:
		return x.strEq(sa, sb), true
	case token.NEQ:
		return tNot(x.strEq(sa, sb)), true
	case token.LSS:
		return x.strLess(sa.B, sb.B, false), true
	case token.LEQ:
		return x.strLess(sa.B, sb.B, true), true
	case token.GTR:
		return x.strLess(sb.B, sa.B, false), true
	case token.GEQ:
		return x.strLess(sb.B, sa.B, true), true
	}
	x.abort("UNSUPPORTED", "string binop "+op.String()+" on StrV")
	return nil, false
}

// normStr returns a concrete string Term when every byte is concrete (and no token is present).
func normStr(s *StrV) Value {
	bs := make([]byte, len(s.B))
	for i, t := range s.B {
		if !t.IsConc() || t.C.(int64) > 255 {
			return s
		}
		bs[i] = byte(t.C.(int64))
	}
	return mkStr(string(bs))
}

type StrIter struct {
	S   *StrV
	Pos int
}

// strOf extracts a concrete Go string (harness tags, labels).
func (x *Exec) strOf(v Value) string {
	if t, ok := v.(*Term); ok && t.IsConc() {
		if s, ok := t.C.(string); ok {
			return s
		}
	}
	x.abort("UNSUPPORTED", fmt.Sprintf("expected concrete string, got %T", v))
	return ""
}
