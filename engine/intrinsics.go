package main

import (
	"math"
	"os"
	"math/big"
	"reflect"
	"fmt"
	"go/token"
	"go/types"
	"sort"
	"strings"

	"golang.org/x/tools/go/ssa"
)

func ptrKey(p *Pointer) string { return fmt.Sprintf("%d%v", p.Obj.ID, p.Path) }

// deepCopyJSON: decoding a JSON document yields fresh maps and slices each time (pointers are shared: the
// harness uses them as identities of typed values).
func (x *Exec) deepCopyJSON(v Value) Value {
	switch v := v.(type) {
	case *MapV:
		if v == nil {
			return v
		}
		x.nobj++
		n := &MapV{ID: x.nobj}
		for _, e := range v.Entries {
			n.Entries = append(n.Entries, &MapEntry{K: e.K, V: x.deepCopyJSON(e.V), Present: e.Present})
		}
		return n
	case *SliceV:
		if v == nil || v.LenT != nil {
			return v
		}
		var es []Value
		for _, e := range x.sliceElems(v) {
			es = append(es, x.deepCopyJSON(e))
		}
		return x.newSlice(es, "json-copy")
	case *IfaceV:
		if v == nil {
			return v
		}
		// a number held in an interface travels as JSON text and comes back, decoded into `any`, as the nearest
		// float64 — whatever integer type it had when it was encoded
		if b, ok := v.T.Underlying().(*types.Basic); ok && b.Info()&types.IsInteger != 0 && !x.jsonExact {
			if t, isT := v.V.(*Term); isT && t.S == SInt {
				return &IfaceV{T: types.Typ[types.Float64], V: x.intToFloat(t, v.T)}
			}
		}
		return &IfaceV{T: v.T, V: x.deepCopyJSON(v.V)}
	case *Agg:
		c, _ := copyVal(v).(*Agg)
		if c == nil {
			return v
		}
		for i, e := range c.Elems {
			switch e.(type) {
			case *IfaceV, *Agg:
				c.Elems[i] = x.deepCopyJSON(e)
			}
		}
		return c
	}
	return v
}

// jsonField: how encoding/json names a struct field and whether it may be omitted.
func jsonField(f *types.Var, tag string) (name string, omitEmpty, omitZero, skip bool) {
	name = f.Name()
	if !f.Exported() {
		return "", false, false, true
	}
	jt := reflect.StructTag(tag).Get("json")
	if jt == "-" {
		return "", false, false, true
	}
	parts := strings.Split(jt, ",")
	if parts[0] != "" {
		name = parts[0]
	}
	for _, o := range parts[1:] {
		if o == "omitempty" {
			omitEmpty = true
		}
		if o == "omitzero" {
			omitZero = true
		}
	}
	return
}

// jsonEmpty: would encoding/json omit this value under omitempty? (nil, false, 0, "", empty slice/map).
// ok=false when emptiness is not decided by the value's shape (symbolic scalars: omitting a zero scalar and writing
// it decode to the same thing, so the caller treats them as present).
func (x *Exec) jsonEmpty(v Value) bool {
	switch v := v.(type) {
	case *Pointer:
		return v == nil
	case *IfaceV:
		return v == nil
	case *MapV:
		return v == nil || len(v.Entries) == 0
	case *SliceV:
		return v == nil || (v.LenT == nil && v.Len == 0)
	case *StrV:
		return len(v.B) == 0
	case *Term:
		if v.IsConc() {
			switch c := v.C.(type) {
			case string:
				return c == ""
			case bool:
				return !c
			case int64:
				return c == 0
			}
		}
	}
	return false
}

// jsonConvert models "marshal a value of type st, unmarshal the text into a value of type dt" for two different
// struct types: members are matched by their JSON names (case-sensitively), omitempty members that are empty are
// not transmitted, members unknown to the target are ignored. Everything else must have identical types.
func isByteSlice(t types.Type) bool {
	sl, ok := t.Underlying().(*types.Slice)
	if !ok {
		return false
	}
	b, ok := sl.Elem().Underlying().(*types.Basic)
	return ok && b.Kind() == types.Uint8
}

func isRawMessage(t types.Type) bool {
	n, ok := t.(*types.Named)
	return ok && n.Obj().Pkg() != nil && n.Obj().Pkg().Path() == "encoding/json" && n.Obj().Name() == "RawMessage"
}

func (x *Exec) jsonConvert(v Value, st, dt types.Type, fold bool) (Value, bool) {
	r, ok := x.jsonConvert0(v, st, dt, fold)
	if !ok && os.Getenv("VERIF_JSONDEBUG") != "" {
		fmt.Fprintf(os.Stderr, "jsonConvert failed: %s -> %s (%T)\n", st, dt, v)
	}
	return r, ok
}

func (x *Exec) jsonConvert0(v Value, st, dt types.Type, fold bool) (Value, bool) {
	if types.Identical(st, dt) {
		return x.deepCopyJSON(v), true
	}
	// a member decoded into json.RawMessage keeps its text: an integer its decimal text (an uninterpreted decimal
	// token: ParseInt gives the integer back exactly), anything else an opaque JSON document
	if isRawMessage(dt) {
		val := v
		if iv, ok := v.(*IfaceV); ok {
			if iv == nil {
				return x.byteSlice(x.toStrV(mkStr("null")).B), true
			}
			val = iv.V
		}
		if t, ok := val.(*Term); ok && t.S == SInt {
			return x.byteSlice(x.newToken("dec", t).B), true
		}
		if iv, ok := v.(*IfaceV); ok {
			return x.byteSlice(x.newToken("json", iv).B), true
		}
		return x.byteSlice(x.newToken("json", &IfaceV{T: st, V: v}).B), true
	}
	// a member whose text was kept (RawMessage) decoded into a Go value: an integer text into `any` is the nearest
	// float64, into an integer type the integer; a JSON string into `any`/string the string
	if isRawMessage(st) {
		sl, _ := v.(*SliceV)
		if sl == nil || sl.Len == 0 {
			return x.zero(dt), true
		}
		ti := x.tokenOf(&StrV{B: x.bytesOf(sl)})
		if ti == nil {
			return nil, false
		}
		switch ti.kind {
		case "dec":
			t, _ := ti.arg.(*Term)
			if t == nil {
				return nil, false
			}
			if isEmptyIface(dt) {
				return &IfaceV{T: types.Typ[types.Float64], V: x.intToFloat(t, types.Typ[types.Int64])}, true
			}
			if b, ok := dt.Underlying().(*types.Basic); ok && b.Info()&types.IsInteger != 0 {
				return t, true
			}
		case "json":
			arg := ti.arg
			if iv, ok := arg.(*IfaceV); ok && iv != nil {
				if !isEmptyIface(dt) {
					// the document encodes a value of type iv.T: decode it into the target
					if _, isStr := dt.Underlying().(*types.Basic); !isStr || !types.Identical(iv.T.Underlying(), dt.Underlying()) {
						return x.jsonConvert(iv.V, iv.T, dt, fold)
					}
				}
				arg = iv.V
			}
			if isEmptyIface(dt) {
				switch a := arg.(type) {
				case *StrV:
					return &IfaceV{T: types.Typ[types.String], V: a}, true
				case *Term:
					if a.S == SStr {
						return &IfaceV{T: types.Typ[types.String], V: a}, true
					}
				}
			}
		}
		return nil, false
	}
	if isEmptyIface(dt) {
		return &IfaceV{T: st, V: x.deepCopyJSON(v)}, true
	}
	// custom encoders: a type with MarshalJSON is encoded by it (the method hands some wire value to the JSON encoder)
	if m := x.findMethod(st, nil, "MarshalJSON"); m != nil && !x.inJSONMethod[m] {
		if p, isPtr := v.(*Pointer); isPtr && p == nil {
			return x.zero(dt), true
		}
		x.inJSONMethod[m] = true
		res := x.call(m, []Value{v}, nil)
		delete(x.inJSONMethod, m)
		tp, _ := res.(*Tuple)
		if tp == nil || len(tp.Elems) != 2 {
			return nil, false
		}
		if e, _ := tp.Elems[1].(*IfaceV); e != nil {
			return nil, false
		}
		sl, _ := tp.Elems[0].(*SliceV)
		if sl == nil {
			return nil, false
		}
		return x.jsonConvert(sl, rawMessageType(x), dt, fold)
	}
	if sp, ok := st.Underlying().(*types.Pointer); ok {
		if _, isStruct := sp.Elem().Underlying().(*types.Struct); isStruct {
			p, _ := v.(*Pointer)
			if p == nil {
				return x.zero(dt), true
			}
			return x.jsonConvert(x.load(p), sp.Elem(), dt, fold)
		}
	}
	// a JSON object held as a Go map decoded into a struct: members are matched to fields by JSON name — exactly,
	// or (fold: encoding/json's default) ignoring letter case when there is no exact match; later members overwrite
	if mt, isMap := st.Underlying().(*types.Map); isMap && isStructType(dt) {
		ds, isStruct := dt.Underlying().(*types.Struct)
		mv, _ := v.(*MapV)
		if !isStruct {
			return nil, false
		}
		out, _ := x.zero(dt).(*Agg)
		if mv == nil || out == nil {
			return out, out != nil
		}
		for _, e := range mv.Entries {
			kt, ok := e.K.(*Term)
			if !ok || !kt.IsConc() || e.Present != nil {
				return nil, false
			}
			key := kt.C.(string)
			target := -1
			for i := 0; i < ds.NumFields(); i++ {
				if n, _, _, skip := jsonField(ds.Field(i), ds.Tag(i)); !skip && n == key {
					target = i
				}
			}
			if target < 0 && fold {
				for i := 0; i < ds.NumFields(); i++ {
					if n, _, _, skip := jsonField(ds.Field(i), ds.Tag(i)); !skip && strings.EqualFold(n, key) {
						target = i
						break
					}
				}
			}
			if target < 0 {
				continue // unknown member: ignored
			}
			ev, et := e.V, mt.Elem()
			if iv, isIface := ev.(*IfaceV); isIface && isEmptyIface(et) {
				if iv == nil {
					continue // null
				}
				ev, et = iv.V, iv.T
			}
			cv, ok := x.jsonConvert(ev, et, ds.Field(target).Type(), fold)
			if !ok {
				return nil, false
			}
			out.Elems[target] = cv
		}
		return out, true
	}
	// pointer to struct on the receiving side: a fresh object holding the converted value (null stays nil)
	if dp, ok := dt.Underlying().(*types.Pointer); ok {
		if _, isStruct := dp.Elem().Underlying().(*types.Struct); isStruct {
			if iv, isI := v.(*IfaceV); isI && iv == nil {
				return (*Pointer)(nil), true
			}
			cv, ok := x.jsonConvert(v, st, dp.Elem(), fold)
			if !ok {
				return nil, false
			}
			return &Pointer{Obj: x.newObj(cv, "json")}, true
		}
	}
	// a value held in an interface: what is encoded is its dynamic value
	if _, isIface := st.Underlying().(*types.Interface); isIface {
		iv, _ := v.(*IfaceV)
		if iv == nil {
			return x.zero(dt), true
		}
		return x.jsonConvert(iv.V, iv.T, dt, fold)
	}
	// custom decoders: a type whose pointer has UnmarshalJSON decodes the member's text itself
	if m := x.findMethod(types.NewPointer(dt), nil, "UnmarshalJSON"); m != nil && !x.inJSONMethod[m] {
		if _, named := dt.(*types.Named); named {
			obj := x.newObj(x.zero(dt), "json")
			var data *SliceV
			if isRawMessage(st) {
				data, _ = v.(*SliceV)
			} else if t, isT := v.(*Term); isT && t.IsConc() && t.S == SBool {
				// a JSON boolean is handed to the custom decoder as its text (decoders test for "true"/"false")
				txt := "false"
				if t.C.(bool) {
					txt = "true"
				}
				data = x.byteSlice(x.toStrV(mkStr(txt)).B)
			} else {
				data = x.byteSlice(x.newToken("json", &IfaceV{T: st, V: v}).B)
			}
			x.inJSONMethod[m] = true
			res := x.call(m, []Value{&Pointer{Obj: obj}, data}, nil)
			delete(x.inJSONMethod, m)
			if e, _ := res.(*IfaceV); e != nil {
				return nil, false
			}
			return obj.Val, true
		}
	}
	// a []byte that is not a RawMessage travels as a base64 string: it decodes back into []byte only; read as raw JSON
	// it is a JSON string, not the document the bytes may have held
	if isByteSlice(st) && !isRawMessage(st) {
		if isByteSlice(dt) && !isRawMessage(dt) {
			return x.deepCopyJSON(v), true
		}
		enc := x.newToken("enc:base64", v)
		return x.jsonConvert(enc, types.Typ[types.String], dt, fold)
	}
	// slices element by element
	if ssl, ok := st.Underlying().(*types.Slice); ok {
		if dsl, ok := dt.Underlying().(*types.Slice); ok && !isRawMessage(st) {
			sv, _ := v.(*SliceV)
			if sv == nil {
				return (*SliceV)(nil), true
			}
			var out []Value
			for _, e := range x.sliceElems(sv) {
				cv, ok := x.jsonConvert(e, ssl.Elem(), dsl.Elem(), fold)
				if !ok {
					return nil, false
				}
				out = append(out, cv)
			}
			return x.newSlice(out, "json"), true
		}
	}
	// maps with string keys, value by value
	if sm, ok := st.Underlying().(*types.Map); ok {
		if dm, ok := dt.Underlying().(*types.Map); ok {
			mv, _ := v.(*MapV)
			if mv == nil {
				return (*MapV)(nil), true
			}
			x.nobj++
			n := &MapV{ID: x.nobj}
			for _, e := range mv.Entries {
				cv, ok := x.jsonConvert(e.V, sm.Elem(), dm.Elem(), fold)
				if !ok {
					return nil, false
				}
				n.Entries = append(n.Entries, &MapEntry{K: e.K, V: cv, Present: e.Present})
			}
			return n, true
		}
	}
	// a float64 (what a JSON number becomes inside an `any`) written out again and read into an integer member: the
	// text of an integral float64 within the integer's range is plain digits, which decode exactly to that float's value
	// (the rounding happened when the number became a float64); anything else does not decode
	if sb, ok := st.Underlying().(*types.Basic); ok && sb.Kind() == types.Float64 {
		if db, ok := dt.Underlying().(*types.Basic); ok && db.Info()&types.IsInteger != 0 {
			if t, ok := v.(*Term); ok {
				lo, hi, _ := intRange(dt)
				if t.S == SFInt {
					iv := &Term{S: SInt, E: t.E}
					if x.branch(tAnd(tLe(mkBig(lo), iv), tLe(iv, mkBig(hi)))) {
						return iv, true
					}
					return nil, false
				}
				if t.IsConc() {
					if f, ok := t.C.(float64); ok && f == math.Trunc(f) && f >= -9223372036854775808.0 && f < 9223372036854775808.0 {
						return x.fit(mkInt(int64(f)), dt), true
					}
				}
			}
			return nil, false
		}
	}
	// named scalar types with the same underlying type (type resultType string)
	if sb, ok := st.Underlying().(*types.Basic); ok {
		if db, ok := dt.Underlying().(*types.Basic); ok && sb.Kind() == db.Kind() {
			return v, true
		}
	}
	ss, ok1 := st.Underlying().(*types.Struct)
	ds, ok2 := dt.Underlying().(*types.Struct)
	if !ok1 || !ok2 {
		if os.Getenv("VERIF_JSONDEBUG") != "" {
			fmt.Fprintf(os.Stderr, "jsonConvert: no rule for %s -> %s\n", st, dt)
		}
		return nil, false
	}
	sa, _ := v.(*Agg)
	out, _ := x.zero(dt).(*Agg)
	if sa == nil || out == nil {
		return nil, false
	}
	// members as encoding/json sees them: embedded structs are flattened, the shallowest member of a name wins
	sf, df := jsonFields(ss), jsonFields(ds)
	for _, d := range df {
		for _, sfl := range sf {
			if sfl.name != d.name {
				continue
			}
			fv, present := x.jsonFieldGet(sa, sfl.path)
			if !present {
				break
			}
			if (sfl.omitEmpty || sfl.omitZero) && x.jsonEmpty(fv) {
				break // not transmitted: the target keeps its zero value
			}
			cv, ok := x.jsonConvert(fv, sfl.typ, d.typ, fold)
			if !ok {
				return nil, false
			}
			if !x.jsonFieldSet(out, d.path, cv) {
				return nil, false
			}
			break
		}
	}
	return out, true
}

type jsonFieldInfo struct {
	name                string
	path                []int
	typ                 types.Type
	omitEmpty, omitZero bool
	tagged              bool
}

// jsonFields lists the members of a struct the way encoding/json does: exported fields by their JSON names, the fields
// of embedded structs promoted (unless the embedded field carries its own name), shadowed by shallower fields of the
// same name; among several at the same depth only a tagged one survives.
func jsonFields(t *types.Struct) []jsonFieldInfo {
	type item struct {
		st   *types.Struct
		path []int
	}
	level := []item{{t, nil}}
	byName := map[string][]jsonFieldInfo{}
	depthOf := map[string]int{}
	var order []string
	for depth := 0; len(level) > 0 && depth < 4; depth++ {
		var next []item
		for _, it := range level {
			for i := 0; i < it.st.NumFields(); i++ {
				f := it.st.Field(i)
				tag := reflect.StructTag(it.st.Tag(i)).Get("json")
				if tag == "-" {
					continue
				}
				path := append(append([]int{}, it.path...), i)
				tagName := strings.Split(tag, ",")[0]
				if f.Embedded() && tagName == "" {
					ft := f.Type()
					if p, ok := ft.Underlying().(*types.Pointer); ok {
						ft = p.Elem()
					}
					if es, ok := ft.Underlying().(*types.Struct); ok {
						next = append(next, item{es, path})
						continue
					}
				}
				n, oe, oz, skip := jsonField(f, it.st.Tag(i))
				if skip && f.Embedded() && !f.Exported() {
					// an embedded struct of an unexported type that carries its own member name is a member
					ft := f.Type()
					if pp, ok := ft.Underlying().(*types.Pointer); ok {
						ft = pp.Elem()
					}
					if _, isStruct := ft.Underlying().(*types.Struct); isStruct && tagName != "" {
						n, skip = tagName, false
						for _, o := range strings.Split(tag, ",")[1:] {
							oe = oe || o == "omitempty"
							oz = oz || o == "omitzero"
						}
					}
				}
				if skip {
					continue
				}
				if d, seen := depthOf[n]; seen && d < depth {
					continue
				}
				if _, seen := depthOf[n]; !seen {
					order = append(order, n)
				}
				depthOf[n] = depth
				byName[n] = append(byName[n], jsonFieldInfo{name: n, path: path, typ: f.Type(), omitEmpty: oe, omitZero: oz, tagged: tagName != ""})
			}
		}
		level = next
	}
	var out []jsonFieldInfo
	for _, n := range order {
		fs := byName[n]
		if len(fs) == 1 {
			out = append(out, fs[0])
			continue
		}
		var tagged []jsonFieldInfo
		for _, f := range fs {
			if f.tagged {
				tagged = append(tagged, f)
			}
		}
		if len(tagged) == 1 {
			out = append(out, tagged[0])
		}
	}
	return out
}

func (x *Exec) jsonFieldGet(a *Agg, path []int) (Value, bool) {
	var cur Value = a
	for _, i := range path {
		switch c := cur.(type) {
		case *Agg:
			cur = c.Elems[i]
		case *Pointer:
			if c == nil {
				return nil, false
			}
			ag, _ := x.load(c).(*Agg)
			if ag == nil {
				return nil, false
			}
			cur = ag.Elems[i]
		default:
			return nil, false
		}
	}
	return cur, true
}

func (x *Exec) jsonFieldSet(a *Agg, path []int, v Value) bool {
	cur := a
	for k, i := range path {
		if k == len(path)-1 {
			cur.Elems[i] = v
			return true
		}
		nx, _ := cur.Elems[i].(*Agg)
		if nx == nil {
			return false // embedded pointer on the receiving side: not modelled
		}
		cur = nx
	}
	return false
}

func rawMessageType(x *Exec) types.Type {
	if p := x.prog.ImportedPackage("encoding/json"); p != nil {
		if o := p.Pkg.Scope().Lookup("RawMessage"); o != nil {
			return o.Type()
		}
	}
	return nil
}

func isEmptyIface(t types.Type) bool {
	it, ok := t.Underlying().(*types.Interface)
	return ok && it.NumMethods() == 0
}

func unwrapAny(v Value) Value {
	if iv, ok := v.(*IfaceV); ok && iv != nil && iv.T != nil {
		return iv.V
	}
	return v
}

func tup(vs ...Value) *Tuple { return &Tuple{Elems: vs} }

var nilErr = (*IfaceV)(nil)

func (x *Exec) newErr(msg string, wraps ...Value) *IfaceV {
	x.nobj++
	return &IfaceV{V: &ErrObj{ID: x.nobj, Msg: msg, Wraps: wraps}}
}

// isHarnessFn: v* prelude functions live in the module's packages (overlay files).
func (e *Engine) lookupIntrinsic(fn *ssa.Function) intrinsicFn {
	name := fn.String()
	short := fn.Name()
	if hf, ok := e.over[name]; ok {
		return func(x *Exec, _ *ssa.Function, a []Value) Value { return x.call(hf, a, nil) }
	}
	if p := fnPkg(fn); p != nil && strings.HasPrefix(p.Pkg.Path(), e.modPath) && len(short) > 1 && short[0] == 'v' && short[1] >= 'A' && short[1] <= 'Z' {
		if h := harnessIntrinsic(short); h != nil {
			return h
		}
	}
	if h := stdIntrinsic(name, fn); h != nil {
		return h
	}
	switch name {
	case "time.NewTimer", "time.After":
		// default (no override in the spec): the prelude's already-fired timer
		if e.entry != nil && e.entry.Pkg != nil {
			if hf := e.entry.Pkg.Func(map[string]string{"time.NewTimer": "zzStdNewTimer", "time.After": "zzStdAfter"}[name]); hf != nil {
				return func(x *Exec, _ *ssa.Function, a []Value) Value { return x.call(hf, a, nil) }
			}
		}
	case "(*time.Timer).Stop", "(*time.Timer).Reset":
		// on the prelude's timers: Stop leaves nothing to receive (Go 1.23 semantics), Reset makes it fire again —
		// at once, the adversarial schedule; both report "was not active" (it had fired already)
		reset := strings.HasSuffix(name, "Reset")
		return func(x *Exec, f *ssa.Function, a []Value) Value {
			p, _ := a[0].(*Pointer)
			if p == nil {
				x.abort("PANIC", "nil *time.Timer")
			}
			st := f.Signature.Recv().Type().(*types.Pointer).Elem().Underlying().(*types.Struct)
			for i := 0; i < st.NumFields(); i++ {
				if st.Field(i).Name() != "C" {
					continue
				}
				if ch, _ := x.load(sub(p, i)).(*ChanV); ch != nil {
					ch.Buf = nil
					if reset {
						// bounded: a loop driven by a timer that always fires at once would never end
						if x.timerResets == nil {
							x.timerResets = map[string]int{}
						}
						k := ptrKey(p)
						x.timerResets[k]++
						if x.timerResets[k] > 4 {
							x.abort("UNSUPPORTED", "a default-model timer was re-armed more than 4 times (give the harness its own timer stub)")
						}
						ch.Buf = []Value{x.zero(st.Field(i).Type().Underlying().(*types.Chan).Elem())}
					}
				}
			}
			return mkBool(false)
		}
	}
	return nil
}

func harnessIntrinsic(short string) intrinsicFn {
	switch short {
	case "vInt":
		return func(x *Exec, _ *ssa.Function, a []Value) Value {
			t := x.fresh(x.strOf(a[0]), SInt)
			if !t.IsConc() {
				x.sol.Assert(tLe(mkInt(-9223372036854775808), t))
				x.sol.Assert(tLe(t, mkInt(9223372036854775807)))
			}
			return t
		}
	case "vIntRange":
		return func(x *Exec, _ *ssa.Function, a []Value) Value {
			t := x.fresh(x.strOf(a[0]), SInt)
			if !t.IsConc() {
				x.sol.Assert(tLe(a[1].(*Term), t))
				x.sol.Assert(tLe(t, a[2].(*Term)))
				if lo, _, ok := boundsOf(a[1].(*Term)); ok {
					if _, hi, ok := boundsOf(a[2].(*Term)); ok {
						withBounds(t, lo, hi)
					}
				}
			}
			return t
		}
	case "vBool":
		return func(x *Exec, _ *ssa.Function, a []Value) Value { return x.fresh(x.strOf(a[0]), SBool) }
	case "vFloat":
		return func(x *Exec, _ *ssa.Function, a []Value) Value { return x.fresh(x.strOf(a[0]), SFloat) }
	case "vByte":
		return func(x *Exec, _ *ssa.Function, a []Value) Value {
			t := x.fresh(x.strOf(a[0]), SInt)
			if !t.IsConc() {
				x.sol.Assert(tLe(mkInt(0), t))
				x.sol.Assert(tLe(t, mkInt(255)))
			}
			return t
		}
	case "vStringN", "vStringLen":
		exact := short == "vStringLen"
		return func(x *Exec, _ *ssa.Function, a []Value) Value {
			tag := x.strOf(a[0])
			max := int(a[1].(*Term).C.(int64))
			n := max
			if !exact {
				n = x.choose('c', max+1, nil)
			}
			r := &StrV{}
			for i := 0; i < n; i++ {
				b := x.fresh(fmt.Sprintf("%s_%d", tag, i), SInt)
				if !b.IsConc() {
					x.sol.Assert(tLe(mkInt(0), b))
					x.sol.Assert(tLe(b, mkInt(255)))
					withBounds(b, 0, 255)
				}
				r.B = append(r.B, b)
			}
			return normStr(r)
		}
	case "vStringAmong":
		return func(x *Exec, _ *ssa.Function, a []Value) Value {
			tag := x.strOf(a[0])
			var cs []string
			for _, e := range x.sliceElems(a[1].(*SliceV)) {
				cs = append(cs, x.strOf(e))
			}
			sort.Strings(cs)
			var u []string
			for i, c := range cs {
				if i == 0 || c != cs[i-1] {
					u = append(u, c)
				}
			}
			r := x.fresh(tag, SInt)
			if r.IsConc() {
				k := int(r.C.(int64))
				if k%2 == 1 && k/2 < len(u) {
					return mkStr(u[k/2])
				}
				return &RankStr{Rank: r, Consts: u}
			}
			x.sol.Assert(tLe(mkInt(0), r))
			x.sol.Assert(tLe(r, mkInt(int64(2*len(u)))))
			return &RankStr{Rank: r, Consts: u}
		}
	case "vRankIsMember":
		// vRankIsMember(s) reports whether a rank string denotes one of its constants
		return func(x *Exec, _ *ssa.Function, a []Value) Value {
			if rs, ok := a[0].(*RankStr); ok {
				return tEq(app(SInt, "mod", rs.Rank, mkInt(2)), mkInt(1))
			}
			return tTrue
		}
	case "vBytes":
		return func(x *Exec, _ *ssa.Function, a []Value) Value {
			tag := x.strOf(a[0])
			l := x.fresh(tag+"_len", SInt)
			if !l.IsConc() {
				x.sol.Assert(tLe(mkInt(0), l))
				x.sol.Assert(tLe(l, a[1].(*Term)))
			}
			x.nobj++
			return &SliceV{LenT: l, Tag: fmt.Sprintf("%s#%d", tag, x.nobj)}
		}
	case "vSame":
		return func(x *Exec, _ *ssa.Function, a []Value) Value {
			p, _ := a[0].(*SliceV)
			q, _ := a[1].(*SliceV)
			if p == nil || q == nil {
				return mkBool(p == nil && q == nil)
			}
			if p.Tag != "" || q.Tag != "" {
				return mkBool(p.Tag == q.Tag)
			}
			return mkBool(p.Arr == q.Arr && p.Off == q.Off && p.Len == q.Len)
		}
	case "vChoice":
		return func(x *Exec, _ *ssa.Function, a []Value) Value {
			n := int(a[1].(*Term).C.(int64))
			return mkInt(int64(x.choose('c', n, nil)))
		}
	case "vParam":
		return func(x *Exec, _ *ssa.Function, a []Value) Value {
			k := x.strOf(a[0])
			v, ok := x.params[k]
			if !ok {
				x.abort("INCONCLUSIVE", "harness parameter "+k+" not set in spec")
			}
			return mkInt(int64(v))
		}
	case "vAssume":
		return func(x *Exec, _ *ssa.Function, a []Value) Value {
			if !x.assume(a[0].(*Term)) {
				x.abort("ASSUME", "")
			}
			return nil
		}
	case "vAssert":
		return func(x *Exec, _ *ssa.Function, a []Value) Value {
			x.doAssert(a[0].(*Term), x.strOf(a[1]))
			return nil
		}
	case "vKnownRegion":
		return func(x *Exec, _ *ssa.Function, a []Value) Value {
			label, key := x.strOf(a[0]), x.strOf(a[1])
			x.regions[label] = append(x.regions[label], knownRegion{key, a[2].(*Term)})
			return nil
		}
	case "vReach":
		return func(x *Exec, _ *ssa.Function, a []Value) Value { x.reached[x.strOf(a[0])] = true; return nil }
	case "vUnsupported":
		// a harness stub reached a path it does not model: the run is inconclusive, never a violation
		return func(x *Exec, _ *ssa.Function, a []Value) Value {
			x.abort("UNSUPPORTED", "harness: "+x.strOf(a[0]))
			return nil
		}
	case "vAllowPanic":
		return func(x *Exec, _ *ssa.Function, a []Value) Value {
			x.allowPanic = append(append([]string{}, x.allowPanic...), x.strOf(a[0]))
			return nil
		}
	case "vLockHook":
		return func(x *Exec, _ *ssa.Function, a []Value) Value {
			p := unwrapAny(a[0]).(*Pointer)
			if x.hooks == nil {
				x.hooks = map[string][2]Value{}
			}
			x.hooks[ptrKey(p)] = [2]Value{a[1], a[2]}
			return nil
		}
	case "vGuard":
		return func(x *Exec, _ *ssa.Function, a []Value) Value {
			x.addGuards(unwrapAny(a[0]).(*Pointer), x.sliceElems(a[1].(*SliceV)))
			return nil
		}
	case "vHeld":
		// vHeld(&mu): is the mutex currently held (by this thread in scheduler mode)?
		return func(x *Exec, _ *ssa.Function, a []Value) Value {
			p, _ := unwrapAny(a[0]).(*Pointer)
			if p == nil {
				return tFalse
			}
			return mkBool(x.muHeld(ptrKey(p)))
		}
	case "vShared":
		return func(x *Exec, _ *ssa.Function, a []Value) Value {
			if x.shared == nil {
				x.shared = map[string]bool{}
			}
			for _, e := range x.sliceElems(a[0].(*SliceV)) {
				iv, _ := e.(*IfaceV)
				if iv == nil {
					continue
				}
				switch v := iv.V.(type) {
				case *Pointer:
					x.shared[sharedKeyPtr(v)] = true
				case *ChanV:
					x.shared[sharedKeyChan(v)] = true
				case *MapV:
					x.shared[sharedKeyMap(v)] = true
				}
			}
			return nil
		}
	case "vSetClosed":
		return func(x *Exec, _ *ssa.Function, a []Value) Value {
			ch := unwrapAny(a[0]).(*ChanV)
			t := a[1].(*Term)
			if t.IsConc() {
				ch.Closed, ch.ClosedT = t.C.(bool), nil
			} else {
				ch.Closed, ch.ClosedT = false, t
			}
			return nil
		}
	case "vIsClosed":
		return func(x *Exec, _ *ssa.Function, a []Value) Value {
			ch, _ := unwrapAny(a[0]).(*ChanV)
			if ch != nil && ch.ClosedT != nil {
				return ch.ClosedT
			}
			return mkBool(ch != nil && ch.Closed)
		}
	case "vMapPutIf":
		// vMapPutIf(m, k, v, cond): m[k] = v holds iff cond (an optional entry; no path split)
		return func(x *Exec, _ *ssa.Function, a []Value) Value {
			m := unwrapAny(a[0]).(*MapV)
			c := a[3].(*Term)
			if c.IsConc() && !c.C.(bool) {
				return nil
			}
			e := &MapEntry{K: unwrapAny(a[1]), V: copyVal(unwrapAny(a[2]))}
			if !c.IsConc() {
				e.Present = c
			}
			m.Entries = append(m.Entries, e)
			return nil
		}
	case "vMapHas":
		// vMapHas(m, k, v): m[k] == v as one boolean term (no path split, optional entries included)
		return func(x *Exec, _ *ssa.Function, a []Value) Value {
			m, _ := unwrapAny(a[0]).(*MapV)
			if m == nil {
				return tFalse
			}
			k, v := unwrapAny(a[1]), unwrapAny(a[2])
			r := tFalse
			for _, e := range m.Entries {
				c := tAnd(x.eqVal(e.K, k), x.eqVal(e.V, v))
				if e.Present != nil {
					c = tAnd(e.Present, c)
				}
				r = tOr(r, c)
			}
			return r
		}
	case "vChanLen":
		return func(x *Exec, _ *ssa.Function, a []Value) Value {
			ch, _ := unwrapAny(a[0]).(*ChanV)
			if ch == nil {
				return mkInt(0)
			}
			return mkInt(int64(len(ch.Buf)))
		}
	case "vGo":
		return func(x *Exec, _ *ssa.Function, a []Value) Value {
			f := a[0]
			if !x.sched {
				x.abort("INCONCLUSIVE", "vGo without sched mode")
			}
			x.spawn(func() { x.callValue(f, nil) })
			return nil
		}
	case "vGoInline":
		return func(x *Exec, _ *ssa.Function, a []Value) Value {
			x.goInline = append(x.goInline, x.strOf(a[0]))
			return nil
		}
	case "vYield":
		return func(x *Exec, _ *ssa.Function, a []Value) Value { x.yield(); return nil }
	case "vJoin":
		return func(x *Exec, _ *ssa.Function, a []Value) Value { x.joinAll(); return nil }
	case "vNumSpawned":
		return func(x *Exec, _ *ssa.Function, a []Value) Value { return mkInt(int64(len(x.spawned))) }
	case "vRunSpawned":
		return func(x *Exec, _ *ssa.Function, a []Value) Value {
			i := int(a[0].(*Term).C.(int64))
			if i < 0 || i >= len(x.spawned) {
				x.abort("INCONCLUSIVE", "vRunSpawned: no such goroutine")
			}
			x.spawned[i]()
			return nil
		}
	case "vSpawnedName":
		return func(x *Exec, _ *ssa.Function, a []Value) Value {
			i := int(a[0].(*Term).C.(int64))
			if i < 0 || i >= len(x.spawnedNames) {
				return mkStr("")
			}
			return mkStr(x.spawnedNames[i])
		}
	case "vIsSymbolic":
		return func(x *Exec, _ *ssa.Function, a []Value) Value {
			t, ok := unwrapAny(a[0]).(*Term)
			return mkBool(ok && !t.IsConc())
		}
	case "vCtxCancel":
		// vCtxCancel(ctx, err): environment cancels a context (deadline fired, parent cancelled ...)
		return func(x *Exec, _ *ssa.Function, a []Value) Value {
			c := x.ctxOf(a[0])
			x.cancelCtx(c, a[1], a[1])
			return nil
		}
	case "vCtxHasDeadline":
		return func(x *Exec, _ *ssa.Function, a []Value) Value {
			for c := x.ctxOf(a[0]); c != nil; c = c.Parent {
				if c.Deadline {
					return tTrue
				}
				if c.Detached {
					// deadline is not inherited across WithoutCancel
					return tFalse
				}
			}
			return tFalse
		}
	case "vCtxDetached":
		// reports whether ctx is cut off from the cancellation of `from`
		return func(x *Exec, _ *ssa.Function, a []Value) Value {
			from := x.ctxOf(a[1])
			for c := x.ctxOf(a[0]); c != nil; c = c.Parent {
				if c == from {
					return tFalse
				}
				if c.Detached {
					return tTrue
				}
			}
			return tTrue
		}
	case "vTime":
		// vTime(ns): a time.Time at ns nanoseconds of the model clock (0 = the zero Time)
		return func(x *Exec, _ *ssa.Function, a []Value) Value { return x.mkTime(a[0].(*Term)) }
	case "vTimeSec":
		// vTimeSec(sec, nsec): a time.Time at sec*1e9+nsec nanoseconds of the model clock; may lie beyond 2^63 ns
		return func(x *Exec, _ *ssa.Function, a []Value) Value {
			sec := a[0].(*Term)
			if sec.IsConc() {
				return x.mkTime(tAdd(mkBig(new(big.Int).Mul(big.NewInt(sec.C.(int64)), big.NewInt(1000000000))), a[1].(*Term)))
			}
			return x.mkTime(tAdd(app(SInt, "*", sec, mkInt(1000000000)), a[1].(*Term)))
		}
	case "vTimeNs":
		return func(x *Exec, _ *ssa.Function, a []Value) Value { return timeNs(a[0]) }
	case "vLastNow":
		// the instant returned by the most recent time.Now of this path (model clock); Now() if none yet
		return func(x *Exec, f *ssa.Function, a []Value) Value {
			if x.lastNow == nil {
				return x.timeNow(nil)
			}
			return x.mkTime(x.lastNow)
		}
	case "vDuration":
		return func(x *Exec, f *ssa.Function, a []Value) Value { return a[0] }
	case "vJSONOf":
		// vJSONOf(data): the value whose uninterpreted JSON encoding data is (nil if data is not such a token)
		return func(x *Exec, _ *ssa.Function, a []Value) Value {
			var sv Value
			switch d := a[0].(type) {
			case *SliceV:
				if d != nil {
					sv = &StrV{B: x.bytesOf(d)}
				}
			default:
				sv = d
			}
			if ti := x.tokenOf(sv); ti != nil && ti.kind == "json" {
				return ti.arg
			}
			return (*IfaceV)(nil)
		}
	case "vJSONMulti":
		// vJSONMulti(views...): one JSON document seen through several Go types (Unmarshal picks the view whose type fits)
		return func(x *Exec, _ *ssa.Function, a []Value) Value {
			return x.byteSlice(x.newToken("json", &jsonViews{x.sliceElems(a[0].(*SliceV))}).B)
		}
	case "vJSON":
		// vJSON(v): the uninterpreted JSON encoding of v as []byte
		return func(x *Exec, _ *ssa.Function, a []Value) Value {
			return x.byteSlice(x.newToken("json", a[0]).B)
		}
	case "vJSONMiscased":
		return func(x *Exec, _ *ssa.Function, a []Value) Value {
			t := x.newToken("json", a[0])
			x.tokens[len(x.tokens)-1].(*tokenInfo).miscased = true
			return x.byteSlice(t.B)
		}
	case "vEncode":
		// vEncode(kind, s): uninterpreted encoder; the result is an opaque token remembering s
		return func(x *Exec, _ *ssa.Function, a []Value) Value {
			return x.newToken("enc:"+x.strOf(a[0]), a[1])
		}
	case "vDecode":
		// vDecode(kind, s) (string, bool): inverse of vEncode on tokens of the same kind; false for anything else
		return func(x *Exec, _ *ssa.Function, a []Value) Value {
			if ti := x.tokenOf(a[1]); ti != nil && ti.kind == "enc:"+x.strOf(a[0]) {
				return tup(ti.arg, tTrue)
			}
			return tup(mkStr(""), tFalse)
		}
	case "vToken":
		// vToken(tag) returns a fresh opaque one-element string token
		return func(x *Exec, _ *ssa.Function, a []Value) Value {
			x.tokens = append(x.tokens, &tokenInfo{kind: "opaque:" + x.strOf(a[0])})
			return &StrV{B: []*Term{mkInt(int64(1000 + len(x.tokens) - 1))}}
		}
	}
	return nil
}

type jsonViews struct{ views []Value }

type tokenInfo struct {
	kind string
	arg  Value
	// miscased: a JSON text whose object member names differ from the Go field names/tags only in letter case.
	// A case-sensitive decoder matches none of them; encoding/json's default matching fills the fields.
	miscased bool
}

func (x *Exec) newToken(kind string, arg Value) *StrV {
	x.tokens = append(x.tokens, &tokenInfo{kind: kind, arg: arg})
	return &StrV{B: []*Term{mkInt(int64(1000 + len(x.tokens) - 1))}}
}

// tokenOf returns the token info if v is exactly one token element.
func (x *Exec) tokenOf(v Value) *tokenInfo {
	sv, ok := v.(*StrV)
	if !ok || len(sv.B) != 1 || !sv.B[0].IsConc() {
		return nil
	}
	k := sv.B[0].C.(int64)
	if k < 1000 || int(k-1000) >= len(x.tokens) {
		return nil
	}
	return x.tokens[k-1000].(*tokenInfo)
}

func (x *Exec) joinAll() {
	if !x.sched {
		return
	}
	me := x.cur
	others := func() bool {
		for _, g := range x.gs {
			if g != me && !g.done {
				return true
			}
		}
		return false
	}
	for others() {
		me.blocked = others
		x.yield()
		me.blocked = nil
	}
}

// ---------------------------------------------------------------- mutexes

func (x *Exec) mutexOp(p *Pointer, op string) {
	if p == nil {
		x.abort("PANIC", "nil mutex")
	}
	key := ptrKey(p)
	isLock := op == "Lock" || op == "RLock"
	if h, ok := x.hooks[key]; ok && !x.inHook {
		if isLock {
			x.seqLock(key, op)
		} else {
			x.seqUnlock(key, op)
		}
		x.inHook = true
		k := 0
		if !isLock {
			k = 1
		}
		x.callValue(h[k], nil)
		x.inHook = false
		if k == 1 && x.memoOn && x.pos >= x.prefixLen {
			// (merge checks apply only beyond the replayed decision prefix: the prefix belongs to a path that was
			// itself allowed to continue through these points)
			sig, ok := x.signature()
			if !ok {
				x.NoMerge++
			} else if x.eng.memoSeen(sig) {
				x.Merged++
				x.abort("MERGED", "")
			}
		}
		return
	}
	if x.sched {
		if isLock {
			x.lockMutex(key, op == "RLock")
		} else {
			x.unlockMutex(key, op == "RUnlock")
		}
		return
	}
	if x.inHook {
		return
	}
	if isLock {
		x.seqLock(key, op)
	} else {
		x.seqUnlock(key, op)
	}
}

func (x *Exec) seqLock(key, op string) {
	if x.seqLocks == nil {
		x.seqLocks = map[string]int{}
	}
	st := x.seqLocks[key]
	if op == "Lock" {
		if st != 0 {
			x.abort("DEADLOCK", "Lock of a mutex already held by this goroutine")
		}
		x.seqLocks[key] = -1
	} else {
		if st < 0 {
			x.abort("DEADLOCK", "RLock of a mutex write-locked by this goroutine")
		}
		x.seqLocks[key] = st + 1
	}
}

func (x *Exec) seqUnlock(key, op string) {
	st := x.seqLocks[key]
	if op == "Unlock" {
		if st != -1 {
			x.abort("PANIC", "sync: unlock of unlocked mutex")
		}
		x.seqLocks[key] = 0
	} else {
		if st <= 0 {
			x.abort("PANIC", "sync: RUnlock of unlocked RWMutex")
		}
		x.seqLocks[key] = st - 1
	}
}

// ---------------------------------------------------------------- context

func (x *Exec) ctxOf(v Value) *CtxV {
	iv, _ := v.(*IfaceV)
	if iv == nil {
		x.abort("PANIC", "nil context")
	}
	c, ok := iv.V.(*CtxV)
	if !ok {
		x.abort("UNSUPPORTED", fmt.Sprintf("context implemented by %T", iv.V))
	}
	return c
}

func (x *Exec) newCtx(parent *CtxV) *CtxV {
	x.ctxN++
	c := &CtxV{ID: x.ctxN, Parent: parent}
	if parent != nil {
		parent.Children = append(parent.Children, c)
	}
	return c
}

func ctxIface(c *CtxV) *IfaceV { return &IfaceV{V: c} }

// cancelRoot returns the nearest ancestor (or self) that carries cancellation state.
func cancelRoot(c *CtxV) *CtxV {
	for ; c != nil; c = c.Parent {
		if c.Done != nil {
			return c
		}
		if c.Detached {
			return nil
		}
	}
	return nil
}

func (x *Exec) cancelCtx(c *CtxV, err, cause Value) {
	if c.Done == nil {
		x.nobj++
		c.Done = &ChanV{ID: x.nobj, Note: "ctx.Done"}
	}
	if c.Done.Closed {
		return
	}
	c.Done.Closed = true
	c.Err = err
	c.Cause = cause
	var rec func(p *CtxV)
	rec = func(p *CtxV) {
		for _, ch := range p.Children {
			if ch.Detached {
				continue
			}
			if ch.Done != nil {
				x.cancelCtx(ch, err, cause)
			} else {
				rec(ch)
			}
		}
	}
	rec(c)
}

func (x *Exec) cancelableChild(a []Value, deadline bool) (*CtxV, *IfaceV) {
	parent := x.ctxOf(a[0])
	c := x.newCtx(parent)
	x.nobj++
	c.Done = &ChanV{ID: x.nobj, Note: "ctx.Done"}
	c.Deadline = deadline
	if r := cancelRoot(parent); r != nil && r.Done.Closed {
		c.Done.Closed = true
		c.Err, c.Cause = r.Err, r.Cause
	}
	return c, ctxIface(c)
}

func (x *Exec) sentinel(pkg, name string) *IfaceV {
	for _, p := range x.prog.AllPackages() {
		if p.Pkg.Path() == pkg {
			if g, ok := p.Members[name].(*ssa.Global); ok {
				return x.load(&Pointer{Obj: x.global(g)}).(*IfaceV)
			}
		}
	}
	x.abort("UNSUPPORTED", "sentinel "+pkg+"."+name)
	return nil
}

// nativeMethod dispatches interface calls on engine-native payloads (errors, contexts).
func (x *Exec) nativeMethod(iv *IfaceV, m string, sig *types.Signature) func([]Value) Value {
	switch v := iv.V.(type) {
	case *ErrObj:
		switch m {
		case "Error":
			return func([]Value) Value { return mkStr(v.Msg) }
		case "Unwrap":
			return func([]Value) Value {
				if len(v.Wraps) > 0 {
					return v.Wraps[0]
				}
				return nilErr
			}
		}
	case *CtxV:
		switch m {
		case "Done":
			return func([]Value) Value {
				if r := cancelRoot(v); r != nil {
					return r.Done
				}
				return (*ChanV)(nil)
			}
		case "Err":
			return func([]Value) Value {
				if r := cancelRoot(v); r != nil && r.Done.Closed {
					return r.Err
				}
				return nilErr
			}
		case "Value":
			return func(a []Value) Value {
				for c := v; c != nil; c = c.Parent {
					if c.Key != nil {
						if eq := x.eqVal(c.Key, a[0]); x.branch(eq) {
							return c.Val
						}
					}
				}
				return (*IfaceV)(nil)
			}
		case "Deadline":
			return func([]Value) Value {
				has := false
				for c := v; c != nil; c = c.Parent {
					if c.Deadline {
						has = true
					}
					if c.Detached {
						break
					}
				}
				return tup(x.zero(sig.Results().At(0).Type()), mkBool(has))
			}
		}
	}
	return nil
}

// ---------------------------------------------------------------- errors / fmt

func (x *Exec) isErrorValue(v Value) (*IfaceV, bool) {
	iv, ok := v.(*IfaceV)
	if !ok || iv == nil {
		return nil, false
	}
	if _, isErr := iv.V.(*ErrObj); isErr {
		return iv, true
	}
	if iv.T != nil && types.Implements(iv.T, errType.Underlying().(*types.Interface)) {
		return iv, true
	}
	return nil, false
}

// unwrapList returns the errors directly wrapped by iv.
func (x *Exec) unwrapList(iv *IfaceV) []Value {
	if eo, ok := iv.V.(*ErrObj); ok {
		return eo.Wraps
	}
	if iv.T != nil {
		if m := x.findMethod(iv.T, nil, "Unwrap"); m != nil {
			r := x.call(m, []Value{iv.V}, nil)
			switch r := r.(type) {
			case *IfaceV:
				if r != nil {
					return []Value{r}
				}
			case *SliceV:
				return x.sliceElems(r)
			}
		}
	}
	return nil
}

func (x *Exec) errorsIs(err, tgt Value) bool {
	iv, _ := err.(*IfaceV)
	tv, _ := tgt.(*IfaceV)
	if iv == nil || tv == nil {
		return iv == nil && tv == nil
	}
	// comparable check: pointer-shaped or ErrObj
	if c := x.eqVal(iv, tv); x.branch(c) {
		return true
	}
	if iv.T != nil {
		if m := x.findMethod(iv.T, nil, "Is"); m != nil {
			if r, ok := x.call(m, []Value{iv.V, tv}, nil).(*Term); ok && x.branch(r) {
				return true
			}
		}
	}
	for _, w := range x.unwrapList(iv) {
		if x.errorsIs(w, tv) {
			return true
		}
	}
	return false
}

// errorsAs: target is a pointer to a variable of some type T.
func (x *Exec) errorsAs(err Value, target *Pointer, tt types.Type) bool {
	iv, _ := err.(*IfaceV)
	if iv == nil {
		return false
	}
	if it, isIface := tt.Underlying().(*types.Interface); isIface {
		if x.implements(iv, it) {
			x.store(target, iv)
			return true
		}
	} else if iv.T != nil && types.Identical(iv.T, tt) {
		x.store(target, iv.V)
		return true
	}
	for _, w := range x.unwrapList(iv) {
		if x.errorsAs(w, target, tt) {
			return true
		}
	}
	return false
}

// fmtArgs formats like fmt.Sprintf for the verbs used in the repo. Symbolic pieces become tokens / symbolic bytes.
func (x *Exec) sprintf(format string, args []Value) Value {
	out := &StrV{}
	lit := func(s string) {
		for i := 0; i < len(s); i++ {
			out.B = append(out.B, mkInt(int64(s[i])))
		}
	}
	ai := 0
	for i := 0; i < len(format); i++ {
		c := format[i]
		if c != '%' || i+1 >= len(format) {
			lit(string(c))
			continue
		}
		i++
		verb := format[i]
		if verb == '%' {
			lit("%")
			continue
		}
		// skip flags/width
		for strings.IndexByte("+-# 0123456789.", verb) >= 0 && i+1 < len(format) {
			i++
			verb = format[i]
		}
		if ai >= len(args) {
			lit("%!" + string(verb) + "(MISSING)")
			continue
		}
		a := args[ai]
		ai++
		x.fmtValue(out, verb, a)
	}
	return normStr(out)
}

func (x *Exec) fmtValue(out *StrV, verb byte, a Value) {
	lit := func(s string) {
		for i := 0; i < len(s); i++ {
			out.B = append(out.B, mkInt(int64(s[i])))
		}
	}
	if iv, ok := a.(*IfaceV); ok {
		if iv == nil {
			lit("<nil>")
			return
		}
		if e, isErr := x.isErrorValue(iv); isErr {
			if eo, ok := e.V.(*ErrObj); ok {
				lit(eo.Msg)
			} else if m := x.findMethod(e.T, nil, "Error"); m != nil {
				x.fmtValue(out, 's', x.call(m, []Value{e.V}, nil))
			}
			return
		}
		if iv.T != nil {
			if m := x.findMethod(iv.T, nil, "String"); m != nil && (verb == 'v' || verb == 's') {
				x.fmtValue(out, 's', x.call(m, []Value{iv.V}, nil))
				return
			}
		}
		a = iv.V
	}
	switch v := a.(type) {
	case *Term:
		switch v.S {
		case SStr:
			if verb == 'q' {
				lit(fmt.Sprintf("%q", v.C.(string)))
			} else {
				lit(v.C.(string))
			}
		case SInt:
			if v.IsConc() {
				lit(fmt.Sprintf("%d", v.C.(int64)))
			} else if b, ok := termBig(v); ok {
				lit(b.String())
			} else {
				out.B = append(out.B, x.newToken("dec", v).B...)
			}
		case SBool:
			if v.IsConc() {
				lit(fmt.Sprintf("%t", v.C.(bool)))
			} else if x.branch(v) {
				lit("true")
			} else {
				lit("false")
			}
		case SFloat:
			if v.IsConc() {
				lit(fmt.Sprint(v.C.(float64)))
			} else {
				out.B = append(out.B, x.newToken("float", v).B...)
			}
		}
	case *StrV:
		if verb == 'q' {
			lit(`"`)
			out.B = append(out.B, v.B...)
			lit(`"`)
		} else {
			out.B = append(out.B, v.B...)
		}
	case *RankStr:
		out.B = append(out.B, x.newToken("rank", v).B...)
	case nil:
		lit("<nil>")
	default:
		lit(fmt.Sprintf("<%T>", a))
	}
}

// ---------------------------------------------------------------- std models

func stdIntrinsic(name string, fn *ssa.Function) intrinsicFn {
	switch name {
	case "(*sync.Mutex).Lock", "(*sync.RWMutex).Lock":
		return func(x *Exec, _ *ssa.Function, a []Value) Value { x.mutexOp(a[0].(*Pointer), "Lock"); return nil }
	case "(*sync.Mutex).Unlock", "(*sync.RWMutex).Unlock":
		return func(x *Exec, _ *ssa.Function, a []Value) Value { x.mutexOp(a[0].(*Pointer), "Unlock"); return nil }
	case "(*sync.RWMutex).RLock":
		return func(x *Exec, _ *ssa.Function, a []Value) Value { x.mutexOp(a[0].(*Pointer), "RLock"); return nil }
	case "(*sync.RWMutex).RUnlock":
		return func(x *Exec, _ *ssa.Function, a []Value) Value { x.mutexOp(a[0].(*Pointer), "RUnlock"); return nil }
	case "(*sync.WaitGroup).Add":
		return func(x *Exec, _ *ssa.Function, a []Value) Value {
			p := sub(a[0].(*Pointer), 0)
			cur, _ := x.wg[ptrKey(p)]
			if x.wg == nil {
				x.wg = map[string]int{}
			}
			x.wg[ptrKey(p)] = cur + int(a[1].(*Term).C.(int64))
			return nil
		}
	case "(*sync.WaitGroup).Done":
		return func(x *Exec, _ *ssa.Function, a []Value) Value {
			p := sub(a[0].(*Pointer), 0)
			if x.wg == nil {
				x.wg = map[string]int{}
			}
			x.wg[ptrKey(p)]--
			if x.wg[ptrKey(p)] < 0 {
				x.abort("PANIC", "sync: negative WaitGroup counter")
			}
			return nil
		}
	case "(*sync.WaitGroup).Wait":
		return func(x *Exec, _ *ssa.Function, a []Value) Value {
			k := ptrKey(sub(a[0].(*Pointer), 0))
			for x.wg[k] > 0 {
				if !x.sched {
					x.abort("BLOCKED", "WaitGroup.Wait with pending count")
				}
				me := x.cur
				me.blocked = func() bool { return x.wg[k] > 0 }
				x.yield()
				me.blocked = nil
			}
			return nil
		}
	case "sync/atomic.AddInt64", "sync/atomic.AddInt32", "sync/atomic.AddUint32", "sync/atomic.AddUint64":
		return func(x *Exec, f *ssa.Function, a []Value) Value {
			p := a[0].(*Pointer)
			v := x.binop(token.ADD, x.load(p), a[1], f.Signature.Results().At(0).Type(), f.Signature.Results().At(0).Type())
			x.store(p, v)
			return v
		}
	case "sync/atomic.LoadInt64", "sync/atomic.LoadInt32", "sync/atomic.LoadUint32", "sync/atomic.LoadUint64", "sync/atomic.LoadPointer":
		return func(x *Exec, _ *ssa.Function, a []Value) Value { return x.load(a[0].(*Pointer)) }
	case "sync/atomic.StoreInt64", "sync/atomic.StoreInt32", "sync/atomic.StoreUint32", "sync/atomic.StoreUint64", "sync/atomic.StorePointer":
		return func(x *Exec, _ *ssa.Function, a []Value) Value { x.store(a[0].(*Pointer), a[1]); return nil }
	case "sync/atomic.SwapInt32", "sync/atomic.SwapInt64", "sync/atomic.SwapUint32":
		return func(x *Exec, _ *ssa.Function, a []Value) Value {
			p := a[0].(*Pointer)
			old := x.load(p)
			x.store(p, a[1])
			return old
		}
	case "sync/atomic.CompareAndSwapInt32", "sync/atomic.CompareAndSwapInt64", "sync/atomic.CompareAndSwapUint32":
		return func(x *Exec, _ *ssa.Function, a []Value) Value {
			p := a[0].(*Pointer)
			if x.branch(x.eqVal(x.load(p), a[1])) {
				x.store(p, a[2])
				return tTrue
			}
			return tFalse
		}
	case "context.Background", "context.TODO":
		return func(x *Exec, _ *ssa.Function, a []Value) Value { return ctxIface(x.newCtx(nil)) }
	case "context.WithValue":
		return func(x *Exec, _ *ssa.Function, a []Value) Value {
			c := x.newCtx(x.ctxOf(a[0]))
			c.Key, c.Val = a[1], a[2]
			return ctxIface(c)
		}
	case "context.WithoutCancel":
		return func(x *Exec, _ *ssa.Function, a []Value) Value {
			c := x.newCtx(x.ctxOf(a[0]))
			c.Detached = true
			return ctxIface(c)
		}
	case "context.WithCancel", "context.WithTimeout", "context.WithDeadline":
		dl := name != "context.WithCancel"
		return func(x *Exec, _ *ssa.Function, a []Value) Value {
			c, iv := x.cancelableChild(a, dl)
			cancel := &NativeFn{Name: fmt.Sprintf("cancel#%d", c.ID), F: func(x *Exec, _ []Value) Value {
				e := x.sentinel("context", "Canceled")
				x.cancelCtx(c, e, e)
				return nil
			}}
			return tup(iv, cancel)
		}
	case "context.WithCancelCause":
		return func(x *Exec, _ *ssa.Function, a []Value) Value {
			c, iv := x.cancelableChild(a, false)
			cancel := &NativeFn{Name: fmt.Sprintf("cancelCause#%d", c.ID), F: func(x *Exec, args []Value) Value {
				e := x.sentinel("context", "Canceled")
				var cause Value = e
				if civ, _ := args[0].(*IfaceV); civ != nil {
					cause = civ
				}
				x.cancelCtx(c, e, cause)
				return nil
			}}
			return tup(iv, cancel)
		}
	case "context.Cause":
		return func(x *Exec, _ *ssa.Function, a []Value) Value {
			if r := cancelRoot(x.ctxOf(a[0])); r != nil && r.Done.Closed {
				return r.Cause
			}
			return nilErr
		}
	case "errors.New":
		return func(x *Exec, _ *ssa.Function, a []Value) Value {
			msg := "errors.New"
			if t, ok := a[0].(*Term); ok && t.IsConc() {
				msg = t.C.(string)
			}
			return x.newErr(msg)
		}
	case "fmt.Errorf":
		return func(x *Exec, _ *ssa.Function, a []Value) Value {
			msg := "Errorf"
			if t, ok := a[0].(*Term); ok && t.IsConc() {
				msg = t.C.(string)
			}
			var wraps []Value
			// only %w operands are wrapped
			format := msg
			args := x.sliceElems(a[1].(*SliceV))
			ai := 0
			for i := 0; i+1 < len(format); i++ {
				if format[i] != '%' {
					continue
				}
				i++
				for strings.IndexByte("+-# 0123456789.", format[i]) >= 0 && i+1 < len(format) {
					i++
				}
				if format[i] == '%' {
					continue
				}
				if format[i] == 'w' && ai < len(args) {
					if iv, ok := x.isErrorValue(args[ai]); ok {
						wraps = append(wraps, iv)
					}
				}
				ai++
			}
			return x.newErr(msg, wraps...)
		}
	case "errors.Is":
		return func(x *Exec, _ *ssa.Function, a []Value) Value { return mkBool(x.errorsIs(a[0], a[1])) }
	case "errors.As":
		return func(x *Exec, _ *ssa.Function, a []Value) Value {
			tiv := a[1].(*IfaceV)
			tt := tiv.T.(*types.Pointer).Elem()
			return mkBool(x.errorsAs(a[0], tiv.V.(*Pointer), tt))
		}
	case "errors.Unwrap":
		return func(x *Exec, _ *ssa.Function, a []Value) Value {
			iv, _ := a[0].(*IfaceV)
			if iv == nil {
				return nilErr
			}
			if eo, ok := iv.V.(*ErrObj); ok {
				if len(eo.Wraps) == 1 {
					return eo.Wraps[0]
				}
				return nilErr
			}
			if w := x.unwrapList(iv); len(w) == 1 {
				return w[0]
			}
			return nilErr
		}
	case "errors.Join":
		return func(x *Exec, _ *ssa.Function, a []Value) Value {
			var ws []Value
			for _, e := range x.sliceElems(a[0].(*SliceV)) {
				if iv, _ := e.(*IfaceV); iv != nil {
					ws = append(ws, iv)
				}
			}
			if len(ws) == 0 {
				return nilErr
			}
			return x.newErr("errors.Join", ws...)
		}
	case "fmt.Sprintf":
		return func(x *Exec, _ *ssa.Function, a []Value) Value {
			return x.sprintf(x.strOf(a[0]), x.sliceElems(a[1].(*SliceV)))
		}
	case "fmt.Sprint":
		return func(x *Exec, _ *ssa.Function, a []Value) Value {
			out := &StrV{}
			for _, e := range x.sliceElems(a[0].(*SliceV)) {
				x.fmtValue(out, 'v', e)
			}
			return normStr(out)
		}
	case "time.Now":
		return func(x *Exec, f *ssa.Function, a []Value) Value {
			return x.timeNow(f.Signature.Results().At(0).Type())
		}
	// ---- the repo's decoder wrapper (internal/json.Decoder over a bytes.Reader): Decode = Unmarshal of the reader's
	// bytes; with UseNumber the numbers held in `any` stay exact (json.Number is a text; modelled as the integer itself)
	case "github.com/modelcontextprotocol/go-sdk/internal/json.NewDecoder":
		return func(x *Exec, f *ssa.Function, a []Value) Value {
			st := f.Signature.Results().At(0).Type().(*types.Pointer).Elem()
			p := &Pointer{Obj: x.newObj(x.zero(st), "json.Decoder")}
			if x.decoders == nil {
				x.decoders = map[string]*decoderState{}
			}
			x.decoders[ptrKey(p)] = &decoderState{r: a[0]}
			return p
		}
	case "(*github.com/modelcontextprotocol/go-sdk/internal/json.Decoder).UseNumber":
		return func(x *Exec, f *ssa.Function, a []Value) Value {
			if p, _ := a[0].(*Pointer); p != nil && x.decoders[ptrKey(p)] != nil {
				x.decoders[ptrKey(p)].useNumber = true
			}
			return nil
		}
	case "(*github.com/modelcontextprotocol/go-sdk/internal/json.Decoder).Decode":
		return func(x *Exec, f *ssa.Function, a []Value) Value {
			p, _ := a[0].(*Pointer)
			var ds *decoderState
			if p != nil {
				ds = x.decoders[ptrKey(p)]
			}
			if ds == nil {
				x.abort("UNSUPPORTED", "json.Decoder not made by NewDecoder")
			}
			riv, _ := ds.r.(*IfaceV)
			var data Value
			if riv != nil {
				if pt, ok := riv.T.(*types.Pointer); ok && pt.Elem().String() == "bytes.Reader" {
					rs := pt.Elem().Underlying().(*types.Struct)
					for i := 0; i < rs.NumFields(); i++ {
						if rs.Field(i).Name() == "s" {
							data = x.load(sub(riv.V.(*Pointer), i))
						}
					}
				}
			}
			if data == nil {
				x.abort("UNSUPPORTED", "json.Decoder over a reader other than *bytes.Reader")
			}
			if ds.used {
				return x.newErr("EOF")
			}
			ds.used = true
			old := x.jsonExact
			x.jsonExact = ds.useNumber
			r := stdIntrinsic("github.com/modelcontextprotocol/go-sdk/internal/json.Unmarshal", nil)(x, nil, []Value{data, a[1]})
			x.jsonExact = old
			return r
		}
	case "encoding/json.Marshal", "github.com/modelcontextprotocol/go-sdk/internal/json.Marshal", "github.com/segmentio/encoding/json.Marshal":
		// uninterpreted encoder: one opaque token element remembering the (interface) value
		return func(x *Exec, _ *ssa.Function, a []Value) Value {
			t := x.newToken("json", a[0])
			return tup(x.byteSlice(t.B), nilErr)
		}
	case "encoding/json.Unmarshal", "github.com/modelcontextprotocol/go-sdk/internal/json.Unmarshal", "github.com/segmentio/encoding/json.Unmarshal":
		return func(x *Exec, _ *ssa.Function, a []Value) Value {
			var sv Value
			if s, _ := a[0].(*SliceV); s != nil {
				sv = &StrV{B: x.bytesOf(s)}
			}
			if s, _ := a[0].(*SliceV); s == nil || (s.LenT == nil && s.Len == 0) {
				return x.newErr("unexpected end of JSON input")
			}
			if n, ok := normStr(sv.(*StrV)).(*Term); ok && n.IsConc() && strings.TrimLeft(n.C.(string), " \t\r\n") == "" {
				return x.newErr("unexpected end of JSON input") // nothing but blanks
			}
			if n, ok := normStr(sv.(*StrV)).(*Term); ok && n.IsConc() && n.C.(string) == "null" {
				// JSON null: pointers, maps, slices and interfaces become nil; other targets are left untouched
				if dst, _ := a[1].(*IfaceV); dst != nil {
					if pt, ok := dst.T.(*types.Pointer); ok {
						switch pt.Elem().Underlying().(type) {
						case *types.Pointer, *types.Map, *types.Slice, *types.Interface:
							x.store(dst.V.(*Pointer), x.zero(pt.Elem()))
						}
					}
				}
				return nilErr
			}
			ti := x.tokenOf(sv)
			if ti != nil && ti.kind == "dec" {
				// a JSON number: into any/float64 it becomes the nearest float64, into an integer type the exact value
				dst, _ := a[1].(*IfaceV)
				if pt, ok := dst.T.(*types.Pointer); ok {
					p := dst.V.(*Pointer)
					it := ti.arg.(*Term)
					if isEmptyIface(pt.Elem()) {
						x.store(p, &IfaceV{T: types.Typ[types.Float64], V: x.intToFloat(it, types.Typ[types.Int64])})
						return nilErr
					}
					if b, ok := pt.Elem().Underlying().(*types.Basic); ok {
						if b.Info()&types.IsFloat != 0 {
							x.store(p, x.intToFloat(it, types.Typ[types.Int64]))
							return nilErr
						}
						if b.Info()&types.IsInteger != 0 {
							x.store(p, x.fit(it, pt.Elem()))
							return nilErr
						}
					}
				}
				return x.newErr("json: cannot unmarshal number")
			}
			if ti == nil || ti.kind != "json" {
				x.abort("UNSUPPORTED", "json.Unmarshal of non-token data (JSON text layer is outside the engine)")
			}
			dst, _ := a[1].(*IfaceV)
			if dst == nil {
				return x.newErr("json: Unmarshal(nil)")
			}
			pt, ok := dst.T.(*types.Pointer)
			if !ok {
				return x.newErr("json: Unmarshal(non-pointer)")
			}
			p := dst.V.(*Pointer)
			if ti.miscased {
				_, isStruct := pt.Elem().Underlying().(*types.Struct)
				if isStruct && strings.HasSuffix(name, "go-sdk/internal/json.Unmarshal") {
					return nilErr // case-sensitive decoder: no member matches, the target keeps its zero fields
				}
			}
			var src *IfaceV
			if mv, isMulti := ti.arg.(*jsonViews); isMulti {
				for _, v := range mv.views {
					iv, _ := v.(*IfaceV)
					if iv == nil {
						continue
					}
					if types.Identical(pt.Elem(), iv.T) {
						src = iv
						break
					}
					if sp, isPtr := iv.T.(*types.Pointer); isPtr && types.Identical(pt.Elem(), sp.Elem()) {
						src = iv
						break
					}
				}
				if src == nil {
					return x.newErr("json: cannot unmarshal into " + pt.Elem().String())
				}
			} else {
				src, _ = ti.arg.(*IfaceV)
			}
			if src == nil {
				// JSON null
				x.store(p, x.zero(pt.Elem()))
				return nilErr
			}
			switch {
			case types.Identical(pt.Elem(), src.T):
				x.storeDecoded(p, x.deepCopyJSON(src.V), pt.Elem())
			case isEmptyIface(pt.Elem()):
				x.store(p, &IfaceV{T: src.T, V: x.deepCopyJSON(src.V)})
			default:
				if sp, isPtr := src.T.(*types.Pointer); isPtr && types.Identical(pt.Elem(), sp.Elem()) && src.V.(*Pointer) != nil {
					x.store(p, x.deepCopyJSON(x.load(src.V.(*Pointer))))
				} else if cv, ok := x.jsonConvert(src.V, src.T, pt.Elem(), !strings.HasSuffix(name, "go-sdk/internal/json.Unmarshal")); ok {
					x.storeDecoded(p, cv, pt.Elem())
				} else {
					return x.newErr("json: cannot unmarshal into " + pt.Elem().String())
				}
			}
			return nilErr
		}
	case "os.Getenv":
		return func(x *Exec, _ *ssa.Function, a []Value) Value { return mkStr("") }
	case "strings.ToLower", "strings.ToUpper":
		lower := name == "strings.ToLower"
		return func(x *Exec, _ *ssa.Function, a []Value) Value {
			sv := x.toStrV(a[0])
			out := &StrV{}
			for _, b := range sv.B {
				if b.IsConc() && b.C.(int64) >= 1000 {
					out.B = append(out.B, b)
					continue
				}
				if !x.assumeASCII(b) {
					if x.branch(tLe(mkInt(128), b)) {
						x.abort("UNSUPPORTED", name+" of non-ASCII byte")
					}
				}
				var lo, hi, d int64 = 'A', 'Z', 32
				if !lower {
					lo, hi, d = 'a', 'z', -32
				}
				if b.IsConc() {
					c := b.C.(int64)
					if c >= lo && c <= hi {
						c += d
					}
					out.B = append(out.B, mkInt(c))
				} else {
					out.B = append(out.B, tIte(tAnd(tLe(mkInt(lo), b), tLe(b, mkInt(hi))), tAdd(b, mkInt(d)), b))
				}
			}
			return normStr(out)
		}
	}
	switch {
	case strings.HasPrefix(name, "(*log/slog.Logger)."), strings.HasPrefix(name, "log/slog."), strings.HasPrefix(name, "log."), strings.HasPrefix(name, "(*log.Logger)."):
		return func(x *Exec, f *ssa.Function, a []Value) Value { return zeroResult(x, f.Signature) }
	case strings.HasPrefix(name, "slices.Sorted["), strings.HasPrefix(name, "slices.Collect["):
		sorted := strings.HasPrefix(name, "slices.Sorted[")
		return func(x *Exec, _ *ssa.Function, a []Value) Value {
			var elems []Value
			yield := &NativeFn{Name: "collect", F: func(x *Exec, args []Value) Value {
				elems = append(elems, args[0])
				return tTrue
			}}
			x.callValue(a[0], []Value{yield})
			if sorted {
				// insertion sort; comparisons on symbolic elements fork the path
				for i := 1; i < len(elems); i++ {
					for j := i; j > 0; j-- {
						lt, ok := x.binop(token.LSS, elems[j], elems[j-1], nil, nil).(*Term)
						if !ok || !x.branch(lt) {
							break
						}
						elems[j], elems[j-1] = elems[j-1], elems[j]
					}
				}
			}
			if len(elems) == 0 {
				return (*SliceV)(nil)
			}
			return x.newSlice(elems, "sorted")
		}
	case strings.HasPrefix(name, "maps.Clone["):
		return func(x *Exec, _ *ssa.Function, a []Value) Value {
			m, _ := a[0].(*MapV)
			if m == nil {
				return (*MapV)(nil)
			}
			x.nobj++
			n := &MapV{ID: x.nobj}
			for _, e := range m.Entries {
				n.Entries = append(n.Entries, &MapEntry{K: e.K, V: copyVal(e.V), Present: e.Present})
			}
			return n
		}
	case strings.HasPrefix(name, "reflect.TypeFor["):
		return func(x *Exec, f *ssa.Function, a []Value) Value {
			if ta := f.TypeArgs(); len(ta) == 1 {
				return x.rtypeOf(ta[0])
			}
			x.abort("UNSUPPORTED", "reflect.TypeFor without a type argument")
			return nil
		}
	case strings.HasPrefix(name, "slices.Delete["):
		// slices.Delete(s, i, j): removes s[i:j] in place (elements shifted down, vacated tail zeroed), result aliases s
		return func(x *Exec, f *ssa.Function, a []Value) Value {
			s, _ := a[0].(*SliceV)
			n := 0
			if s != nil {
				n = s.Len
			}
			i := x.concIndex(a[1], n+1, "slices.Delete index")
			j := x.concIndex(a[2], n+1, "slices.Delete index")
			if i > j {
				x.abort("PANIC", "slices.Delete: slice bounds out of range")
			}
			if i == j {
				return a[0]
			}
			elems := x.sliceElems(s)
			copy(elems[i:], elems[j:])
			et := f.Signature.Params().At(0).Type().Underlying().(*types.Slice).Elem()
			for k := n - (j - i); k < n; k++ {
				elems[k] = x.zero(et)
			}
			return &SliceV{Arr: s.Arr, Off: s.Off, Len: n - (j - i), Cap: s.Cap}
		}
	case strings.HasPrefix(name, "slices.Insert["):
		// slices.Insert(s, i, v...): in place when the capacity allows (result aliases s), otherwise a fresh array
		return func(x *Exec, f *ssa.Function, a []Value) Value {
			s, _ := a[0].(*SliceV)
			n := 0
			if s != nil {
				n = s.Len
			}
			i := x.concIndex(a[1], n+1, "slices.Insert index")
			var add []Value
			if v, _ := a[2].(*SliceV); v != nil {
				add = x.sliceElems(v)
			}
			m := len(add)
			if m == 0 {
				return a[0]
			}
			if s != nil && n+m <= s.Cap {
				arr := s.Arr.Val.(*Agg).Elems[s.Off : s.Off+s.Cap]
				copy(arr[i+m:n+m], arr[i:n])
				for k, e := range add {
					arr[i+k] = copyVal(e)
				}
				return &SliceV{Arr: s.Arr, Off: s.Off, Len: n + m, Cap: s.Cap}
			}
			var elems []Value
			old := x.sliceElems(s)
			elems = append(elems, old[:i]...)
			for _, e := range add {
				elems = append(elems, copyVal(e))
			}
			elems = append(elems, old[i:]...)
			return x.newSlice(elems, "insert")
		}
	case strings.HasPrefix(name, "slices.Clone["):
		return func(x *Exec, _ *ssa.Function, a []Value) Value {
			s, _ := a[0].(*SliceV)
			if s == nil {
				return (*SliceV)(nil)
			}
			var elems []Value
			for _, e := range x.sliceElems(s) {
				elems = append(elems, copyVal(e))
			}
			return x.newSlice(elems, "clone")
		}
	case strings.HasPrefix(name, "(*sync/atomic.Pointer["):
		m := fn.Name()
		return func(x *Exec, f *ssa.Function, a []Value) Value {
			p := a[0].(*Pointer) // pointer to atomic.Pointer struct; use a side table keyed by the pointer
			if x.atomicPtr == nil {
				x.atomicPtr = map[string]Value{}
			}
			k := ptrKey(p)
			cur, ok := x.atomicPtr[k]
			if !ok {
				cur = (*Pointer)(nil)
			}
			switch m {
			case "Load":
				return cur
			case "Store":
				x.atomicPtr[k] = a[1]
				return nil
			case "Swap":
				x.atomicPtr[k] = a[1]
				return cur
			case "CompareAndSwap":
				if x.branch(x.eqVal(cur, a[1])) {
					x.atomicPtr[k] = a[2]
					return tTrue
				}
				return tFalse
			}
			x.abort("UNSUPPORTED", name)
			return nil
		}
	}
	return timeIntrinsic(name, fn)
}

type decoderState struct {
	r         Value
	useNumber bool
	used      bool
}

// storeDecoded stores a decoded JSON value. Decoding an object into a map that is not nil keeps the map and its
// entries: the object's members are added to it (or overwrite the entries of the same key) — encoding/json and the
// segmentio decoder agree on that.
func (x *Exec) storeDecoded(p *Pointer, val Value, dt types.Type) {
	if _, isMap := dt.Underlying().(*types.Map); isMap {
		if old, _ := x.load(p).(*MapV); old != nil {
			if nv, _ := val.(*MapV); nv != nil {
				for _, e := range nv.Entries {
					if oe := x.mapFind(old, e.K); oe != nil && oe.Present == nil && e.Present == nil {
						oe.V = e.V
					} else {
						old.Entries = append(old.Entries, e)
					}
				}
				return
			}
		}
	}
	x.store(p, val)
}

func isStructType(t types.Type) bool {
	_, ok := t.Underlying().(*types.Struct)
	return ok
}
