package main

import (
	"fmt"
	"go/types"

	"golang.org/x/tools/go/ssa"
)

type Value interface{}

type Object struct {
	ID  int
	Val Value
	// bookkeeping
	Note string
}

type Agg struct{ Elems []Value } // struct or array value

type Pointer struct {
	Obj  *Object
	Path []int
}

type SliceV struct {
	Arr           *Object // Val is *Agg
	Off, Len, Cap int
	LenT          *Term // non-nil: opaque slice with symbolic length (elements inaccessible)
	Tag           string
}

type MapEntry struct {
	K, V    Value
	Present *Term // nil: present; otherwise present iff this condition holds (optional entry of a havoc'd map)
}
type MapV struct {
	ID      int
	Entries []*MapEntry
}

type IfaceV struct {
	T types.Type
	V Value
}

type Closure struct {
	Fn   *ssa.Function
	Bind []Value
}

type Tuple struct{ Elems []Value }

type ErrObj struct {
	ID    int
	Msg   string
	Wraps []Value // wrapped errors (IfaceV)
}

// NativeFn is a function value implemented by the engine (cancel funcs, stubs).
type NativeFn struct {
	Name string
	F    func(x *Exec, args []Value) Value
}

// CtxV is the engine's model of a context.Context (payload of an IfaceV with T == nil).
type CtxV struct {
	ID       int
	Parent   *CtxV
	Done     *ChanV // nil: never cancelled on its own (Background / WithoutCancel)
	Err      Value  // *IfaceV error once cancelled
	Cause    Value
	Key, Val Value // WithValue link
	Deadline bool
	Detached bool // WithoutCancel: does not observe the parent's cancellation
	Children []*CtxV
}

// RankStr is a string drawn from a finite constant family and the gaps between its members:
// rank 2i+1 = Consts[i] (sorted ascending), rank 2i = strictly between Consts[i-1] and Consts[i].
type RankStr struct {
	Rank   *Term
	Consts []string
}

type MapIter struct {
	M   *MapV
	Pos int
	Snap []*MapEntry
}

func copyVal(v Value) Value {
	switch v := v.(type) {
	case *Agg:
		if v == nil {
			return v
		}
		n := &Agg{Elems: make([]Value, len(v.Elems))}
		for i, e := range v.Elems {
			n.Elems[i] = copyVal(e)
		}
		return n
	}
	return v
}

func (x *Exec) newObj(v Value, note string) *Object {
	x.nobj++
	return &Object{ID: x.nobj, Val: v, Note: note}
}

func (x *Exec) zero(t types.Type) Value {
	switch t := t.Underlying().(type) {
	case *types.Basic:
		switch {
		case t.Info()&types.IsBoolean != 0:
			return mkBool(false)
		case t.Info()&types.IsInteger != 0:
			return mkInt(0)
		case t.Info()&types.IsString != 0:
			return mkStr("")
		case t.Info()&types.IsFloat != 0:
			return mkFloat(0)
		case t.Kind() == types.UnsafePointer:
			return (*Pointer)(nil)
		case t.Kind() == types.UntypedNil:
			return nil
		}
		panic(fmt.Sprintf("zero: unsupported basic %v", t))
	case *types.Pointer:
		return (*Pointer)(nil)
	case *types.Struct:
		a := &Agg{Elems: make([]Value, t.NumFields())}
		for i := range a.Elems {
			a.Elems[i] = x.zero(t.Field(i).Type())
		}
		return a
	case *types.Array:
		a := &Agg{Elems: make([]Value, t.Len())}
		for i := range a.Elems {
			a.Elems[i] = x.zero(t.Elem())
		}
		return a
	case *types.Slice:
		return (*SliceV)(nil)
	case *types.Map:
		return (*MapV)(nil)
	case *types.Interface:
		return (*IfaceV)(nil)
	case *types.Signature:
		return (*Closure)(nil)
	case *types.Chan:
		return (*ChanV)(nil)
	case *types.Tuple:
		tu := &Tuple{Elems: make([]Value, t.Len())}
		for i := range tu.Elems {
			tu.Elems[i] = x.zero(t.At(i).Type())
		}
		return tu
	}
	panic(fmt.Sprintf("zero: unsupported type %v", t))
}

func (x *Exec) load(p *Pointer) Value {
	if p == nil {
		x.abort("PANIC", "nil pointer dereference")
	}
	if x.guards != nil {
		x.checkGuardPtr(p)
	}
	v := p.Obj.Val
	for _, i := range p.Path {
		v = v.(*Agg).Elems[i]
	}
	return copyVal(v)
}

func (x *Exec) store(p *Pointer, val Value) {
	if p == nil {
		x.abort("PANIC", "nil pointer dereference (store)")
	}
	if x.guards != nil {
		x.checkGuardPtr(p)
	}
	val = copyVal(val)
	if len(p.Path) == 0 {
		p.Obj.Val = val
		return
	}
	v := p.Obj.Val
	for _, i := range p.Path[:len(p.Path)-1] {
		v = v.(*Agg).Elems[i]
	}
	v.(*Agg).Elems[p.Path[len(p.Path)-1]] = val
}

func sub(p *Pointer, i int) *Pointer {
	np := &Pointer{Obj: p.Obj, Path: make([]int, len(p.Path)+1)}
	copy(np.Path, p.Path)
	np.Path[len(p.Path)] = i
	return np
}

func isNilValue(v Value) bool {
	switch v := v.(type) {
	case nil:
		return true
	case *Pointer:
		return v == nil
	case *SliceV:
		return v == nil
	case *MapV:
		return v == nil
	case *IfaceV:
		return v == nil
	case *Closure:
		return v == nil
	case *NativeFn:
		return v == nil
	case *Object:
		return v == nil
	case *ChanV:
		return v == nil
	}
	return false
}

// eqVal returns a boolean term for a == b.
func (x *Exec) eqVal(a, b Value) *Term {
	if isNilValue(a) || isNilValue(b) {
		return mkBool(isNilValue(a) && isNilValue(b))
	}
	switch b.(type) {
	case *StrV, *RankStr:
		return x.strEq(a, b)
	}
	switch a := a.(type) {
	case *StrV, *RankStr:
		return x.strEq(a, b)
	case *CtxV:
		return mkBool(a == b.(*CtxV))
	case *NativeFn:
		return mkBool(false)
	case *Term:
		return tEq(a, b.(*Term))
	case *Pointer:
		bp, ok := b.(*Pointer)
		if !ok {
			return mkBool(false)
		}
		if a.Obj != bp.Obj || len(a.Path) != len(bp.Path) {
			return mkBool(false)
		}
		for i := range a.Path {
			if a.Path[i] != bp.Path[i] {
				return mkBool(false)
			}
		}
		return mkBool(true)
	case *IfaceV:
		bi := b.(*IfaceV)
		if (a.T == nil) != (bi.T == nil) {
			return mkBool(false)
		}
		if a.T != nil && !types.Identical(a.T, bi.T) {
			return mkBool(false)
		}
		if a.T == nil && fmt.Sprintf("%T", a.V) != fmt.Sprintf("%T", bi.V) {
			return mkBool(false)
		}
		return x.eqVal(a.V, bi.V)
	case *ErrObj:
		bo, ok := b.(*ErrObj)
		return mkBool(ok && bo == a)
	case *Agg:
		bb := b.(*Agg)
		r := mkBool(true)
		for i := range a.Elems {
			r = tAnd(r, x.eqVal(a.Elems[i], bb.Elems[i]))
		}
		return r
	case *MapV:
		return mkBool(a == b.(*MapV))
	case *Object:
		return mkBool(a == b.(*Object))
	case *ChanV:
		return mkBool(a == b.(*ChanV))
	case *Closure:
		return mkBool(false)
	}
	panic(fmt.Sprintf("eqVal: unsupported %T", a))
}
