package main

import (
	"fmt"
	"go/constant"
	"go/token"
	"go/types"
	"math/big"
	"strings"

	"golang.org/x/tools/go/ssa"
)

type ChanV struct {
	ID     int
	Closed bool
	ClosedT *Term // non-nil: closed-ness is symbolic and not yet examined on this path
	Buf    []Value
	Cap    int
	Note   string
}

type abortSig struct {
	Kind string // OK PANIC ASSUME VIOLATION UNSUPPORTED UNWIND BLOCKED DEADLOCK MERGED INCONCLUSIVE
	Msg  string
}

type specFail struct{}

type Frame struct {
	fn        *ssa.Function
	env       map[ssa.Value]Value
	block     *ssa.BasicBlock
	prev      *ssa.BasicBlock
	defers    []func()
	loopCount map[*ssa.BasicBlock]int
	result    Value
	pc        int
}

// Dec is one entry of the decision vector. Kind 'b' = solver-decided branch (not consumed in
// concrete replay), 'c' = free choice (length, vChoice, select case, scheduler).
type Dec struct {
	K byte
	V int
}

// Exec is one worker: it re-executes the entry function along a decision vector.
type Exec struct {
	eng  *Engine
	prog *ssa.Program
	sol  *Solver
	dec  []Dec
	pos  int
	nobj int
	nsym int
	syms []string
	symTags map[string]string
	globals map[*ssa.Global]*Object
	unwind  int
	// per-run logs
	reached  map[string]bool
	knownHit map[string]string // key -> witness description
	knownPath bool             // some assertion on this path failed only inside listed known-finding regions
	params   map[string]int
	hooks    map[string][2]Value
	inHook   bool
	spawned  []func()
	spawnedNames []string
	tokens   []Value // opaque encoder tokens (base64 etc.)
	syncMaps map[string]*MapV // contents of sync.Map objects
	syncPools map[string][]Value // stashes of sync.Pool objects
	timerResets map[string]int // re-arm count of default-model timers
	decoders  map[string]*decoderState // internal/json.Decoder objects
	jsonExact bool // numbers decoded into `any` stay exact (UseNumber)
	shared   map[string]bool
	regions  map[string][]knownRegion
	allowPanic []string
	funcsSeen map[*ssa.Function]bool
	randN    int
	rvalues  map[*Agg]Value // reflect.Value objects created by the model -> what they hold
	inJSONMethod map[*ssa.Function]bool // custom (Un)MarshalJSON methods being run by the JSON model (no re-entry)
	blocksSeen map[*ssa.BasicBlock]bool
	spec     bool // speculative (fork-free) evaluation
	pr       *pathReport
	lastFoldOK bool
	concrete map[string]string // replay: symbol tag#occurrence -> value
	tagCount map[string]int
	// scheduler
	gs                  []*G
	cur                 *G
	locks               map[string]*lockState
	seqLocks            map[string]int
	wg                  map[string]int
	atomicPtr           map[string]Value
	lastNow             *Term
	guards              []guardEntry
	ufMemo              map[string][]*Term
	goInline            []string
	decided             map[string]bool
	prefixLen           int
	gapMemo             map[string]*Term
	epoch               int
	pending             *abortSig
	preempt, maxPreempt int
	sched               bool
	memoOn              bool
	trace               bool
	lenient             bool
	extSeen             map[string]int
	// stats
	Branches, Merged, NoMerge int
	ctxN int
	strTokN int
}

type knownRegion struct {
	key  string
	cond *Term
}

func (x *Exec) abort(kind, msg string) { panic(abortSig{kind, msg}) }

// ---------------------------------------------------------------- decisions

// choose picks one of n alternatives. feas(i) is consulted only for new decisions.
func (x *Exec) choose(kind byte, n int, feas func(i int) bool) int {
	if x.spec {
		panic(specFail{})
	}
	if x.pos < len(x.dec) {
		d := x.dec[x.pos]
		x.pos++
		if d.V >= n || d.K != kind {
			x.abort("INCONCLUSIVE", fmt.Sprintf("replay mismatch at %d: have %c%d want kind %c n=%d", x.pos-1, d.K, d.V, kind, n))
		}
		return d.V
	}
	var ok []int
	for i := 0; i < n; i++ {
		if feas == nil || feas(i) {
			ok = append(ok, i)
		}
	}
	if len(ok) == 0 {
		x.abort("ASSUME", "no feasible alternative")
	}
	if len(ok) > 1 {
		x.eng.noteFork(x)
	}
	for _, alt := range ok[1:] {
		p := make([]Dec, len(x.dec)+1)
		copy(p, x.dec)
		p[len(x.dec)] = Dec{kind, alt}
		x.eng.push(p)
	}
	x.dec = append(x.dec, Dec{kind, ok[0]})
	x.pos++
	return ok[0]
}

// sat asks whether pc ∧ t is satisfiable; unknown counts as feasible.
func (x *Exec) sat(t *Term) bool {
	if t.IsConc() {
		return t.C.(bool)
	}
	r := x.sol.CheckWith(t)
	if strings.HasPrefix(r, "error:") {
		x.abort("INCONCLUSIVE", "solver "+r+" on "+t.E)
	}
	if r == "unknown" {
		x.eng.noteUnknown(t.E)
	}
	return r != "unsat"
}

// branch decides a boolean term, asserting the chosen side in the solver.
func (x *Exec) branch(c *Term) bool {
	if c.IsConc() {
		return c.C.(bool)
	}
	if v, ok := x.decided[c.E]; ok {
		return v // this very condition was already decided on this path
	}
	x.Branches++
	k := x.choose('b', 2, func(i int) bool {
		if i == 1 {
			return x.sat(tNot(c))
		}
		return x.sat(c)
	})
	if k == 0 {
		x.sol.Assert(c)
		x.decided[c.E] = true
		return true
	}
	x.sol.Assert(tNot(c))
	x.decided[c.E] = false
	return false
}

// assume restricts the path to c; returns false if infeasible.
func (x *Exec) assume(c *Term) bool {
	if c.IsConc() {
		return c.C.(bool)
	}
	if x.spec {
		panic(specFail{})
	}
	if x.pos < x.prefixLen && x.concrete == nil {
		// replaying an inherited prefix: the forking path passed this assumption under the same path condition
		x.sol.Assert(c)
		return true
	}
	if !x.sat(c) {
		return false
	}
	x.sol.Assert(c)
	return true
}

func (x *Exec) fresh(tag string, s Sort) *Term {
	if x.spec {
		panic(specFail{})
	}
	x.tagCount[tag]++
	key := fmt.Sprintf("%s#%d", tag, x.tagCount[tag])
	if x.concrete != nil {
		v, ok := x.concrete[key]
		if !ok {
			v = ""
		}
		return concFromModel(v, s)
	}
	x.nsym++
	n := fmt.Sprintf("%s!%d", sanitize(tag), x.nsym)
	x.sol.Declare(n, s)
	x.syms = append(x.syms, n)
	x.symTags[n] = key
	return &Term{S: s, E: n}
}

func concFromModel(v string, s Sort) *Term {
	switch s {
	case SBool:
		return mkBool(v == "true")
	case SInt:
		b, ok := new(big.Int).SetString(strings.ReplaceAll(v, " ", ""), 10)
		if !ok {
			return mkInt(0)
		}
		return mkBig(b)
	case SFloat:
		return floatFromModel(v)
	}
	return mkStr(v)
}

func sanitize(s string) string {
	var b strings.Builder
	for _, c := range s {
		if c >= 'a' && c <= 'z' || c >= 'A' && c <= 'Z' || c >= '0' && c <= '9' || c == '_' {
			b.WriteRune(c)
		} else {
			b.WriteByte('_')
		}
	}
	return b.String()
}

// ---------------------------------------------------------------- running

func (x *Exec) get(fr *Frame, v ssa.Value) Value {
	switch v := v.(type) {
	case *ssa.Const:
		return x.constVal(v)
	case *ssa.Global:
		return &Pointer{Obj: x.global(v)}
	case *ssa.Function:
		return &Closure{Fn: v}
	case *ssa.Builtin:
		return v
	}
	if r, ok := fr.env[v]; ok {
		return r
	}
	panic(fmt.Sprintf("get: no value for %s (%T) in %s", v.Name(), v, fr.fn))
}

func (x *Exec) constVal(c *ssa.Const) Value {
	t := c.Type().Underlying()
	if c.Value == nil {
		return x.zero(c.Type())
	}
	if b, ok := t.(*types.Basic); ok {
		switch {
		case b.Info()&types.IsBoolean != 0:
			return mkBool(constant.BoolVal(c.Value))
		case b.Info()&types.IsInteger != 0:
			if i, ok := constant.Int64Val(constant.ToInt(c.Value)); ok {
				return mkInt(i)
			}
			bi, _ := new(big.Int).SetString(constant.ToInt(c.Value).ExactString(), 10)
			return mkBig(bi)
		case b.Info()&types.IsString != 0:
			return mkStr(constant.StringVal(c.Value))
		case b.Info()&types.IsFloat != 0:
			f, _ := constant.Float64Val(c.Value)
			return mkFloat(f)
		}
	}
	panic(fmt.Sprintf("const: unsupported %v : %v", c, c.Type()))
}

// fnPkg returns the package a function belongs to (instantiations of generics and wrappers have Pkg == nil).
func fnPkg(fn *ssa.Function) *ssa.Package {
	for fn != nil {
		if fn.Pkg != nil {
			return fn.Pkg
		}
		if o := fn.Origin(); o != nil && o != fn {
			fn = o
			continue
		}
		fn = fn.Parent()
	}
	return nil
}

func (x *Exec) inModule(p *ssa.Package) bool {
	return p != nil && strings.HasPrefix(p.Pkg.Path(), x.eng.modPath)
}

func (x *Exec) global(g *ssa.Global) *Object {
	if o, ok := x.globals[g]; ok {
		return o
	}
	et := g.Type().(*types.Pointer).Elem()
	var val Value
	if types.Identical(et, errType) && !x.inModule(g.Pkg) {
		// sentinel error of a package whose init is not run (io.EOF, context.Canceled, ...)
		x.nobj++
		val = &IfaceV{T: nil, V: &ErrObj{ID: x.nobj, Msg: g.Pkg.Pkg.Name() + "." + g.Name()}}
	} else {
		if !x.inModule(g.Pkg) && !x.lenient && !x.eng.okGlobal(g) {
			x.abort("UNSUPPORTED", "global of uninitialised package: "+g.String())
		}
		val = x.zero(et)
	}
	o := x.newObj(val, "global "+g.Name())
	x.globals[g] = o
	return o
}

var errType = types.Universe.Lookup("error").Type()

func zeroResult(x *Exec, sig *types.Signature) Value {
	res := sig.Results()
	switch res.Len() {
	case 0:
		return nil
	case 1:
		return x.zero(res.At(0).Type())
	}
	return x.zero(res)
}

func (x *Exec) call(fn *ssa.Function, args []Value, bind []Value) Value {
	if h := x.eng.intrinsic(fn); h != nil {
		return h(x, fn, args)
	}
	if x.lenient && !x.inModule(fnPkg(fn)) {
		x.extSeen[fn.String()]++
		return zeroResult(x, fn.Signature)
	}
	if fn.Blocks == nil {
		x.abort("UNSUPPORTED", "external function "+fn.String())
	}
	g := x.cur
	g.depth++
	if g.depth > 300 {
		x.abort("UNSUPPORTED", "call depth")
	}
	if !x.funcsSeen[fn] {
		x.funcsSeen[fn] = true
	}
	fr := &Frame{fn: fn, env: make(map[ssa.Value]Value, 16), loopCount: map[*ssa.BasicBlock]int{}}
	for i, p := range fn.Params {
		fr.env[p] = args[i]
	}
	for i, fv := range fn.FreeVars {
		fr.env[fv] = bind[i]
	}
	fr.block = fn.Blocks[0]
	g.frames = append(g.frames, fr)
	for fr.block != nil {
		x.runBlock(fr)
	}
	g.frames = g.frames[:len(g.frames)-1]
	g.depth--
	return fr.result
}

func (x *Exec) callValue(f Value, args []Value) Value {
	switch f := f.(type) {
	case *Closure:
		if f == nil {
			x.abort("PANIC", "call of nil func")
		}
		return x.call(f.Fn, args, f.Bind)
	case *NativeFn:
		if f == nil {
			x.abort("PANIC", "call of nil func")
		}
		return f.F(x, args)
	}
	panic(fmt.Sprintf("callValue: %T", f))
}

func (x *Exec) runBlock(fr *Frame) {
	b := fr.block
	if x.blocksSeen != nil {
		x.blocksSeen[b] = true
	}
	if len(b.Preds) > 1 {
		fr.loopCount[b]++
		if fr.loopCount[b] > x.unwind {
			x.abort("UNWIND", fmt.Sprintf("%s block %d", fr.fn, b.Index))
		}
	}
	// parallel phi
	nphi := 0
	var phiv []Value
	for _, in := range b.Instrs {
		p, ok := in.(*ssa.Phi)
		if !ok {
			break
		}
		nphi++
		for i, pred := range b.Preds {
			if pred == fr.prev {
				phiv = append(phiv, x.get(fr, p.Edges[i]))
				break
			}
		}
	}
	for i := 0; i < nphi; i++ {
		fr.env[b.Instrs[i].(*ssa.Phi)] = phiv[i]
	}
	for i, in := range b.Instrs[nphi:] {
		fr.pc = nphi + i + 1
		if x.trace {
			fmt.Printf("    g%d %s: %v\n", x.cur.id, fr.fn.Name(), in)
		}
		switch in := in.(type) {
		case *ssa.If:
			c := x.get(fr, in.Cond).(*Term)
			if !c.IsConc() && x.tryFold(fr, b, c) {
				return
			}
			fr.prev = b
			if x.branch(c) {
				fr.block = b.Succs[0]
			} else {
				fr.block = b.Succs[1]
			}
			return
		case *ssa.Jump:
			fr.prev = b
			fr.block = b.Succs[0]
			return
		case *ssa.Return:
			switch len(in.Results) {
			case 0:
			case 1:
				fr.result = x.get(fr, in.Results[0])
			default:
				t := &Tuple{}
				for _, r := range in.Results {
					t.Elems = append(t.Elems, x.get(fr, r))
				}
				fr.result = t
			}
			fr.block = nil
			return
		case *ssa.Panic:
			v := x.get(fr, in.X)
			x.abort("PANIC", x.describe(v))
		case *ssa.RunDefers:
			x.runDefers(fr)
		default:
			x.step(fr, in)
		}
	}
}

// tryFold performs if-conversion of a pure, tree-shaped region: starting at the conditional branch that
// ends block b, both arms are evaluated speculatively (no forks, no side effects) through single-predecessor
// blocks containing only pure instructions, until every chain arrives at one common join block J. The phis of
// J then become nested ite terms and execution continues in J without splitting the path. This covers
// `a && b`, `a || b`, `if a && b { x += c }`, min/max and nil-guard patterns, including nesting.
func pureInstr(in ssa.Instruction) bool {
	switch in := in.(type) {
	case *ssa.BinOp, *ssa.Field, *ssa.Extract, *ssa.ChangeType, *ssa.FieldAddr, *ssa.DebugRef, *ssa.Convert, *ssa.Index, *ssa.IndexAddr, *ssa.MakeInterface, *ssa.ChangeInterface, *ssa.Slice:
		return true
	case *ssa.UnOp:
		return in.Op != token.ARROW
	case *ssa.Call:
		if bi, ok := in.Call.Value.(*ssa.Builtin); ok && (bi.Name() == "len" || bi.Name() == "cap") {
			return true
		}
		if f := in.Call.StaticCallee(); f != nil {
			switch f.Name() {
			case "vIsClosed", "vChanLen", "vSame", "vTimeNs", "vMapHas", "vIsSymbolic":
				return true // side-effect-free harness intrinsics
			}
		}
	}
	return false
}

// ipdoms computes immediate post-dominators of fn's blocks (nil = the virtual exit).
func ipdoms(fn *ssa.Function) map[*ssa.BasicBlock]*ssa.BasicBlock {
	n := len(fn.Blocks)
	// pdom[i] as bitset over n blocks (+1 for virtual exit, implicit)
	words := (n + 63) / 64
	full := make([]uint64, words)
	for i := 0; i < n; i++ {
		full[i/64] |= 1 << uint(i%64)
	}
	pd := make([][]uint64, n)
	for i, b := range fn.Blocks {
		pd[i] = make([]uint64, words)
		if len(b.Succs) == 0 {
			pd[i][i/64] |= 1 << uint(i%64)
		} else {
			copy(pd[i], full)
		}
	}
	for changed := true; changed; {
		changed = false
		for i := n - 1; i >= 0; i-- {
			b := fn.Blocks[i]
			if len(b.Succs) == 0 {
				continue
			}
			nw := make([]uint64, words)
			copy(nw, full)
			for _, s := range b.Succs {
				for w := range nw {
					nw[w] &= pd[s.Index][w]
				}
			}
			nw[i/64] |= 1 << uint(i%64)
			for w := range nw {
				if nw[w] != pd[i][w] {
					changed = true
				}
			}
			pd[i] = nw
		}
	}
	count := func(bs []uint64) int {
		c := 0
		for _, w := range bs {
			for ; w != 0; w &= w - 1 {
				c++
			}
		}
		return c
	}
	res := map[*ssa.BasicBlock]*ssa.BasicBlock{}
	for i, b := range fn.Blocks {
		best, bestN := -1, -1
		for j := 0; j < n; j++ {
			if j != i && pd[i][j/64]&(1<<uint(j%64)) != 0 {
				if c := count(pd[j]); c > bestN {
					best, bestN = j, c
				}
			}
		}
		if best >= 0 {
			res[b] = fn.Blocks[best]
		}
	}
	return res
}

func (e *Engine) ipdom(b *ssa.BasicBlock) *ssa.BasicBlock {
	fn := b.Parent()
	v, ok := e.pdomCache.Load(fn)
	if !ok {
		v, _ = e.pdomCache.LoadOrStore(fn, ipdoms(fn))
	}
	return v.(map[*ssa.BasicBlock]*ssa.BasicBlock)[b]
}

type foldEdge struct {
	from *ssa.BasicBlock
	cond *Term
}

func (x *Exec) tryFold(fr *Frame, b *ssa.BasicBlock, c *Term) bool {
	if x.eng.noFold || x.eng.foldHopeless(b) {
		return false
	}
	join := x.eng.ipdom(b)
	if join == nil {
		x.eng.foldResult(b, false)
		return false
	}
	// region = blocks reachable from b's successors without passing through join
	region := map[*ssa.BasicBlock]bool{}
	var order []*ssa.BasicBlock
	okRegion := true
	var dfs func(blk *ssa.BasicBlock)
	dfs = func(blk *ssa.BasicBlock) {
		if blk == join || region[blk] || !okRegion {
			return
		}
		if blk == b || len(region) >= 10 {
			okRegion = false
			return
		}
		n := len(blk.Instrs)
		for _, in := range blk.Instrs[:n-1] {
			if _, isPhi := in.(*ssa.Phi); isPhi {
				continue
			}
			if !pureInstr(in) {
				okRegion = false
				return
			}
		}
		switch blk.Instrs[n-1].(type) {
		case *ssa.Jump, *ssa.If:
		default:
			okRegion = false
			return
		}
		region[blk] = true
		order = append(order, blk)
		for _, s := range blk.Succs {
			dfs(s)
		}
	}
	for _, s := range b.Succs {
		dfs(s)
	}
	if !okRegion {
		x.eng.foldResult(b, false)
		return false
	}
	// topological order (Kahn) over region, in-degree counted over edges from region ∪ {b}
	indeg := map[*ssa.BasicBlock]int{}
	for blk := range region {
		for _, p := range blk.Preds {
			if p == b || region[p] {
				indeg[blk]++
			}
		}
	}
	in := map[*ssa.BasicBlock][]foldEdge{}
	addEdge := func(from, to *ssa.BasicBlock, cond *Term) {
		if cond.IsConc() && !cond.C.(bool) {
			// edge not taken; still counts for the in-degree bookkeeping
		} else {
			in[to] = append(in[to], foldEdge{from, cond})
		}
		if region[to] {
			indeg[to]--
		}
	}
	mergePhis := func(blk *ssa.BasicBlock, edges []foldEdge) (int, bool) {
		nphi := 0
		var phis []*ssa.Phi
		var vals []Value
		for _, inst := range blk.Instrs {
			p, isPhi := inst.(*ssa.Phi)
			if !isPhi {
				break
			}
			nphi++
			var acc Value
			for k := len(edges) - 1; k >= 0; k-- {
				ed := edges[k]
				var v Value
				for i, pred := range blk.Preds {
					if pred == ed.from {
						v = x.get(fr, p.Edges[i])
						break
					}
				}
				if acc == nil {
					acc = v
					continue
				}
				ta, ok1 := acc.(*Term)
				tv, ok2 := v.(*Term)
				if ok1 && ok2 && ta.S == tv.S && (tv.S == SBool || tv.S == SInt) {
					acc = tIte(ed.cond, tv, ta)
					continue
				}
				if sameValue(acc, v) {
					continue
				}
				return 0, false
			}
			phis = append(phis, p)
			vals = append(vals, acc)
		}
		for i, p := range phis {
			fr.env[p] = vals[i]
		}
		return nphi, true
	}
	ok := func() (ok bool) {
		x.spec = true
		defer func() {
			x.spec = false
			if r := recover(); r != nil {
				if _, is := r.(specFail); is {
					ok = false
					return
				}
				if a, is := r.(abortSig); is && (a.Kind == "PANIC" || a.Kind == "UNSUPPORTED") {
					ok = false
					return
				}
				panic(r)
			}
		}()
		addEdge(b, b.Succs[0], c)
		addEdge(b, b.Succs[1], tNot(c))
		done := map[*ssa.BasicBlock]bool{}
		for progress := true; progress; {
			progress = false
			for _, blk := range order {
				if done[blk] || indeg[blk] > 0 {
					continue
				}
				done[blk] = true
				progress = true
				edges := in[blk]
				if len(edges) == 0 {
					// unreachable under the current (concrete) conditions: propagate nothing
					for _, s := range blk.Succs {
						if region[s] {
							indeg[s]--
						}
					}
					continue
				}
				cond := tFalse
				for _, ed := range edges {
					cond = tOr(cond, ed.cond)
				}
				nphi, ok := mergePhis(blk, edges)
				if !ok {
					return false
				}
				if x.blocksSeen != nil {
					x.blocksSeen[blk] = true
				}
				n := len(blk.Instrs)
				for _, inst := range blk.Instrs[nphi : n-1] {
					x.step(fr, inst)
				}
				switch t := blk.Instrs[n-1].(type) {
				case *ssa.Jump:
					addEdge(blk, blk.Succs[0], cond)
				case *ssa.If:
					ct, isT := x.get(fr, t.Cond).(*Term)
					if !isT {
						return false
					}
					addEdge(blk, blk.Succs[0], tAnd(cond, ct))
					addEdge(blk, blk.Succs[1], tAnd(cond, tNot(ct)))
				}
			}
		}
		for _, blk := range order {
			if !done[blk] {
				return false // cycle inside the region
			}
		}
		return true
	}()
	if !ok || len(in[join]) == 0 {
		x.eng.foldResult(b, false)
		return false
	}
	nphi, okPhi := mergePhis(join, in[join])
	if !okPhi {
		x.eng.foldResult(b, false)
		return false
	}
	fr.prev = in[join][0].from
	fr.block = join
	x.eng.foldResult(b, true)
	x.runBlockFrom(fr, join, nphi)
	return true
}

// sameValue: identical non-term values (same pointer / same concrete scalar) may be merged without an ite.
func sameValue(a, b Value) bool {
	switch a := a.(type) {
	case *Term:
		tb, ok := b.(*Term)
		return ok && a.S == tb.S && a.E == tb.E
	case *Pointer:
		pb, ok := b.(*Pointer)
		if !ok || (a == nil) != (pb == nil) {
			return false
		}
		if a == nil {
			return true
		}
		if a.Obj != pb.Obj || len(a.Path) != len(pb.Path) {
			return false
		}
		for i := range a.Path {
			if a.Path[i] != pb.Path[i] {
				return false
			}
		}
		return true
	}
	return false
}

// runBlockFrom executes block b starting after nphi phi nodes (which the caller has set).
func (x *Exec) runBlockFrom(fr *Frame, b *ssa.BasicBlock, nphi int) {
	if x.blocksSeen != nil {
		x.blocksSeen[b] = true
	}
	if len(b.Preds) > 1 {
		fr.loopCount[b]++
		if fr.loopCount[b] > x.unwind {
			x.abort("UNWIND", fmt.Sprintf("%s block %d", fr.fn, b.Index))
		}
	}
	for i, in := range b.Instrs[nphi:] {
		fr.pc = nphi + i + 1
		switch in := in.(type) {
		case *ssa.If:
			c := x.get(fr, in.Cond).(*Term)
			if !c.IsConc() && x.tryFold(fr, b, c) {
				return
			}
			fr.prev = b
			if x.branch(c) {
				fr.block = b.Succs[0]
			} else {
				fr.block = b.Succs[1]
			}
			return
		case *ssa.Jump:
			fr.prev = b
			fr.block = b.Succs[0]
			return
		case *ssa.Return:
			switch len(in.Results) {
			case 0:
			case 1:
				fr.result = x.get(fr, in.Results[0])
			default:
				t := &Tuple{}
				for _, r := range in.Results {
					t.Elems = append(t.Elems, x.get(fr, r))
				}
				fr.result = t
			}
			fr.block = nil
			return
		case *ssa.Panic:
			x.abort("PANIC", x.describe(x.get(fr, in.X)))
		case *ssa.RunDefers:
			x.runDefers(fr)
		default:
			x.step(fr, in)
		}
	}
}

func (x *Exec) runDefers(fr *Frame) {
	for len(fr.defers) > 0 {
		d := fr.defers[len(fr.defers)-1]
		fr.defers = fr.defers[:len(fr.defers)-1]
		d()
	}
}

func (x *Exec) describe(v Value) string {
	if i, ok := v.(*IfaceV); ok && i != nil {
		if t, ok := i.V.(*Term); ok {
			if t.IsConc() {
				return fmt.Sprint(t.C)
			}
			return t.E
		}
		if e, ok := i.V.(*ErrObj); ok {
			return "error:" + e.Msg
		}
		return fmt.Sprintf("%v", i.V)
	}
	return fmt.Sprintf("%v", v)
}

func (x *Exec) step(fr *Frame, in ssa.Instruction) {
	switch in := in.(type) {
	case *ssa.Alloc:
		o := x.newObj(x.zero(in.Type().(*types.Pointer).Elem()), in.Comment)
		fr.env[in] = &Pointer{Obj: o}
	case *ssa.UnOp:
		fr.env[in] = x.unop(fr, in)
	case *ssa.BinOp:
		fr.env[in] = x.binop(in.Op, x.get(fr, in.X), x.get(fr, in.Y), in.X.Type(), in.Type())
	case *ssa.Store:
		x.store(x.get(fr, in.Addr).(*Pointer), x.get(fr, in.Val))
	case *ssa.FieldAddr:
		p := x.get(fr, in.X).(*Pointer)
		if p == nil {
			x.abort("PANIC", "nil pointer dereference (field "+in.String()+" in "+fr.fn.String()+")")
		}
		fr.env[in] = sub(p, in.Field)
	case *ssa.Field:
		fr.env[in] = copyVal(x.get(fr, in.X).(*Agg).Elems[in.Field])
	case *ssa.IndexAddr:
		switch base := x.get(fr, in.X).(type) {
		case *Pointer:
			if base == nil {
				x.abort("PANIC", "nil pointer dereference (array index)")
			}
			n := len(x.loadAgg(base).Elems)
			idx := x.concIndex(x.get(fr, in.Index), n, "array index")
			fr.env[in] = sub(base, idx)
		case *SliceV:
			n := 0
			if base != nil {
				if base.LenT != nil {
					x.abort("UNSUPPORTED", "indexing opaque slice "+base.Tag)
				}
				n = base.Len
			}
			idx := x.concIndex(x.get(fr, in.Index), n, "slice index")
			fr.env[in] = &Pointer{Obj: base.Arr, Path: []int{base.Off + idx}}
		default:
			panic("IndexAddr base")
		}
	case *ssa.Index:
		switch base := x.get(fr, in.X).(type) {
		case *Agg:
			idx := x.concIndex(x.get(fr, in.Index), len(base.Elems), "array index")
			fr.env[in] = copyVal(base.Elems[idx])
		case *StrV, *Term:
			sv := x.toStrV(base)
			idx := x.concIndex(x.get(fr, in.Index), len(sv.B), "string index")
			fr.env[in] = sv.B[idx]
		default:
			x.abort("UNSUPPORTED", "Index on "+fmt.Sprintf("%T", base))
		}
	case *ssa.Call:
		fr.env[in] = x.doCall(fr, in.Common())
	case *ssa.Defer:
		c := in.Common()
		fn, args := x.prepCall(fr, c)
		fr.defers = append(fr.defers, func() { fn(args) })
	case *ssa.MakeClosure:
		cl := &Closure{Fn: in.Fn.(*ssa.Function)}
		for _, b := range in.Bindings {
			cl.Bind = append(cl.Bind, x.get(fr, b))
		}
		fr.env[in] = cl
	case *ssa.MakeInterface:
		fr.env[in] = &IfaceV{T: in.X.Type(), V: x.get(fr, in.X)}
	case *ssa.ChangeInterface:
		fr.env[in] = x.get(fr, in.X)
	case *ssa.ChangeType:
		fr.env[in] = x.get(fr, in.X)
	case *ssa.Convert:
		fr.env[in] = x.convert(x.get(fr, in.X), in.X.Type(), in.Type())
	case *ssa.MultiConvert:
		fr.env[in] = x.convert(x.get(fr, in.X), in.X.Type(), in.Type())
	case *ssa.Extract:
		fr.env[in] = x.get(fr, in.Tuple).(*Tuple).Elems[in.Index]
	case *ssa.MakeChan:
		x.nobj++
		fr.env[in] = &ChanV{ID: x.nobj, Cap: x.concInt(x.get(fr, in.Size), 0, 8, "chan size")}
	case *ssa.Go:
		c := in.Common()
		name := "?"
		if f := c.StaticCallee(); f != nil {
			name = f.String()
		}
		fn, args := x.prepCall(fr, c)
		inline := false
		for _, s := range x.goInline {
			if strings.Contains(name, s) {
				inline = true
			}
		}
		if inline {
			fn(args)
		} else if x.sched {
			x.spawn(func() { fn(args) })
		} else {
			x.spawnedNames = append(x.spawnedNames, name)
			x.spawned = append(x.spawned, func() { fn(args) })
		}
	case *ssa.Select:
		x.doSelect(fr, in)
	case *ssa.Send:
		ch := x.get(fr, in.Chan).(*ChanV)
		if ch == nil {
			x.abort("BLOCKED", "send on nil channel")
		}
		if x.chClosed(ch) {
			x.abort("PANIC", "send on closed channel")
		}
		if ch.Cap == 0 && x.sched {
			// unbuffered: a rendezvous — the value is offered, and the sender goes on once a receiver has taken it
			me := x.cur
			for len(ch.Buf) > 0 {
				me.blocked = func() bool { return len(ch.Buf) > 0 && !ch.Closed }
				x.yield()
				me.blocked = nil
				if ch.Closed {
					x.abort("PANIC", "send on closed channel")
				}
			}
			ch.Buf = append(ch.Buf, x.get(fr, in.X))
			for len(ch.Buf) > 0 && !ch.Closed {
				me.blocked = func() bool { return len(ch.Buf) > 0 && !ch.Closed }
				x.yield()
				me.blocked = nil
			}
			break
		}
		for len(ch.Buf) >= ch.Cap {
			if !x.sched {
				x.abort("BLOCKED", "send on full channel "+ch.Note)
			}
			me := x.cur
			me.blocked = func() bool { return len(ch.Buf) >= ch.Cap && !ch.Closed }
			x.yield()
			me.blocked = nil
			if ch.Closed {
				x.abort("PANIC", "send on closed channel")
			}
		}
		ch.Buf = append(ch.Buf, x.get(fr, in.X))
	case *ssa.MakeMap:
		x.nobj++
		fr.env[in] = &MapV{ID: x.nobj}
	case *ssa.MakeSlice:
		n := x.concInt(x.get(fr, in.Len), 0, 64, "make len")
		c := x.concInt(x.get(fr, in.Cap), 0, 64, "make cap")
		et := in.Type().Underlying().(*types.Slice).Elem()
		a := &Agg{Elems: make([]Value, c)}
		for i := range a.Elems {
			a.Elems[i] = x.zero(et)
		}
		fr.env[in] = &SliceV{Arr: x.newObj(a, "makeslice"), Len: n, Cap: c}
	case *ssa.MapUpdate:
		m := x.get(fr, in.Map).(*MapV)
		if m == nil {
			x.abort("PANIC", "assignment to entry in nil map")
		}
		k := x.get(fr, in.Key)
		v := x.get(fr, in.Value)
		if e := x.mapFind(m, k); e != nil {
			e.V = copyVal(v)
		} else {
			m.Entries = append(m.Entries, &MapEntry{K: k, V: copyVal(v)})
		}
	case *ssa.Lookup:
		fr.env[in] = x.lookup(fr, in)
	case *ssa.Range:
		if _, isStr := in.X.Type().Underlying().(*types.Basic); isStr {
			fr.env[in] = &StrIter{S: x.toStrV(x.get(fr, in.X))}
			break
		}
		m := x.get(fr, in.X).(*MapV)
		it := &MapIter{M: m}
		if m != nil && x.guards != nil {
			x.checkGuardObj(m)
		}
		if m != nil {
			it.Snap = append(it.Snap, m.Entries...)
			if x.eng.mapOrderFork && len(it.Snap) > 1 && len(it.Snap) <= 3 {
				it.Snap = x.permute(it.Snap)
			}
		}
		fr.env[in] = it
	case *ssa.Next:
		x.doNext(fr, in)
	case *ssa.Slice:
		fr.env[in] = x.slice(fr, in)
	case *ssa.TypeAssert:
		fr.env[in] = x.typeAssert(fr, in)
	case *ssa.SliceToArrayPointer:
		s := x.get(fr, in.X).(*SliceV)
		n := int(in.Type().(*types.Pointer).Elem().Underlying().(*types.Array).Len())
		if s == nil {
			if n == 0 {
				fr.env[in] = (*Pointer)(nil)
				break
			}
			x.abort("PANIC", "slice to array pointer: length")
		}
		if s.Len < n {
			x.abort("PANIC", "slice to array pointer: length")
		}
		x.abort("UNSUPPORTED", "SliceToArrayPointer")
	case *ssa.DebugRef:
	default:
		x.abort("UNSUPPORTED", fmt.Sprintf("instruction %T: %v", in, in))
	}
}

func (x *Exec) permute(es []*MapEntry) []*MapEntry {
	n := len(es)
	out := make([]*MapEntry, 0, n)
	rest := append([]*MapEntry{}, es...)
	for len(rest) > 1 {
		k := x.choose('c', len(rest), nil)
		out = append(out, rest[k])
		rest = append(rest[:k:k], rest[k+1:]...)
	}
	return append(out, rest...)
}

func (x *Exec) doNext(fr *Frame, in *ssa.Next) {
	if si, ok := x.get(fr, in.Iter).(*StrIter); ok {
		if si.Pos >= len(si.S.B) {
			fr.env[in] = &Tuple{Elems: []Value{mkBool(false), mkInt(0), mkInt(0)}}
			return
		}
		b := si.S.B[si.Pos]
		idx := si.Pos
		si.Pos++
		var r *Term
		if b.IsConc() && b.C.(int64) >= 1000 {
			// opaque encoder token (decimal digits, base64 text, ...): some printable non-blank ASCII character
			r = x.fresh("tokrune", SInt)
			if !r.IsConc() {
				x.sol.Assert(tLe(mkInt(0x21), r))
				x.sol.Assert(tLe(r, mkInt(0x7E)))
			}
		} else if x.branch(tLt(b, mkInt(128))) {
			r = b
		} else {
			// non-ASCII lead byte: the decoded rune is >= 0x80 (RuneError or a multi-byte rune);
			// approximation: width 1 (kernels here only classify such runes as "not ASCII").
			r = x.fresh("rune", SInt)
			x.sol.Assert(tLe(mkInt(128), r))
			x.sol.Assert(tLe(r, mkInt(0x10FFFF)))
		}
		fr.env[in] = &Tuple{Elems: []Value{mkBool(true), mkInt(int64(idx)), r}}
		return
	}
	it := x.get(fr, in.Iter).(*MapIter)
	for it.Pos < len(it.Snap) {
		e := it.Snap[it.Pos]
		if !x.mapHas(it.M, e) {
			it.Pos++
			continue
		}
		if e.Present != nil {
			p := e.Present
			if x.branch(p) {
				e.Present = nil
			} else {
				x.mapRemove(it.M, e) // absent on this path
				it.Pos++
				continue
			}
		}
		break
	}
	mt := in.Iter.(*ssa.Range).X.Type().Underlying().(*types.Map)
	if it.Pos >= len(it.Snap) {
		fr.env[in] = &Tuple{Elems: []Value{mkBool(false), x.zero(mt.Key()), x.zero(mt.Elem())}}
	} else {
		e := it.Snap[it.Pos]
		it.Pos++
		fr.env[in] = &Tuple{Elems: []Value{mkBool(true), e.K, copyVal(e.V)}}
	}
}

// chClosed resolves (and from then on fixes) the closed flag of ch on this path.
func (x *Exec) chClosed(ch *ChanV) bool {
	if ch.ClosedT != nil {
		t := ch.ClosedT
		ch.ClosedT = nil
		ch.Closed = x.branch(t)
	}
	return ch.Closed
}

func (x *Exec) chanReadyRecv(ch *ChanV) bool { return ch != nil && (len(ch.Buf) > 0 || x.chClosed(ch)) }

func (x *Exec) doSelect(fr *Frame, in *ssa.Select) {
	if x.sched && in.Blocking {
		x.yield() // a select is a scheduling point: another goroutine may run before readiness is looked at
	}
	withdrawn := -1
	ready := func() []int {
		var r []int
		for i, st := range in.States {
			ch, _ := x.get(fr, st.Chan).(*ChanV)
			if ch == nil {
				continue
			}
			if st.Dir == types.RecvOnly && x.chanReadyRecv(ch) {
				r = append(r, i)
			}
			if st.Dir == types.SendOnly && (len(ch.Buf) < ch.Cap || x.chClosed(ch)) {
				r = append(r, i)
			} else if st.Dir == types.SendOnly && ch.Cap == 0 && x.sched && len(ch.Buf) == 0 && i != withdrawn {
				r = append(r, i) // unbuffered: the value can be offered (see below)
			}
		}
		return r
	}
	rd := ready()
	idx := -1
	if len(rd) == 0 && in.Blocking {
		if !x.sched {
			x.abort("BLOCKED", "select with no ready case in "+fr.fn.String())
		}
		me := x.cur
		for len(rd) == 0 {
			me.blocked = func() bool { return len(ready()) == 0 }
			x.yield()
			me.blocked = nil
			rd = ready()
		}
	}
	if len(rd) > 0 {
		idx = rd[x.choose('c', len(rd), nil)]
	}
	offered := false
	if idx >= 0 && x.sched && in.States[idx].Dir == types.SendOnly {
		if ch := x.get(fr, in.States[idx].Chan).(*ChanV); ch.Cap == 0 && !ch.Closed {
			// a send case on an unbuffered channel is a rendezvous: the value is offered; the case is taken once a
			// receiver has it. If another case becomes ready first, the offer is withdrawn and that case is taken.
			me := x.cur
			ch.Buf = append(ch.Buf, x.get(fr, in.States[idx].Send))
			others := func() []int {
				withdrawn = idx
				r := ready()
				withdrawn = -1
				var o []int
				for _, i := range r {
					if i != idx {
						o = append(o, i)
					}
				}
				return o
			}
			for len(ch.Buf) > 0 && !ch.Closed && len(others()) == 0 {
				me.blocked = func() bool { return len(ch.Buf) > 0 && !ch.Closed && len(others()) == 0 }
				x.yield()
				me.blocked = nil
			}
			if len(ch.Buf) == 0 {
				offered = true // taken
			} else {
				ch.Buf = ch.Buf[:0] // withdrawn
				if o := others(); len(o) > 0 {
					idx = o[x.choose('c', len(o), nil)]
				} else {
					x.abort("PANIC", "send on closed channel")
				}
			}
		}
	}
	tu := &Tuple{Elems: []Value{mkInt(int64(idx)), mkBool(false)}}
	for i, st := range in.States {
		if st.Dir == types.RecvOnly {
			et := st.Chan.Type().Underlying().(*types.Chan).Elem()
			var v Value = x.zero(et)
			if i == idx {
				ch := x.get(fr, st.Chan).(*ChanV)
				if len(ch.Buf) > 0 {
					v = ch.Buf[0]
					ch.Buf = ch.Buf[1:]
					tu.Elems[1] = mkBool(true)
				}
			}
			tu.Elems = append(tu.Elems, v)
		} else if i == idx && !offered {
			ch := x.get(fr, st.Chan).(*ChanV)
			if ch.Closed {
				x.abort("PANIC", "send on closed channel")
			}
			ch.Buf = append(ch.Buf, x.get(fr, st.Send))
		}
	}
	fr.env[in] = tu
}

// concInt makes a symbolic integer concrete by forking over [lo,hi]; values outside are a separate
// alternative that is executed as a panic (never assumed away).
func (x *Exec) concInt(v Value, lo, hi int, what string) int {
	t := v.(*Term)
	if t.IsConc() {
		return int(t.C.(int64))
	}
	n := hi - lo + 1
	outside := tOr(tLt(t, mkInt(int64(lo))), tLt(mkInt(int64(hi)), t))
	k := x.choose('b', n+1, func(i int) bool {
		if i == n {
			return x.sat(outside)
		}
		return x.sat(tEq(t, mkInt(int64(lo+i))))
	})
	if k == n {
		x.sol.Assert(outside)
		x.abort("PANIC", fmt.Sprintf("symbolic %s can lie outside [%d,%d]: out-of-range access or bound exceeded", what, lo, hi))
	}
	x.sol.Assert(tEq(t, mkInt(int64(lo+k))))
	return lo + k
}

// concIndex concretises an index into a container of length n; out of range is a Go panic.
func (x *Exec) concIndex(v Value, n int, what string) int {
	t := v.(*Term)
	if t.IsConc() {
		i := t.C.(int64)
		if i < 0 || i >= int64(n) {
			x.abort("PANIC", fmt.Sprintf("%s out of range [%d] with length %d", what, i, n))
		}
		return int(i)
	}
	outside := tOr(tLt(t, mkInt(0)), tLe(mkInt(int64(n)), t))
	k := x.choose('b', n+1, func(i int) bool {
		if i == n {
			return x.sat(outside)
		}
		return x.sat(tEq(t, mkInt(int64(i))))
	})
	if k == n {
		x.sol.Assert(outside)
		x.abort("PANIC", fmt.Sprintf("%s out of range (symbolic) with length %d", what, n))
	}
	x.sol.Assert(tEq(t, mkInt(int64(k))))
	return k
}

func (x *Exec) mapRemove(m *MapV, e *MapEntry) {
	for i, f := range m.Entries {
		if f == e {
			m.Entries = append(append([]*MapEntry{}, m.Entries[:i]...), m.Entries[i+1:]...)
			return
		}
	}
}

func (x *Exec) mapHas(m *MapV, e *MapEntry) bool {
	for _, f := range m.Entries {
		if f == e {
			return true
		}
	}
	return false
}

// mapFind returns the entry whose key equals k (forking over symbolic key equality).
func (x *Exec) mapFind(m *MapV, k Value) *MapEntry {
	if m == nil {
		return nil
	}
	if x.guards != nil {
		x.checkGuardObj(m)
	}
	for _, e := range m.Entries {
		c := x.eqVal(e.K, k)
		if e.Present != nil {
			c = tAnd(e.Present, c)
		}
		if x.branch(c) {
			e.Present = nil // present on this path
			return e
		}
	}
	return nil
}

func (x *Exec) lookup(fr *Frame, in *ssa.Lookup) Value {
	base := x.get(fr, in.X)
	switch b := base.(type) {
	case *MapV:
		k := x.get(fr, in.Index)
		mt := in.X.Type().Underlying().(*types.Map)
		e := x.mapFind(b, k)
		var v Value
		if e != nil {
			v = copyVal(e.V)
		} else {
			v = x.zero(mt.Elem())
		}
		if in.CommaOk {
			return &Tuple{Elems: []Value{v, mkBool(e != nil)}}
		}
		return v
	case *Term, *StrV: // string index
		sv := x.toStrV(b)
		i := x.concIndex(x.get(fr, in.Index), len(sv.B), "string index")
		return sv.B[i]
	}
	panic(fmt.Sprintf("lookup on %T", base))
}

func (x *Exec) slice(fr *Frame, in *ssa.Slice) Value {
	base := x.get(fr, in.X)
	// determine the limits for concretisation
	limit := 0
	isStr := false
	switch b := base.(type) {
	case *SliceV:
		if b != nil {
			if b.LenT != nil {
				x.abort("UNSUPPORTED", "slicing opaque slice")
			}
			limit = b.Cap
		}
	case *Pointer:
		limit = len(x.loadAgg(b).Elems)
	default:
		if _, ok := in.X.Type().Underlying().(*types.Basic); ok {
			isStr = true
			limit = len(x.toStrV(base).B)
		}
	}
	lo, hi, max := 0, -1, -1
	if in.Low != nil {
		lo = x.concInt(x.get(fr, in.Low), 0, limit, "slice low bound")
	}
	if in.High != nil {
		hi = x.concInt(x.get(fr, in.High), 0, limit, "slice high bound")
	}
	if in.Max != nil {
		max = x.concInt(x.get(fr, in.Max), 0, limit, "slice max bound")
	}
	switch b := base.(type) {
	case *SliceV:
		if b == nil {
			if lo == 0 && hi <= 0 {
				return (*SliceV)(nil)
			}
			x.abort("PANIC", "slice bounds out of range (nil slice)")
		}
		if hi < 0 {
			hi = b.Len
		}
		if max < 0 {
			max = b.Cap
		}
		if lo < 0 || hi < lo || max < hi || max > b.Cap {
			x.abort("PANIC", fmt.Sprintf("slice bounds out of range [%d:%d:%d] with capacity %d", lo, hi, max, b.Cap))
		}
		return &SliceV{Arr: b.Arr, Off: b.Off + lo, Len: hi - lo, Cap: max - lo}
	case *Pointer: // *[N]T
		a := x.loadAgg(b)
		if hi < 0 {
			hi = len(a.Elems)
		}
		if lo < 0 || hi < lo || hi > len(a.Elems) {
			x.abort("PANIC", "slice bounds out of range (array)")
		}
		if len(b.Path) != 0 {
			x.abort("UNSUPPORTED", "slicing an array embedded in another object")
		}
		return &SliceV{Arr: b.Obj, Off: lo, Len: hi - lo, Cap: len(a.Elems) - lo}
	}
	if isStr {
		sv := x.toStrV(base)
		if hi < 0 {
			hi = len(sv.B)
		}
		if lo < 0 || hi < lo || hi > len(sv.B) {
			x.abort("PANIC", fmt.Sprintf("string slice bounds out of range [%d:%d] with length %d", lo, hi, len(sv.B)))
		}
		return normStr(&StrV{B: append([]*Term{}, sv.B[lo:hi]...)})
	}
	x.abort("UNSUPPORTED", "slice of "+fmt.Sprintf("%T", base))
	return nil
}

func (x *Exec) loadAgg(p *Pointer) *Agg {
	v := p.Obj.Val
	for _, i := range p.Path {
		v = v.(*Agg).Elems[i]
	}
	return v.(*Agg)
}

func (x *Exec) implements(iv *IfaceV, it *types.Interface) bool {
	if iv.T != nil {
		return types.Implements(iv.T, it)
	}
	// engine-native payloads
	has := func(names ...string) bool {
		for i := 0; i < it.NumMethods(); i++ {
			ok := false
			for _, n := range names {
				if it.Method(i).Name() == n {
					ok = true
				}
			}
			if !ok {
				return false
			}
		}
		return true
	}
	switch iv.V.(type) {
	case *ErrObj:
		return has("Error")
	case *CtxV:
		return has("Done", "Err", "Value", "Deadline")
	}
	return it.NumMethods() == 0
}

func (x *Exec) typeAssert(fr *Frame, in *ssa.TypeAssert) Value {
	v := x.get(fr, in.X)
	iv, _ := v.(*IfaceV)
	ok := false
	var res Value
	it, isIface := in.AssertedType.Underlying().(*types.Interface)
	if iv != nil {
		if isIface {
			ok = x.implements(iv, it)
			res = iv
		} else if iv.T != nil && types.Identical(iv.T, in.AssertedType) {
			ok = true
			res = iv.V
		}
	}
	if !ok {
		if isIface {
			res = (*IfaceV)(nil)
		} else {
			res = x.zero(in.AssertedType)
		}
	}
	if in.CommaOk {
		return &Tuple{Elems: []Value{res, mkBool(ok)}}
	}
	if !ok {
		x.abort("PANIC", "type assertion failed: "+in.String()+" in "+fr.fn.String())
	}
	return res
}

func (x *Exec) recv(ch *ChanV, zero Value, commaOk bool) Value {
	if ch == nil {
		x.abort("BLOCKED", "receive on nil channel")
	}
	for len(ch.Buf) == 0 && !x.chClosed(ch) {
		if !x.sched {
			x.abort("BLOCKED", "receive on open empty channel "+ch.Note)
		}
		me := x.cur
		me.blocked = func() bool { return len(ch.Buf) == 0 && !ch.Closed }
		x.yield()
		me.blocked = nil
	}
	if len(ch.Buf) > 0 {
		r := ch.Buf[0]
		ch.Buf = ch.Buf[1:]
		if commaOk {
			return &Tuple{Elems: []Value{r, mkBool(true)}}
		}
		return r
	}
	if commaOk {
		return &Tuple{Elems: []Value{zero, mkBool(false)}}
	}
	return zero
}

func (x *Exec) unop(fr *Frame, in *ssa.UnOp) Value {
	v := x.get(fr, in.X)
	switch in.Op {
	case token.MUL:
		p := v.(*Pointer)
		if p == nil {
			x.abort("PANIC", "nil pointer dereference (load "+in.X.Name()+" in "+fr.fn.String()+")")
		}
		return x.load(p)
	case token.ARROW:
		ch, _ := v.(*ChanV)
		et := in.X.Type().Underlying().(*types.Chan).Elem()
		return x.recv(ch, x.zero(et), in.CommaOk)
	case token.NOT:
		return tNot(v.(*Term))
	case token.SUB:
		t := v.(*Term)
		if t.S == SFloat || t.S == SFInt {
			return fneg(t)
		}
		return x.fit(tSub(mkInt(0), t), in.Type())
	case token.XOR:
		t := v.(*Term)
		if t.IsConc() {
			return x.fit(mkInt(^t.C.(int64)), in.Type())
		}
		// ^x == -x-1
		return x.fit(tSub(tSub(mkInt(0), t), mkInt(1)), in.Type())
	}
	x.abort("UNSUPPORTED", "unop "+in.Op.String())
	return nil
}

// prepCall resolves the callee of a call instruction to a Go closure.
func (x *Exec) prepCall(fr *Frame, c *ssa.CallCommon) (func([]Value) Value, []Value) {
	var args []Value
	if c.IsInvoke() {
		recv := x.get(fr, c.Value)
		iv, _ := recv.(*IfaceV)
		if iv == nil {
			x.abort("PANIC", "invoke on nil interface: "+c.Method.Name()+" in "+fr.fn.String())
		}
		for _, a := range c.Args {
			args = append(args, x.get(fr, a))
		}
		if iv.T == nil {
			if h := x.nativeMethod(iv, c.Method.Name(), c.Signature()); h != nil {
				return h, args
			}
			x.abort("UNSUPPORTED", fmt.Sprintf("method %s on engine-native %T", c.Method.Name(), iv.V))
		}
		if nt, ok := c.Value.Type().(*types.Named); ok && nt.Obj().Pkg() != nil && nt.Obj().Pkg().Path() == "reflect" && nt.Obj().Name() == "Type" {
			if h := x.reflectTypeMethod(iv, c.Method.Name()); h != nil {
				return h, args
			}
			x.abort("UNSUPPORTED", "reflect.Type."+c.Method.Name())
		}
		fn := x.findMethod(iv.T, c.Method.Pkg(), c.Method.Name())
		if fn == nil {
			x.abort("UNSUPPORTED", "no method "+c.Method.Name()+" on "+iv.T.String())
		}
		full := append([]Value{iv.V}, args...)
		return func(a []Value) Value { return x.call(fn, a, nil) }, full
	}
	for _, a := range c.Args {
		args = append(args, x.get(fr, a))
	}
	switch f := c.Value.(type) {
	case *ssa.Builtin:
		return func(a []Value) Value { return x.builtin(f, a, c) }, args
	case *ssa.Function:
		return func(a []Value) Value { return x.call(f, a, nil) }, args
	}
	fv := x.get(fr, c.Value)
	return func(a []Value) Value { return x.callValue(fv, a) }, args
}

func (x *Exec) doCall(fr *Frame, c *ssa.CallCommon) Value {
	fn, args := x.prepCall(fr, c)
	return fn(args)
}

func (x *Exec) sliceElems(s *SliceV) []Value {
	if s == nil {
		return nil
	}
	if s.LenT != nil {
		x.abort("UNSUPPORTED", "elements of opaque slice "+s.Tag)
	}
	return s.Arr.Val.(*Agg).Elems[s.Off : s.Off+s.Len]
}

func (x *Exec) newSlice(elems []Value, note string) *SliceV {
	return &SliceV{Arr: x.newObj(&Agg{Elems: elems}, note), Len: len(elems), Cap: len(elems)}
}

func (x *Exec) builtin(b *ssa.Builtin, args []Value, c *ssa.CallCommon) Value {
	switch b.Name() {
	case "len":
		switch v := args[0].(type) {
		case *SliceV:
			if v == nil {
				return mkInt(0)
			}
			if v.LenT != nil {
				return v.LenT
			}
			return mkInt(int64(v.Len))
		case *MapV:
			if v == nil {
				return mkInt(0)
			}
			n := mkInt(0)
			for _, e := range v.Entries {
				if e.Present == nil {
					n = tAdd(n, mkInt(1))
				} else {
					n = tAdd(n, tIte(e.Present, mkInt(1), mkInt(0)))
				}
			}
			return n
		case *Term:
			return mkInt(int64(len(v.C.(string))))
		case *StrV:
			return mkInt(int64(len(v.B)))
		case *ChanV:
			if v == nil {
				return mkInt(0)
			}
			return mkInt(int64(len(v.Buf)))
		case *Pointer:
			return mkInt(int64(len(x.loadAgg(v).Elems)))
		case *Agg:
			return mkInt(int64(len(v.Elems)))
		}
	case "cap":
		switch v := args[0].(type) {
		case *SliceV:
			if v == nil {
				return mkInt(0)
			}
			return mkInt(int64(v.Cap))
		case *ChanV:
			if v == nil {
				return mkInt(0)
			}
			return mkInt(int64(v.Cap))
		}
	case "append":
		s, _ := args[0].(*SliceV)
		var addElems []Value
		switch add := args[1].(type) {
		case *SliceV:
			if add == nil || (add.LenT == nil && add.Len == 0) {
				return args[0]
			}
			addElems = x.sliceElems(add)
		case *Term, *StrV: // append([]byte, string...)
			for _, t := range x.toStrV(add).B {
				addElems = append(addElems, t)
			}
			if len(addElems) == 0 {
				return args[0]
			}
		}
		n := len(addElems)
		if s != nil && s.LenT == nil && s.Len+n <= s.Cap {
			// room in the backing array: append writes in place and the result aliases s (as in Go)
			arr := s.Arr.Val.(*Agg)
			for i, e := range addElems {
				arr.Elems[s.Off+s.Len+i] = copyVal(e)
			}
			return &SliceV{Arr: s.Arr, Off: s.Off, Len: s.Len + n, Cap: s.Cap}
		}
		var elems []Value
		elems = append(elems, x.sliceElems(s)...)
		for _, e := range addElems {
			elems = append(elems, copyVal(e))
		}
		// grow: double small capacities like the runtime does (size-class rounding is not modelled)
		oldCap := 0
		if s != nil {
			oldCap = s.Cap
		}
		newCap := len(elems)
		if d := 2 * oldCap; d > newCap && oldCap < 256 {
			newCap = d
		}
		var et types.Type
		if st, ok := c.Signature().Params().At(0).Type().Underlying().(*types.Slice); ok {
			et = st.Elem()
		}
		full := make([]Value, newCap)
		copy(full, elems)
		for i := len(elems); i < newCap; i++ {
			if et != nil {
				full[i] = x.zero(et)
			} else {
				full[i] = mkInt(0)
			}
		}
		return &SliceV{Arr: x.newObj(&Agg{Elems: full}, "append"), Len: len(elems), Cap: newCap}
	case "copy":
		dst, _ := args[0].(*SliceV)
		var src []Value
		switch s := args[1].(type) {
		case *SliceV:
			src = x.sliceElems(s)
		case *Term, *StrV:
			for _, t := range x.toStrV(s).B {
				src = append(src, t)
			}
		}
		d := x.sliceElems(dst)
		n := len(d)
		if len(src) < n {
			n = len(src)
		}
		tmp := make([]Value, n)
		for i := 0; i < n; i++ {
			tmp[i] = copyVal(src[i])
		}
		copy(d, tmp)
		return mkInt(int64(n))
	case "delete":
		m := args[0].(*MapV)
		if m == nil {
			return nil
		}
		if e := x.mapFind(m, args[1]); e != nil {
			for i, f := range m.Entries {
				if f == e {
					m.Entries = append(append([]*MapEntry{}, m.Entries[:i]...), m.Entries[i+1:]...)
					break
				}
			}
		}
		return nil
	case "close":
		ch := args[0].(*ChanV)
		if ch == nil || x.chClosed(ch) {
			x.abort("PANIC", "close of nil or closed channel")
		}
		ch.Closed = true
		return nil
	case "ssa:wrapnilchk":
		// wrapper for a value-receiver method called through a pointer: panics on nil, else returns the pointer
		if p, ok := args[0].(*Pointer); ok {
			if p == nil {
				x.abort("PANIC", "value method called using nil pointer")
			}
			return p
		}
	case "clear":
		if m, ok := args[0].(*MapV); ok {
			if m != nil {
				m.Entries = nil
			}
			return nil
		}
		if s, ok := args[0].(*SliceV); ok {
			if s != nil {
				var et types.Type
				if st, ok := c.Signature().Params().At(0).Type().Underlying().(*types.Slice); ok {
					et = st.Elem()
				}
				es := x.sliceElems(s)
				for i := range es {
					if et != nil {
						es[i] = x.zero(et)
					}
				}
			}
			return nil
		}
	case "recover":
		return (*IfaceV)(nil)
	case "min", "max":
		r := args[0].(*Term)
		for _, a := range args[1:] {
			t := a.(*Term)
			if r.S != SInt {
				x.abort("UNSUPPORTED", "min/max on non-int")
			}
			if b.Name() == "min" {
				r = tIte(tLe(r, t), r, t)
			} else {
				r = tIte(tLe(t, r), r, t)
			}
		}
		return r
	case "print", "println":
		return nil
	}
	x.abort("UNSUPPORTED", "builtin "+b.Name()+fmt.Sprintf(" on %T", args[0]))
	return nil
}

func isByte(t types.Type) bool {
	b, ok := t.Underlying().(*types.Basic)
	return ok && (b.Kind() == types.Uint8 || b.Kind() == types.Byte)
}
