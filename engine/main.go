package main

import (
	"encoding/json"
	"flag"
	"fmt"
	"os"
	"strings"
)

func usage() {
	fmt.Println(`usage:
  gosmt check <ID> [--tier quick|thorough] [--replay file] [--workers N] [--only substr] [--overlay repofile=replacement,...]
  gosmt run --dir mcp --pkg ./mcp --harness a.go,b.go --entry zzX [--unwind N] [--memo] [--sched] [--preempt N] [--param k=v,...] [--override f=g,...] [--trace]`)
}

func parseKV(s string) map[string]string {
	m := map[string]string{}
	if s == "" {
		return m
	}
	for _, kv := range strings.Split(s, ",") {
		k, v, _ := strings.Cut(kv, "=")
		m[k] = v
	}
	return m
}

func main() {
	os.Setenv("PATH", "/opt/veriftools/go1.26.8/bin:"+os.Getenv("PATH"))
	os.Setenv("GOTOOLCHAIN", "local")
	if len(os.Args) < 2 {
		usage()
		os.Exit(2)
	}
	switch os.Args[1] {
	case "check":
		if len(os.Args) < 3 {
			usage()
			os.Exit(2)
		}
		id := os.Args[2]
		fs := flag.NewFlagSet("check", flag.ExitOnError)
		tier := fs.String("tier", "quick", "")
		replay := fs.String("replay", "", "")
		workers := fs.Int("workers", 14, "")
		only := fs.String("only", "", "")
		overlay := fs.String("overlay", "", "")
		trace := fs.Bool("trace", false, "")
		fs.Parse(os.Args[3:])
		if t := os.Getenv("VERIF_TIER"); t != "" && !isFlagSet(fs, "tier") {
			*tier = t
		}
		os.Exit(runCheck(id, *tier, *replay, *workers, parseKV(*overlay), *only, *trace))
	case "run":
		fs := flag.NewFlagSet("run", flag.ExitOnError)
		dir := fs.String("dir", "mcp", "")
		pkg := fs.String("pkg", "./mcp", "")
		harness := fs.String("harness", "", "")
		entry := fs.String("entry", "", "")
		unwind := fs.Int("unwind", 12, "")
		memo := fs.Bool("memo", false, "")
		sched := fs.Bool("sched", false, "")
		preempt := fs.Int("preempt", 2, "")
		params := fs.String("param", "", "")
		overrides := fs.String("override", "", "")
		overlay := fs.String("overlay", "", "")
		workers := fs.Int("workers", 14, "")
		trace := fs.Bool("trace", false, "")
		maxPaths := fs.Int("maxpaths", 0, "")
		noinit := fs.Bool("noinit", false, "")
		known := fs.String("known", "", "active known keys")
		decs := fs.String("dec", "", "run only this decision vector (debug)")
		fs.Parse(os.Args[2:])
		g := &Group{Pkg: *pkg, Dir: *dir, Harness: strings.Split(*harness, ",")}
		ov, err := buildOverlay(g, parseKV(*overlay))
		if err != nil {
			fmt.Println(err)
			os.Exit(2)
		}
		l, err := Load(repoDir(), ov, []string{*pkg}, *workers, os.Getenv("VERIF_SOLVER"), 20000)
		if err != nil {
			fmt.Println(err)
			os.Exit(2)
		}
		defer l.Close()
		es := &EntrySpec{Name: *entry, Unwind: *unwind, Memo: *memo, Sched: *sched, Preempt: *preempt, Overrides: parseKV(*overrides), Params: map[string]int{}, MaxPaths: *maxPaths, NoInit: *noinit}
		for k, v := range parseKV(*params) {
			fmt.Sscanf(v, "%d", new(int))
			var n int
			fmt.Sscanf(v, "%d", &n)
			es.Params[k] = n
		}
		active := map[string]bool{}
		for k := range parseKV(*known) {
			active[k] = true
		}
		if *decs != "" {
			es.MaxPaths = 1
			*workers = 1
			debugDec = decodeDec(*decs)
		}
		res, err := l.Explore(es, active, *workers, *trace)
		if err != nil {
			fmt.Println(err)
			os.Exit(2)
		}
		res.Funcs = nil
		b, _ := json.MarshalIndent(res, "", " ")
		fmt.Println(string(b))
		fmt.Printf("load=%.1fs\n", l.loadS)
	default:
		usage()
		os.Exit(2)
	}
}

var debugDec []Dec

func isFlagSet(fs *flag.FlagSet, name string) bool {
	set := false
	fs.Visit(func(f *flag.Flag) {
		if f.Name == name {
			set = true
		}
	})
	return set
}
