package main

import (
	"encoding/json"
	"fmt"
	"os"
	"path/filepath"
	"regexp"
	"sort"
	"strconv"
	"strings"
	"time"
)

// verifRoot is /verif; VERIF_ROOT points the engine at a snapshot of it (used to measure how an earlier state of
// the checks does on a new change: tools/mut.py --root).
var verifRoot = func() string {
	if r := os.Getenv("VERIF_ROOT"); r != "" {
		return r
	}
	return "/verif"
}()

type TierOverride struct {
	Unwind   int            `json:"unwind"`
	Preempt  int            `json:"preempt"`
	MaxPaths int            `json:"max_paths"`
	Params   map[string]int `json:"params"`
}

type EntryDef struct {
	EntrySpec
	Thorough *TierOverride `json:"thorough"`
}

type Group struct {
	Pkg     string     `json:"pkg"`     // package pattern relative to /repo, e.g. ./mcp
	Dir     string     `json:"dir"`     // directory under /repo
	Harness []string   `json:"harness"` // files under /verif/harness/<dir>/
	Aux     []string   `json:"aux"`     // helper files "<dir>/<file>" under /verif/harness overlaid into other packages (no prelude)
	Entries []EntryDef `json:"entries"`
}

type CheckSpec struct {
	Property    string            `json:"property"`
	Technique   string            `json:"technique"`
	Explanation string            `json:"explanation"`
	Groups      []Group           `json:"groups"`
	Assumptions []string          `json:"assumptions"`
	Bounds      map[string]any    `json:"bounds"`
	Stubs       []string          `json:"stubs"`
	Outside     []string          `json:"outside_claim"`
}

type KnownFinding struct {
	Property string `json:"property"`
	Key      string `json:"key"`
	What     string `json:"what"`
	Commit   string `json:"commit,omitempty"`
}

type KnownFile struct {
	Findings []KnownFinding `json:"findings"`
	Fixed    []KnownFinding `json:"fixed"`
}

type ReplayFile struct {
	Property string    `json:"property"`
	Tier     string    `json:"tier"`
	V        Violation `json:"violation"`
}

var pkgClause = regexp.MustCompile(`(?m)^package\s+(\w+)`)

func preludeFor(pkg string) []byte {
	b, err := os.ReadFile(filepath.Join(verifRoot, "harness", "prelude.go.txt"))
	if err != nil {
		panic(err)
	}
	return []byte(strings.Replace(string(b), "package PKG", "package "+pkg, 1))
}

func repoDir() string {
	if d := os.Getenv("VERIF_REPO"); d != "" {
		return d
	}
	return "/repo"
}

// ownEntry: does this entry belong to the property's own harness (as opposed to being borrowed from another
// property's)? Own entries carry the property id in their name; the Connection harnesses are common to C01-C05.
func ownEntry(id, name string, borrowed bool) bool {
	if borrowed {
		return false
	}
	if strings.Contains(name, id) {
		return true
	}
	if strings.HasPrefix(name, "zzConn") {
		return id >= "C01" && id <= "C05"
	}
	m := regexp.MustCompile(`^zzC(\d\d)`).FindStringSubmatch(name)
	return m == nil // entries without a property in their name (zzSSE*, zzSelf*) count as own where they are listed
}

var harnessFileInErr = regexp.MustCompile(`zz_verif_([\w]+\.go)`)

// dropBorrowed returns a copy of g without the harness files named in the load error, provided none of them defines
// an own entry, and the names of the (borrowed) entries that go with them; nil if nothing can be dropped.
func dropBorrowed(id string, g *Group, errText string) (*Group, []string) {
	bad := map[string]bool{}
	for _, m := range harnessFileInErr.FindAllStringSubmatch(errText, -1) {
		bad[m[1]] = true
	}
	delete(bad, "prelude.go")
	if len(bad) == 0 {
		return nil, nil
	}
	defines := func(file, entry string) bool {
		src, err := os.ReadFile(filepath.Join(verifRoot, "harness", g.Dir, file))
		return err == nil && regexp.MustCompile(`(?m)^func `+regexp.QuoteMeta(entry)+`\(`).Match(src)
	}
	var keep []EntryDef
	var dropped []string
	for _, e := range g.Entries {
		inBad := false
		for f := range bad {
			inBad = inBad || defines(f, e.Name)
		}
		if !inBad {
			keep = append(keep, e)
			continue
		}
		if ownEntry(id, e.Name, e.Borrowed) {
			return nil, nil
		}
		dropped = append(dropped, e.Name)
	}
	if len(dropped) == 0 && len(keep) == len(g.Entries) {
		// the broken file defines no entry of this group: it is a support file; drop it only if it is not common.go
		if bad["common.go"] {
			return nil, nil
		}
	}
	g2 := *g
	g2.Entries = keep
	g2.Harness = nil
	for _, h := range g.Harness {
		if !bad[h] {
			g2.Harness = append(g2.Harness, h)
		}
	}
	if len(g2.Harness) == len(g.Harness) {
		return nil, nil
	}
	return &g2, dropped
}

func buildOverlay(g *Group, extra map[string]string) (map[string][]byte, error) {
	ov := map[string][]byte{}
	pkgName := ""
	hs := g.Harness
	if _, err := os.Stat(filepath.Join(verifRoot, "harness", g.Dir, "common.go")); err == nil {
		has := false
		for _, h := range hs {
			has = has || h == "common.go"
		}
		if !has {
			hs = append(append([]string{}, hs...), "common.go")
		}
	}
	for _, h := range hs {
		src, err := os.ReadFile(filepath.Join(verifRoot, "harness", g.Dir, h))
		if err != nil {
			return nil, err
		}
		if m := pkgClause.FindSubmatch(src); m != nil && pkgName == "" {
			pkgName = string(m[1])
		}
		ov[filepath.Join(repoDir(), g.Dir, "zz_verif_"+filepath.Base(h))] = src
	}
	ov[filepath.Join(repoDir(), g.Dir, "zz_verif_prelude.go")] = preludeFor(pkgName)
	for _, a := range g.Aux {
		src, err := os.ReadFile(filepath.Join(verifRoot, "harness", a))
		if err != nil {
			return nil, err
		}
		ov[filepath.Join(repoDir(), filepath.Dir(a), "zz_verif_"+filepath.Base(a))] = src
	}
	for k, v := range extra {
		b, err := os.ReadFile(v)
		if err != nil {
			return nil, err
		}
		ov[k] = b
	}
	return ov, nil
}

func loadKnown() (*KnownFile, error) {
	var k KnownFile
	b, err := os.ReadFile(filepath.Join(verifRoot, "known_findings.json"))
	if err != nil {
		if os.IsNotExist(err) {
			return &k, nil
		}
		return nil, err
	}
	if err := json.Unmarshal(b, &k); err != nil {
		return nil, err
	}
	return &k, nil
}

func entryForTier(d *EntryDef, tier string) (*EntrySpec, bool) {
	if len(d.Tiers) > 0 {
		ok := false
		for _, t := range d.Tiers {
			if t == tier {
				ok = true
			}
		}
		if !ok {
			return nil, false
		}
	}
	s := d.EntrySpec
	s.Params = map[string]int{}
	for k, v := range d.EntrySpec.Params {
		s.Params[k] = v
	}
	if tier == "thorough" && d.Thorough != nil {
		if d.Thorough.Unwind > 0 {
			s.Unwind = d.Thorough.Unwind
		}
		if d.Thorough.Preempt > 0 {
			s.Preempt = d.Thorough.Preempt
		}
		if d.Thorough.MaxPaths > 0 {
			s.MaxPaths = d.Thorough.MaxPaths
		}
		for k, v := range d.Thorough.Params {
			s.Params[k] = v
		}
	}
	return &s, true
}

var partialRun bool

func runCheck(id, tier, replayPath string, workers int, extraOverlay map[string]string, only string, trace bool) int {
	partialRun = only != "" || len(extraOverlay) > 0
	t0 := time.Now()
	seed, _ := strconv.Atoi(os.Getenv("VERIF_SEED"))
	specPath := filepath.Join(verifRoot, "checks", id+".json")
	b, err := os.ReadFile(specPath)
	if err != nil {
		fmt.Println("cannot read spec:", err)
		return 2
	}
	var spec CheckSpec
	if err := json.Unmarshal(b, &spec); err != nil {
		fmt.Println("bad spec:", err)
		return 2
	}
	known, err := loadKnown()
	if err != nil {
		fmt.Println("bad known_findings.json:", err)
		return 2
	}
	active := map[string]bool{}
	what := map[string]string{}
	for _, f := range known.Findings {
		if f.Property == id {
			active[f.Key] = true
			what[f.Key] = f.What
		}
	}

	var replay *ReplayFile
	if replayPath != "" {
		rb, err := os.ReadFile(replayPath)
		if err != nil {
			fmt.Println("cannot read replay file:", err)
			return 2
		}
		replay = &ReplayFile{}
		if err := json.Unmarshal(rb, replay); err != nil {
			fmt.Println("bad replay file:", err)
			return 2
		}
		tier = replay.Tier
	}

	var results []*EntryResult
	var allViol []Violation
	var inconclusive []string
	var vacuous []string
	knownHits := map[string]string{}
	var skipped []string
	loadS := 0.0
	exit := 0
	for gi := range spec.Groups {
		g := &spec.Groups[gi]
		ov, err := buildOverlay(g, extraOverlay)
		if err != nil {
			fmt.Println("BROKEN-HARNESS:", err)
			return 2
		}
		l, err := Load(repoDir(), ov, []string{g.Pkg}, workers, os.Getenv("VERIF_SOLVER"), 20000)
		for tries := 0; err != nil && tries < 6; tries++ {
			// Entries borrowed from another property's harness are optional: if the file that defines them no longer
			// type-checks against this tree they are dropped (with a note) and the property's own entries still run.
			// A file that defines one of this property's own entries is never dropped: then the check is broken.
			g2, dropped := dropBorrowed(id, g, err.Error())
			if g2 == nil {
				break
			}
			for _, d := range dropped {
				fmt.Printf("NOTE property=%s: borrowed entry %s skipped: its harness file does not type-check against this tree\n", id, d)
				skipped = append(skipped, d)
			}
			g = g2
			if ov, err = buildOverlay(g, extraOverlay); err != nil {
				break
			}
			l, err = Load(repoDir(), ov, []string{g.Pkg}, workers, os.Getenv("VERIF_SOLVER"), 20000)
		}
		if err != nil {
			fmt.Printf("BROKEN-HARNESS property=%s group=%s: harness does not load against the current tree:\n%v\n", id, g.Pkg, err)
			return 2
		}
		loadS += l.loadS
		for ei := range g.Entries {
			es, ok := entryForTier(&g.Entries[ei], tier)
			if !ok {
				continue
			}
			if only != "" && !strings.Contains(es.Name, only) {
				continue
			}
			if replay != nil {
				if es.Name != replay.V.Entry {
					continue
				}
				r, err := l.Replay(es, active, &replay.V)
				if err != nil {
					fmt.Println("replay error:", err)
					l.Close()
					return 2
				}
				fmt.Printf("replay %s %s %s: %s\n", es.Name, replay.V.Kind, replay.V.Label, r)
				l.Close()
				if r == "reproduced" {
					fmt.Printf("VIOLATION property=%s replay=%s\n", id, replayPath)
					return 1
				}
				return 0
			}
			res, err := l.Explore(es, active, workers, trace)
			if err != nil {
				// (an entry the engine cannot run — typically a harness override whose signature no longer matches the
				// code — is inconclusive; the other entries still run, and a violation any of them finds is reported)
				fmt.Println("ENGINE-ERROR:", err)
				inconclusive = append(inconclusive, es.Name+": engine error: "+err.Error())
				continue
			}
			results = append(results, res)
			fmt.Printf("  %-28s paths=%d completed=%d obligations=%d/%d queries=%d solver=%.1fs wall=%.1fs outcomes=%v\n",
				es.Name, res.Paths, res.Completed, res.Discharged, res.Obligations, res.Queries, res.SolverS, res.WallS, res.Outcomes)
			for k, w := range res.Known {
				knownHits[k] = w
			}
			for i := range res.Violations {
				v := res.Violations[i]
				r, err := l.Replay(es, active, &v)
				if err != nil {
					r = "replay error: " + err.Error()
				}
				v.Replayed = r
				res.Violations[i] = v
				allViol = append(allViol, v)
			}
			for _, m := range res.Inconclusive {
				inconclusive = append(inconclusive, es.Name+": "+m)
			}
			if res.Truncated {
				inconclusive = append(inconclusive, es.Name+": path budget exhausted (max_paths)")
			}
			if len(res.Violations) == 0 {
				for _, m := range res.MissingReach {
					vacuous = append(vacuous, es.Name+": reachability witness "+m+" never hit")
				}
			}
		}
		l.Close()
	}
	if replay != nil {
		fmt.Println("replay: entry not found in spec")
		return 2
	}

	// report
	var keys []string
	for k := range knownHits {
		keys = append(keys, k)
	}
	sort.Strings(keys)
	for _, k := range keys {
		fmt.Printf("KNOWN-FINDING: property=%s %s [key=%s; witness: %s]\n", id, what[k], k, trunc(knownHits[k], 300))
	}
	for k := range active {
		if _, hit := knownHits[k]; !hit {
			fmt.Printf("note: listed finding %s was not observed in this run\n", k)
		}
	}
	os.MkdirAll(filepath.Join(verifRoot, ".work", "replay"), 0o755)
	seen := map[string]bool{}
	for i, v := range allViol {
		key := v.Entry + "|" + v.Kind + "|" + v.Label
		if seen[key] {
			continue
		}
		seen[key] = true
		p := filepath.Join(verifRoot, ".work", "replay", fmt.Sprintf("%s-%s-%d.json", id, tier, i))
		rb, _ := json.MarshalIndent(ReplayFile{Property: id, Tier: tier, V: v}, "", " ")
		os.WriteFile(p, rb, 0o644)
		fmt.Printf("  violated: entry=%s %s %s — %s [%s] model: %s\n", v.Entry, v.Kind, v.Label, trunc(v.Msg, 200), v.Replayed, trunc(fmtModel(v.Model), 400))
		fmt.Printf("VIOLATION property=%s replay=%s\n", id, p)
		exit = 1
	}
	if exit == 0 && (len(inconclusive) > 0 || len(vacuous) > 0) {
		for _, m := range inconclusive {
			fmt.Println("INCONCLUSIVE:", m)
		}
		for _, m := range vacuous {
			fmt.Println("VACUOUS:", m)
		}
		exit = 2
	}
	if coverageOn {
		writeCoverage(&spec, tier, results)
		// coverage fields are a dev aid, not evidence
		for _, r := range results {
			for i := range r.Funcs {
				r.Funcs[i].File, r.Funcs[i].Line, r.Funcs[i].NBlocks, r.Funcs[i].Covered, r.Funcs[i].BlockLn = "", 0, 0, nil, nil
			}
		}
	}
	writeEvidence(&spec, tier, seed, results, allViol, knownHits, inconclusive, vacuous, loadS, time.Since(t0).Seconds())
	fmt.Printf("%s %s: exit=%d wall=%.1fs\n", id, tier, exit, time.Since(t0).Seconds())
	return exit
}

func trunc(s string, n int) string {
	if len(s) > n {
		return s[:n] + "…"
	}
	return s
}

// writeCoverage dumps, per entry, the block coverage of every executed function (dev aid for tools/coverage.py).
func writeCoverage(spec *CheckSpec, tier string, results []*EntryResult) {
	dir := os.Getenv("VERIF_COVERAGE_DIR")
	os.MkdirAll(dir, 0o755)
	out := map[string]any{}
	for _, r := range results {
		out[r.Entry] = r.Funcs
	}
	b, _ := json.Marshal(map[string]any{"check": spec.Property, "tier": tier, "entries": out})
	os.WriteFile(filepath.Join(dir, spec.Property+"-"+tier+".json"), b, 0o644)
}

func writeEvidence(spec *CheckSpec, tier string, seed int, results []*EntryResult, viol []Violation, known map[string]string, inconclusive, vacuous []string, loadS, wall float64) {
	paths, completed, nontriv, obl, dis, queries, unknown, merged := 0, 0, 0, 0, 0, 0, 0, 0
	solverS := 0.0
	var funcs []FuncInfo
	fseen := map[string]bool{}
	var samples []any
	var entries []any
	reach := map[string]int{}
	for _, r := range results {
		paths += r.Paths
		completed += r.Completed
		nontriv += r.Nontrivial
		obl += r.Obligations
		dis += r.Discharged
		queries += r.Queries
		unknown += r.Unknown
		merged += r.Merged
		solverS += r.SolverS
		for _, f := range r.Funcs {
			if !fseen[f.Fn] && !strings.Contains(f.Fn, ".zz") && !strings.Contains(f.Fn, ".v") || (!fseen[f.Fn] && strings.Contains(f.Fn, "go-sdk")) {
				fseen[f.Fn] = true
				funcs = append(funcs, f)
			}
		}
		for k, n := range r.Reach {
			reach[r.Entry+":"+k] += n
		}
		for _, s := range r.Samples {
			if s != nil && len(samples) < 12 {
				samples = append(samples, map[string]any{"entry": r.Entry, "path_inputs": s})
			}
		}
		entries = append(entries, map[string]any{"entry": r.Entry, "paths": r.Paths, "completed": r.Completed, "outcomes": r.Outcomes,
			"obligations": r.Obligations, "discharged": r.Discharged, "queries": r.Queries, "solver_s": r.SolverS, "wall_s": r.WallS, "merged": r.Merged, "spawned": r.Spawned})
	}
	for _, v := range viol {
		samples = append(samples, map[string]any{"entry": v.Entry, "violation": v.Label, "model": v.Model, "replayed": v.Replayed})
	}
	if len(samples) == 0 {
		samples = append(samples, map[string]any{"note": "no symbolic inputs on the sampled paths"})
	}
	// keep the function list to module functions that are part of the code under test
	var kernel []FuncInfo
	for _, f := range funcs {
		if strings.Contains(f.Fn, "go-sdk") && !strings.Contains(f.Fn, ".zz") && !regexp.MustCompile(`\.v[A-Z]\w*$`).MatchString(f.Fn) {
			kernel = append(kernel, f)
		}
	}
	ev := map[string]any{
		"property_id": spec.Property,
		"tier":        tier,
		"seed":        seed,
		"level":       "other",
		"coverage": map[string]any{
			"explanation":         spec.Explanation,
			"technique":           spec.Technique,
			"evaluations":         paths,
			"distinct_nontrivial": nontriv,
			"rule":                "evaluations = symbolic paths explored (each a distinct decision vector over the real SSA, including paths pruned by assumptions or merged at section boundaries); distinct_nontrivial = completed paths that executed at least one vAssert obligation (distinct by construction: no two paths share a decision vector)",
			"obligations":         obl,
			"discharged":          dis,
			"paths_completed":     completed,
			"queries":             queries,
			"solver_s":            solverS,
			"solver_unknown":      unknown,
			"merged_paths":        merged,
			"load_and_ssa_s":      loadS,
			"functions_encoded":   kernel,
			"bounds":              spec.Bounds,
			"stubs":               spec.Stubs,
			"outside_claim":       spec.Outside,
			"entries":             entries,
			"vacuity_witnesses":   reach,
			"known_findings_hit":  known,
			"inconclusive":        inconclusive,
			"vacuous":             vacuous,
			"samples":             samples,
			"exhaustive":          false,
			"checker_cmd":         "bin/gosmt check " + spec.Property + " --tier " + tier,
			"trusted_base":        []string{"go/packages+go/ssa (x/tools v0.50.0)", "gosmt executor semantics", "z3 4.8.12", "harness stubs listed under stubs"},
		},
		"assumptions": spec.Assumptions,
		"wall_s":      wall,
		"violations":  len(viol),
	}
	dir := filepath.Join(verifRoot, "evidence")
	if d := os.Getenv("VERIF_EVIDENCE_DIR"); d != "" {
		dir = d // used when running against mutants, so that committed evidence is not overwritten
	} else if partialRun {
		dir = filepath.Join(verifRoot, ".work", "evidence-partial") // --only / --overlay: a development run, not the check
	}
	os.MkdirAll(dir, 0o755)
	b, _ := json.MarshalIndent(ev, "", " ")
	os.WriteFile(filepath.Join(dir, spec.Property+".json"), b, 0o644)
}
