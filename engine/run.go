package main

import (
	"fmt"
	"os"
	"runtime/debug"
	"sort"
	"strings"

	"golang.org/x/tools/go/ssa"
)

func newExec(e *Engine, sol *Solver) *Exec {
	x := &Exec{eng: e, prog: e.l.prog, sol: sol, unwind: e.spec.Unwind, sched: e.spec.Sched, maxPreempt: e.spec.Preempt,
		memoOn: e.spec.Memo, trace: e.trace, funcsSeen: map[*ssa.Function]bool{}, rvalues: map[*Agg]Value{}, blocksSeen: e.newBlockSet(), extSeen: map[string]int{}}
	if x.unwind == 0 {
		x.unwind = 12
	}
	return x
}

// runOnce executes the entry along dec. concrete != nil switches to concrete replay (inputs taken from the
// table, no solver-decided branches).
func (x *Exec) runOnce(dec []Dec, concrete map[string]string) (out abortSig, pr *pathReport) {
	x.dec = dec
	x.pos = 0
	x.prefixLen = len(dec)
	x.nobj, x.nsym, x.syms = 0, 0, nil
	x.symTags = map[string]string{}
	x.tagCount = map[string]int{}
	x.globals = map[*ssa.Global]*Object{}
	x.reached = map[string]bool{}
	x.knownHit = map[string]string{}
	x.hooks = nil
	x.inHook = false
	x.spawned, x.spawnedNames = nil, nil
	x.shared = nil
	x.regions = map[string][]knownRegion{}
	x.tokens = nil
	x.syncMaps = nil // contents of sync.Map objects are per path (object ids restart with every path)
	x.syncPools = nil
	x.timerResets = nil
	x.decoders, x.jsonExact = nil, false
	x.rvalues = map[*Agg]Value{}
	x.randN = 0
	x.inJSONMethod = map[*ssa.Function]bool{}
	x.spec = false
	x.concrete = concrete
	x.ctxN = 0
	x.decided = map[string]bool{}
	x.gapMemo = nil
	x.seqLocks, x.wg, x.atomicPtr, x.lastNow, x.guards, x.ufMemo, x.goInline = nil, nil, nil, nil, nil, nil, nil
	x.allowPanic = x.eng.spec.AllowPanic
	x.params = x.eng.spec.Params
	pr = &pathReport{}
	x.pr = pr
	x.initSched()
	defer x.killAll()
	x.sol.Push()
	defer x.sol.Pop()
	defer func() {
		if r := recover(); r != nil {
			a, ok := r.(abortSig)
			if !ok {
				if _, isSpec := r.(specFail); isSpec {
					a = abortSig{"INCONCLUSIVE", "speculation escaped"}
				} else {
					if os.Getenv("VERIF_DEBUG") != "" {
						fmt.Fprintf(os.Stderr, "%v\n%s\n", r, debug.Stack())
					}
					panic(fmt.Sprintf("%v [entry %s decisions %s]", r, x.eng.spec.Name, encodeDec(x.dec[:min(x.pos, len(x.dec))])))
				}
			}
			out = x.classify(a, pr)
		}
	}()
	if x.eng.initFn != nil {
		x.lenient = true
		x.call(x.eng.initFn, nil, nil)
		x.lenient = false
	}
	x.call(x.eng.entry, nil, nil)
	if len(x.eng.res.Samples) < 3 && x.concrete == nil && len(x.syms) > 0 {
		if r := x.sol.Check(); r == "sat" {
			pr.model = x.modelByTag()
		}
	}
	if x.knownPath {
		return abortSig{"KNOWN", "violations inside listed known-finding regions only"}, pr
	}
	return abortSig{"OK", ""}, pr
}

func (x *Exec) modelByTag() map[string]string {
	m := x.sol.Model(x.syms)
	out := map[string]string{}
	for n, v := range m {
		out[x.symTags[n]] = v
	}
	return out
}

// classify post-processes an abort: allowed panics, attribution to known-finding regions, model extraction.
func (x *Exec) classify(a abortSig, pr *pathReport) abortSig {
	switch a.Kind {
	case "PANIC":
		for _, s := range x.allowPanic {
			if strings.Contains(a.Msg, s) {
				return abortSig{"PANIC-ALLOWED", a.Msg}
			}
		}
	case "VIOLATION":
		pr.label = a.Msg
	}
	switch a.Kind {
	case "PANIC", "BLOCKED", "DEADLOCK", "UNWIND":
		// attribute to a known region registered under the kind's name, if the whole path lies inside it
		var rs []knownRegion
		for _, r := range x.regions[a.Kind] {
			if x.eng.activeKnown[r.key] {
				rs = append(rs, r)
			}
		}
		if len(rs) > 0 {
			all := tFalse
			for _, r := range rs {
				all = tOr(all, r.cond)
			}
			if !x.satQuiet(tNot(all)) {
				for _, r := range rs {
					if x.satQuiet(r.cond) {
						x.knownHit[r.key] = a.Kind + ": " + a.Msg
					}
				}
				return abortSig{"KNOWN", a.Msg}
			}
			x.sol.Assert(tNot(all))
		}
		pr.label = a.Kind
		if a.Kind == "PANIC" {
			pr.label = "PANIC"
		}
	}
	switch a.Kind {
	case "VIOLATION", "PANIC", "BLOCKED", "DEADLOCK", "UNWIND":
		if x.concrete != nil {
			pr.model = x.concrete
		} else if len(x.syms) > 0 {
			if r := x.sol.Check(); r == "sat" {
				pr.model = x.modelByTag()
			}
		} else {
			pr.model = map[string]string{}
		}
	}
	return a
}

func (x *Exec) satQuiet(t *Term) bool {
	if t.IsConc() {
		return t.C.(bool)
	}
	r := x.sol.CheckWith(t)
	return r != "unsat"
}

// doAssert implements vAssert(c, label).
func (x *Exec) doAssert(c *Term, label string) {
	if x.pos < x.prefixLen && x.concrete == nil && !c.IsConc() {
		// Still replaying the decision prefix inherited from the path that forked this one: that path executed this
		// very assertion under the same path condition and discharged it (had it failed, it would have stopped here
		// and this alternative would not exist). Keep the fact, do not ask again, do not count it twice.
		x.sol.Assert(c)
		return
	}
	x.pr.asserts++
	if c.IsConc() && c.C.(bool) {
		x.pr.proved++
		return
	}
	viol := tNot(c)
	if !c.IsConc() && !x.sat(viol) {
		x.pr.proved++
		x.sol.Assert(c)
		return
	}
	var rs []knownRegion
	for _, r := range x.regions[label] {
		if x.eng.activeKnown[r.key] {
			rs = append(rs, r)
		}
	}
	if len(rs) > 0 {
		all := tFalse
		for _, r := range rs {
			all = tOr(all, r.cond)
		}
		if !x.satQuiet(tAnd(viol, tNot(all))) {
			for _, r := range rs {
				if x.satQuiet(tAnd(viol, r.cond)) {
					w := "witness"
					if len(x.syms) > 0 && x.concrete == nil {
						x.sol.Push()
						x.sol.Assert(tAnd(viol, r.cond))
						if x.sol.Check() == "sat" {
							w = fmtModel(x.modelByTag())
						}
						x.sol.Pop()
					}
					x.knownHit[r.key] = label + " " + w
				}
			}
			// Every violation of this assertion lies inside listed regions: it is reported as KNOWN-FINDING. The path
			// goes on with its condition unchanged (an assertion does not alter the program), so that LATER assertions
			// are still evaluated for the very inputs of the known region — a change that swaps one symptom for
			// another inside that region is then not masked by the listed one.
			x.knownPath = true
			return
		}
		if !viol.IsConc() {
			x.sol.Assert(tAnd(viol, tNot(all)))
		}
		x.abort("VIOLATION", label)
	}
	if !viol.IsConc() {
		x.sol.Assert(viol)
	}
	x.abort("VIOLATION", label)
}

func fmtModel(m map[string]string) string {
	var ks []string
	for k := range m {
		ks = append(ks, k)
	}
	sort.Strings(ks)
	var b strings.Builder
	for i, k := range ks {
		if i > 0 {
			b.WriteByte(' ')
		}
		if i >= 24 {
			b.WriteString("…")
			break
		}
		fmt.Fprintf(&b, "%s=%s", k, m[k])
	}
	return b.String()
}

// Replay re-executes one violation concretely: inputs fixed to the model, only free choices replayed.
func (l *Loaded) Replay(spec *EntrySpec, activeKnown map[string]bool, v *Violation) (string, error) {
	e := &Engine{l: l, spec: spec, modPath: l.modPath, over: map[string]*ssa.Function{}, activeKnown: activeKnown,
		memo: map[string]bool{}, funcs: map[*ssa.Function]bool{}}
	e.cond = nil
	e.noFold, e.noWrap, e.mapOrderFork = spec.NoFold, spec.NoWrap, spec.MapOrder
	e.entry = l.findFunc(spec.Name)
	if e.entry == nil {
		return "", fmt.Errorf("entry %s not found", spec.Name)
	}
	if !spec.NoInit {
		e.initFn = e.entry.Pkg.Func("init")
	}
	for k, vv := range spec.Overrides {
		hf := l.findFunc(vv)
		if hf == nil {
			return "", fmt.Errorf("override target %s not found", vv)
		}
		e.over[k] = hf
	}
	e.res = &EntryResult{Entry: spec.Name, Outcomes: map[string]int{}, Reach: map[string]int{}, ViolCount: map[string]int{}, Known: map[string]string{}}
	e.res.Samples = make([]map[string]string, 3) // suppress sampling
	e.replayMode = true
	sol := <-l.solvers
	defer func() { l.solvers <- sol }()
	x := newExec(e, sol)
	x.memoOn = false
	var free []Dec
	for _, d := range decodeDec(v.Decisions) {
		if d.K == 'c' {
			free = append(free, d)
		}
	}
	model := v.Model
	if model == nil {
		model = map[string]string{}
	}
	out, pr := x.runOnce(free, model)
	got := out.Kind
	label := pr.label
	if label == "" {
		label = out.Kind
	}
	if got == v.Kind && label == v.Label {
		return "reproduced", nil
	}
	return fmt.Sprintf("not reproduced: concrete run gave %s %s %s", got, label, out.Msg), nil
}
