package main

import (
	"fmt"
	"go/token"
	"go/types"
	"math"
	"math/big"
	"strconv"
	"strings"
)

var (
	two64 = new(big.Int).Lsh(big.NewInt(1), 64)
)

// intRange returns the value range of an integer type (ok=false for non-integers / untyped).
func intRange(t types.Type) (lo, hi *big.Int, ok bool) {
	if t == nil {
		return nil, nil, false
	}
	b, isB := t.Underlying().(*types.Basic)
	if !isB || b.Info()&types.IsInteger == 0 {
		return nil, nil, false
	}
	bits := 64
	unsigned := b.Info()&types.IsUnsigned != 0
	switch b.Kind() {
	case types.Int8, types.Uint8:
		bits = 8
	case types.Int16, types.Uint16:
		bits = 16
	case types.Int32, types.Uint32:
		bits = 32
	case types.UntypedInt, types.UntypedRune:
		return nil, nil, false
	}
	if unsigned {
		return big.NewInt(0), new(big.Int).Sub(new(big.Int).Lsh(big.NewInt(1), uint(bits)), big.NewInt(1)), true
	}
	h := new(big.Int).Lsh(big.NewInt(1), uint(bits-1))
	return new(big.Int).Neg(h), new(big.Int).Sub(h, big.NewInt(1)), true
}

func termBig(t *Term) (*big.Int, bool) {
	if t.IsConc() {
		return big.NewInt(t.C.(int64)), true
	}
	// big literal (not representable in int64)
	e := t.E
	neg := false
	if strings.HasPrefix(e, "(- ") && strings.HasSuffix(e, ")") {
		neg = true
		e = e[3 : len(e)-1]
	}
	if b, ok := new(big.Int).SetString(e, 10); ok {
		if neg {
			b.Neg(b)
		}
		return b, true
	}
	return nil, false
}

// fit applies two's-complement wrap-around of type t to the exact integer term v. If the exact value can
// leave the range, the path forks into the in-range and the wrapped case.
func (x *Exec) fit(v *Term, t types.Type) *Term {
	lo, hi, ok := intRange(t)
	if !ok || v.S != SInt {
		return v
	}
	if b, isLit := termBig(v); isLit {
		if b.Cmp(lo) >= 0 && b.Cmp(hi) <= 0 {
			return v
		}
		size := new(big.Int).Add(new(big.Int).Sub(hi, lo), big.NewInt(1))
		r := new(big.Int).Sub(b, lo)
		r.Mod(r, size)
		r.Add(r, lo)
		return mkBig(r)
	}
	if x.eng.noWrap {
		return v
	}
	if bl, bh, ok := boundsOf(v); ok && lo.IsInt64() && bl >= lo.Int64() && (!hi.IsInt64() || bh <= hi.Int64()) {
		return v // provably in range: no solver query needed
	}
	tl, th := mkBig(lo), mkBig(hi)
	in := tAnd(app(SBool, "<=", tl, v), app(SBool, "<=", v, th))
	if !x.sat(tNot(in)) {
		return v
	}
	if x.branch(in) {
		return v
	}
	size := mkBig(new(big.Int).Add(new(big.Int).Sub(hi, lo), big.NewInt(1)))
	return app(SInt, "+", app(SInt, "mod", app(SInt, "-", v, tl), size), tl)
}

func pow2(k int64) *Term { return mkBig(new(big.Int).Lsh(big.NewInt(1), uint(k))) }

func (x *Exec) binop(op token.Token, a, b Value, opType, resType types.Type) Value {
	if r, ok := x.strBinop(op, a, b); ok {
		return r
	}
	switch op {
	case token.EQL, token.NEQ:
		if r := x.tokenByteCmp(a, b, opType); r != nil {
			if op == token.NEQ {
				return tNot(r)
			}
			return r
		}
	}
	switch op {
	case token.EQL:
		return x.eqVal(a, b)
	case token.NEQ:
		return tNot(x.eqVal(a, b))
	}
	ta, okA := a.(*Term)
	tb, okB := b.(*Term)
	if !okA || !okB {
		x.abort("UNSUPPORTED", fmt.Sprintf("binop %s on %T,%T", op, a, b))
	}
	switch ta.S {
	case SFloat, SFInt:
		return x.fbinop(op, ta, tb)
	case SInt:
		return x.intBinop(op, ta, tb, opType)
	case SStr:
		p, q := ta.C.(string), tb.C.(string)
		switch op {
		case token.ADD:
			return mkStr(p + q)
		case token.LSS:
			return mkBool(p < q)
		case token.LEQ:
			return mkBool(p <= q)
		case token.GTR:
			return mkBool(p > q)
		case token.GEQ:
			return mkBool(p >= q)
		}
	case SBool:
		switch op {
		case token.AND:
			return tAnd(ta, tb)
		case token.OR:
			return tOr(ta, tb)
		}
	}
	x.abort("UNSUPPORTED", fmt.Sprintf("binop %s on %s", op, ta.S))
	return nil
}

func (x *Exec) intBinop(op token.Token, ta, tb *Term, t types.Type) Value {
	switch op {
	case token.LSS:
		return tLt(ta, tb)
	case token.LEQ:
		return tLe(ta, tb)
	case token.GTR:
		return tLt(tb, ta)
	case token.GEQ:
		return tLe(tb, ta)
	case token.ADD:
		return x.fit(tAdd(ta, tb), t)
	case token.SUB:
		return x.fit(tSub(ta, tb), t)
	}
	ba, la := termBig(ta)
	bb, lb := termBig(tb)
	if la && lb {
		r := new(big.Int)
		_, _, isInt := intRange(t)
		unsigned := false
		if isInt {
			unsigned = t.Underlying().(*types.Basic).Info()&types.IsUnsigned != 0
		}
		switch op {
		case token.MUL:
			r.Mul(ba, bb)
		case token.QUO:
			if bb.Sign() == 0 {
				x.abort("PANIC", "integer divide by zero")
			}
			r.Quo(ba, bb)
		case token.REM:
			if bb.Sign() == 0 {
				x.abort("PANIC", "integer divide by zero")
			}
			r.Rem(ba, bb)
		case token.SHL:
			if bb.Int64() >= 64 {
				r.SetInt64(0)
			} else {
				r.Lsh(ba, uint(bb.Int64()))
			}
		case token.SHR:
			if bb.Int64() >= 64 {
				if ba.Sign() < 0 {
					r.SetInt64(-1)
				}
			} else {
				r.Rsh(ba, uint(bb.Int64()))
			}
		case token.AND, token.OR, token.XOR, token.AND_NOT:
			// operate on the two's complement representation (64 bit)
			ua, ub := new(big.Int).Set(ba), new(big.Int).Set(bb)
			if ua.Sign() < 0 {
				ua.Add(ua, two64)
			}
			if ub.Sign() < 0 {
				ub.Add(ub, two64)
			}
			switch op {
			case token.AND:
				r.And(ua, ub)
			case token.OR:
				r.Or(ua, ub)
			case token.XOR:
				r.Xor(ua, ub)
			case token.AND_NOT:
				r.AndNot(ua, ub)
			}
			if !unsigned && r.Cmp(new(big.Int).Rsh(two64, 1)) >= 0 {
				r.Sub(r, two64)
			}
		default:
			x.abort("UNSUPPORTED", "int binop "+op.String())
		}
		return x.fit(mkBig(r), t)
	}
	switch op {
	case token.MUL:
		return x.fit(app(SInt, "*", ta, tb), t)
	case token.QUO, token.REM:
		if !lb {
			if x.branch(tEq(tb, mkInt(0))) {
				x.abort("PANIC", "integer divide by zero")
			}
		} else if bb.Sign() == 0 {
			x.abort("PANIC", "integer divide by zero")
		}
		zero := mkInt(0)
		absA := tIte(tLe(zero, ta), ta, app(SInt, "-", ta))
		absB := tIte(tLe(zero, tb), tb, app(SInt, "-", tb))
		if op == token.QUO {
			q0 := app(SInt, "div", absA, absB)
			same := app(SBool, "=", tLe(zero, ta), tLe(zero, tb))
			return x.fit(tIte(same, q0, app(SInt, "-", q0)), t)
		}
		r0 := app(SInt, "mod", absA, absB)
		return tIte(tLe(zero, ta), r0, app(SInt, "-", r0))
	case token.SHL:
		if lb && bb.IsInt64() && bb.Int64() < 64 {
			return x.fit(app(SInt, "*", ta, pow2(bb.Int64())), t)
		}
	case token.SHR:
		if lb && bb.IsInt64() && bb.Int64() < 64 {
			return app(SInt, "div", ta, pow2(bb.Int64())) // floor division == arithmetic shift
		}
	case token.AND:
		// x & (2^k - 1) for non-negative x
		for _, pr := range [][2]*Term{{ta, tb}, {tb, ta}} {
			if m, ok := termBig(pr[1]); ok && m.Sign() > 0 {
				m1 := new(big.Int).Add(m, big.NewInt(1))
				if m1.BitLen()-1 == int(m1.TrailingZeroBits()) { // power of two
					if !x.sat(tLt(pr[0], mkInt(0))) {
						return app(SInt, "mod", pr[0], mkBig(m1))
					}
				}
			}
		}
	}
	x.abort("UNSUPPORTED", fmt.Sprintf("symbolic int binop %s", op))
	return nil
}

func (x *Exec) convert(v Value, from, to types.Type) Value {
	fb, _ := from.Underlying().(*types.Basic)
	tb, _ := to.Underlying().(*types.Basic)
	isInt := func(b *types.Basic) bool { return b != nil && b.Info()&types.IsInteger != 0 }
	isFlt := func(b *types.Basic) bool { return b != nil && b.Info()&types.IsFloat != 0 }
	isStr := func(b *types.Basic) bool { return b != nil && b.Info()&types.IsString != 0 }
	switch {
	case isInt(fb) && isInt(tb):
		return x.fit(v.(*Term), to)
	case isInt(fb) && isFlt(tb):
		return x.intToFloat(v.(*Term), from)
	case isFlt(fb) && isInt(tb):
		return x.floatToInt(v.(*Term), to)
	case isFlt(fb) && isFlt(tb):
		if tb.Kind() == types.Float32 || fb.Kind() == types.Float32 {
			x.abort("UNSUPPORTED", "float32")
		}
		return v
	case isStr(fb) && isStr(tb):
		return v
	case isInt(fb) && isStr(tb): // string(rune)
		t := v.(*Term)
		if t.IsConc() {
			return mkStr(string(rune(t.C.(int64))))
		}
		if x.branch(tAnd(tLe(mkInt(0), t), tLt(t, mkInt(128)))) {
			return &StrV{B: []*Term{t}}
		}
		x.abort("UNSUPPORTED", "string(rune) of symbolic non-ASCII rune")
	case isStr(fb):
		if sl, ok := to.Underlying().(*types.Slice); ok {
			if isByte(sl.Elem()) {
				if rs, ok := v.(*RankStr); ok {
					_ = rs
					x.abort("UNSUPPORTED", "[]byte of rank-encoded string")
				}
				sv := x.toStrV(v)
				a := &Agg{}
				for _, t := range sv.B {
					a.Elems = append(a.Elems, t)
				}
				return &SliceV{Arr: x.newObj(a, "[]byte(s)"), Len: len(a.Elems), Cap: len(a.Elems)}
			}
			// []rune(s): ASCII only
			sv := x.toStrV(v)
			a := &Agg{}
			for _, t := range sv.B {
				if !x.assumeASCII(t) {
					x.abort("UNSUPPORTED", "[]rune of non-ASCII string")
				}
				a.Elems = append(a.Elems, t)
			}
			return &SliceV{Arr: x.newObj(a, "[]rune(s)"), Len: len(a.Elems), Cap: len(a.Elems)}
		}
	case isStr(tb):
		if sl, ok := from.Underlying().(*types.Slice); ok && isByte(sl.Elem()) {
			s, _ := v.(*SliceV)
			r := &StrV{}
			for _, e := range x.sliceElems(s) {
				r.B = append(r.B, e.(*Term))
			}
			return normStr(r)
		}
	}
	if _, ok := to.Underlying().(*types.Pointer); ok {
		if _, ok := from.Underlying().(*types.Pointer); ok {
			return v
		}
	}
	x.abort("UNSUPPORTED", fmt.Sprintf("convert %v -> %v", from, to))
	return nil
}

// assumeASCII returns true when t is provably < 128 on this path.
func (x *Exec) assumeASCII(t *Term) bool {
	if t.IsConc() {
		return t.C.(int64) < 128
	}
	return !x.sat(tLe(mkInt(128), t))
}

// ---------------------------------------------------------------- float64

func mkFloat(f float64) *Term {
	bits := math.Float64bits(f)
	s := fmt.Sprintf("%064b", bits)
	return &Term{S: SFloat, E: "(fp #b" + s[:1] + " #b" + s[1:12] + " #b" + s[12:] + ")", C: f}
}

func fneg(t *Term) *Term {
	if t.S == SFInt {
		return &Term{S: SFInt, E: "(- " + t.E + ")"}
	}
	if t.IsConc() {
		return mkFloat(-t.C.(float64))
	}
	return app(SFloat, "fp.neg", t)
}

func floatFromModel(v string) *Term {
	// z3 prints (fp #b0 #b10000000000 #x0000000000000) or special values
	v = strings.TrimSpace(v)
	switch {
	case strings.Contains(v, "+oo"):
		return mkFloat(math.Inf(1))
	case strings.Contains(v, "-oo"):
		return mkFloat(math.Inf(-1))
	case strings.Contains(v, "NaN"):
		return mkFloat(math.NaN())
	case strings.Contains(v, "+zero"):
		return mkFloat(0)
	case strings.Contains(v, "-zero"):
		return mkFloat(math.Copysign(0, -1))
	}
	f := strings.Fields(strings.Trim(v, "()"))
	if len(f) == 4 && f[0] == "fp" {
		bits := ""
		for _, p := range f[1:] {
			if strings.HasPrefix(p, "#b") {
				bits += p[2:]
			} else if strings.HasPrefix(p, "#x") {
				for _, c := range p[2:] {
					n, _ := strconv.ParseUint(string(c), 16, 8)
					bits += fmt.Sprintf("%04b", n)
				}
			}
		}
		if len(bits) == 64 {
			u, _ := strconv.ParseUint(bits, 2, 64)
			return mkFloat(math.Float64frombits(u))
		}
	}
	return mkFloat(0)
}

// fintCmp compares two float values of which at least one is an integer-valued symbolic float (SFInt).
// op is one of = < <=.
func fintCmp(op string, a, b *Term) *Term {
	asInt := func(t *Term, roundUp bool) (*Term, bool) {
		if t.S == SFInt {
			return &Term{S: SInt, E: t.E}, true
		}
		if t.S == SFloat && t.IsConc() {
			f := t.C.(float64)
			if math.IsNaN(f) || math.IsInf(f, 0) {
				return nil, false
			}
			bf := new(big.Float).SetFloat64(f)
			bi, acc := bf.Int(nil) // truncation toward zero
			if acc != big.Exact {
				// non-integral constant: replace by the neighbouring integer that preserves the comparison
				if (f > 0) == roundUp {
					bi.Add(bi, big.NewInt(1))
				}
				if f < 0 && !roundUp {
					bi.Sub(bi, big.NewInt(1))
				}
				if op == "=" {
					return nil, false
				}
			}
			return mkBig(bi), true
		}
		return nil, false
	}
	// a op b : for a non-integral constant c on the right of "<" we need a < ceil(c); of "<=" a <= floor(c);
	// on the left of "<": floor(c) < b  <=> floor(c)+... handled by choosing rounding direction per side.
	var ia, ib *Term
	var ok1, ok2 bool
	switch op {
	case "<":
		ia, ok1 = asInt(a, false) // c < b  <=> floor(c) < b (c non-integral: floor(c) < b <=> c < b for integer b)
		ib, ok2 = asInt(b, true)  // a < c  <=> a < ceil(c)
	case "<=":
		ia, ok1 = asInt(a, true)  // c <= b <=> ceil(c) <= b
		ib, ok2 = asInt(b, false) // a <= c <=> a <= floor(c)
	default:
		ia, ok1 = asInt(a, false)
		ib, ok2 = asInt(b, false)
	}
	if !ok1 || !ok2 {
		if op == "=" {
			return tFalse // an integer-valued float never equals NaN, Inf or a non-integral constant
		}
		// comparisons with NaN are false; with +/-Inf decided by sign
		for _, t := range []*Term{a, b} {
			if t.S == SFloat && t.IsConc() && math.IsNaN(t.C.(float64)) {
				return tFalse
			}
		}
		if a.S == SFloat && a.IsConc() {
			return mkBool(math.IsInf(a.C.(float64), -1))
		}
		if b.S == SFloat && b.IsConc() {
			return mkBool(math.IsInf(b.C.(float64), 1))
		}
		panic(abortSig{"UNSUPPORTED", "comparison of integer-valued float with symbolic FP term"})
	}
	return app(SBool, op, ia, ib)
}

// roundToFloat64 returns the Int term for the float64 nearest to integer t (ties to even).
func roundToFloat64(t *Term) *Term {
	abs := tIte(tLe(mkInt(0), t), t, app(SInt, "-", t))
	// binade k (2^(52+k) <= |t| < 2^(53+k)) has ulp 2^k; the largest applicable binade ends up outermost
	res := t
	for k := int64(1); k <= 11; k++ {
		p := pow2(k)
		half := pow2(k - 1)
		q := app(SInt, "div", t, p)
		rem := app(SInt, "mod", t, p)
		odd := tEq(app(SInt, "mod", q, mkInt(2)), mkInt(1))
		up := tOr(tLt(half, rem), tAnd(tEq(rem, half), odd))
		r := app(SInt, "*", tIte(up, tAdd(q, mkInt(1)), q), p)
		res = tIte(tLe(pow2(52+k), abs), r, res)
	}
	return res
}

func (x *Exec) intToFloat(t *Term, from types.Type) *Term {
	if !t.IsConc() {
		if _, lit := termBig(t); !lit {
			// symbolic integer: stay in integer arithmetic (the FP theory mixed with Int/Real is unreliable)
			lim := pow2(53)
			if !x.sat(tOr(tLt(lim, t), tLt(t, app(SInt, "-", lim)))) {
				return &Term{S: SFInt, E: t.E}
			}
			return &Term{S: SFInt, E: roundToFloat64(t).E}
		}
	}
	if t.IsConc() {
		if b, ok := from.Underlying().(*types.Basic); ok && b.Info()&types.IsUnsigned != 0 {
			return mkFloat(float64(uint64(t.C.(int64))))
		}
		return mkFloat(float64(t.C.(int64)))
	}
	if b, ok := termBig(t); ok {
		f, _ := new(big.Float).SetInt(b).Float64()
		return mkFloat(f)
	}
	return &Term{S: SFloat, E: "((_ to_fp 11 53) RNE (to_real " + t.E + "))"}
}

// floatToInt models Go's float64 -> integer conversion: truncation toward zero; values outside the target
// range (and NaN) are implementation-specific in Go — amd64 yields the minimum int64, which is what we model
// for int64 targets; other targets are unsupported when the value can be out of range.
func (x *Exec) floatToInt(t *Term, to types.Type) *Term {
	lo, hi, _ := intRange(to)
	if t.S == SFInt {
		k := to.Underlying().(*types.Basic).Kind()
		if k != types.Int64 && k != types.Int {
			x.abort("UNSUPPORTED", "integer-valued float to "+to.String())
		}
		v := &Term{S: SInt, E: t.E}
		return tIte(tAnd(tLe(mkBig(lo), v), tLe(v, mkBig(hi))), v, mkBig(lo))
	}
	if t.IsConc() {
		f := t.C.(float64)
		if to.Underlying().(*types.Basic).Kind() == types.Int64 || to.Underlying().(*types.Basic).Kind() == types.Int {
			return mkInt(int64(f))
		}
		return x.fit(mkInt(int64(f)), to)
	}
	k := to.Underlying().(*types.Basic).Kind()
	if k != types.Int64 && k != types.Int {
		x.abort("UNSUPPORTED", "symbolic float to "+to.String())
	}
	// r = trunc(real(t)); in range -> r ; else MinInt64
	x.nsym++
	rn := fmt.Sprintf("f2i!%d", x.nsym)
	x.sol.Declare(rn, SInt)
	r := &Term{S: SInt, E: rn}
	real := "(fp.to_real " + t.E + ")"
	isNum := "(not (or (fp.isNaN " + t.E + ") (fp.isInfinite " + t.E + ")))"
	trunc := "(ite (>= " + real + " 0.0) (to_int " + real + ") (- (to_int (- " + real + "))))"
	inr := "(and " + isNum + " (<= " + mkBig(lo).E + " " + trunc + ") (<= " + trunc + " " + mkBig(hi).E + "))"
	x.sol.send("(assert (= " + rn + " (ite " + inr + " " + trunc + " " + mkBig(lo).E + ")))")
	return r
}

func (x *Exec) fbinop(op token.Token, a, b *Term) Value {
	if a.S == SFInt || b.S == SFInt {
		switch op {
		case token.LSS:
			return fintCmp("<", a, b)
		case token.LEQ:
			return fintCmp("<=", a, b)
		case token.GTR:
			return fintCmp("<", b, a)
		case token.GEQ:
			return fintCmp("<=", b, a)
		case token.EQL:
			return fintCmp("=", a, b)
		case token.NEQ:
			return tNot(fintCmp("=", a, b))
		}
		x.abort("UNSUPPORTED", "arithmetic on integer-valued symbolic float")
	}
	if a.IsConc() && b.IsConc() {
		p, q := a.C.(float64), b.C.(float64)
		switch op {
		case token.ADD:
			return mkFloat(p + q)
		case token.SUB:
			return mkFloat(p - q)
		case token.MUL:
			return mkFloat(p * q)
		case token.QUO:
			return mkFloat(p / q)
		case token.LSS:
			return mkBool(p < q)
		case token.LEQ:
			return mkBool(p <= q)
		case token.GTR:
			return mkBool(p > q)
		case token.GEQ:
			return mkBool(p >= q)
		case token.EQL:
			return mkBool(p == q)
		case token.NEQ:
			return mkBool(p != q)
		}
	}
	switch op {
	case token.LSS:
		return app(SBool, "fp.lt", a, b)
	case token.LEQ:
		return app(SBool, "fp.leq", a, b)
	case token.GTR:
		return app(SBool, "fp.gt", a, b)
	case token.GEQ:
		return app(SBool, "fp.geq", a, b)
	case token.EQL:
		return app(SBool, "fp.eq", a, b)
	case token.NEQ:
		return tNot(app(SBool, "fp.eq", a, b))
	case token.ADD:
		return &Term{S: SFloat, E: "(fp.add RNE " + a.E + " " + b.E + ")"}
	case token.SUB:
		return &Term{S: SFloat, E: "(fp.sub RNE " + a.E + " " + b.E + ")"}
	case token.MUL:
		return &Term{S: SFloat, E: "(fp.mul RNE " + a.E + " " + b.E + ")"}
	case token.QUO:
		return &Term{S: SFloat, E: "(fp.div RNE " + a.E + " " + b.E + ")"}
	}
	x.abort("UNSUPPORTED", "float binop "+op.String())
	return nil
}

// tokenByteCmp decides "a byte of a JSON text == a literal byte" where the text is a token standing for the encoding
// of a string: such a text begins and ends with '"' (the token is one element, so any index is both its first and its
// last byte; a test against anything else is answered as "differs"). Other tokens keep their opaque identity.
func (x *Exec) tokenByteCmp(a, b Value, t types.Type) *Term {
	bt, ok := t.Underlying().(*types.Basic)
	if !ok || bt.Kind() != types.Uint8 {
		return nil
	}
	ta, okA := a.(*Term)
	tb, okB := b.(*Term)
	if !okA || !okB || !ta.IsConc() || !tb.IsConc() || ta.S != SInt || tb.S != SInt {
		return nil
	}
	ka, kb := ta.C.(int64), tb.C.(int64)
	if kb >= 1000 {
		ka, kb = kb, ka
	}
	if ka < 1000 || kb >= 256 || int(ka-1000) >= len(x.tokens) {
		return nil
	}
	ti, _ := x.tokens[ka-1000].(*tokenInfo)
	if ti == nil || ti.kind != "json" {
		return nil
	}
	arg := ti.arg
	var argT types.Type
	if iv, ok := arg.(*IfaceV); ok && iv != nil {
		arg, argT = iv.V, iv.T
	}
	if isStringVal(arg) {
		return mkBool(kb == '"')
	}
	// likewise the text of a (non-nil) array begins with '[' and ends with ']'
	if sl, ok := arg.(*SliceV); ok && sl != nil && argT != nil {
		if st, ok := argT.Underlying().(*types.Slice); ok {
			if eb, isB := st.Elem().Underlying().(*types.Basic); !isB || eb.Kind() != types.Uint8 {
				return mkBool(kb == '[' || kb == ']')
			}
		}
	}
	return nil
}

func isStringVal(v Value) bool {
	switch t := v.(type) {
	case *StrV:
		return true
	case *Term:
		return t.S == SStr
	}
	return false
}
