#!/bin/sh
# dev helper: rebuild the engine
cd /verif/engine && PATH=/opt/veriftools/go1.26.8/bin:$PATH GOTOOLCHAIN=local GOFLAGS=-mod=mod GOPROXY=off go build -o /verif/bin/gosmt . 
