#!/bin/sh
# Build the gosmt engine offline from the sources in /verif/engine.
set -e
cd "$(dirname "$0")/engine"
export PATH=/opt/veriftools/go1.26.8/bin:$PATH GOTOOLCHAIN=local GOFLAGS=-mod=mod GOPROXY=off GOSUMDB=off
mkdir -p ../bin
go build -o ../bin/gosmt .
