#!/usr/bin/env python3
"""gen_prompts.py <letter> [outdir] — write one seeding prompt per property to <outdir>/<ID>.txt (default /tmp/prompts):
the example prompt of round 7 with the property text, the ids, the round letter and the list of changes already taken
(the `summary` of every seeded/<ID>?/meta.json, cut to 330 characters) substituted."""
import sys, json, glob, re, os
letter = sys.argv[1]
out = sys.argv[2] if len(sys.argv) > 2 else '/tmp/prompts'
os.makedirs(out, exist_ok=True)
ex = open('/verif/tools/seeding/example_prompt_C14_round7.txt').read()
head, rest = ex.split('THE PROPERTY (a semantic property of the SDK that users rely on):')
_, tail = rest.split('YOUR TASK', 1)
for l in open('/verif/properties.jsonl'):
    d = json.loads(l)
    pid = d['id']
    taken = []
    for m in sorted(glob.glob('/verif/seeded/%s?/meta.json' % pid)):
        taken.append('   - ' + json.load(open(m))['summary'][:330])
    txt = head + 'THE PROPERTY (a semantic property of the SDK that users rely on):\n\n' + d['title'] + '\n\n' + d['statement'] + '\n\n\n\n' + \
        'CHANGES ALREADY TAKEN by other engineers for this property (do NOT repeat any of these or a close variant of them; choose a different code site AND a different mechanism):\n' + \
        '\n'.join(taken) + '\n\nYOUR TASK' + tail
    txt = txt.replace('C14', pid).replace('c14h', pid.lower() + letter).replace(pid + 'h', pid + letter).replace('/h/', '/%s/' % letter)
    open('%s/%s.txt' % (out, pid), 'w').write(txt)
print('wrote 20 prompts to', out)
