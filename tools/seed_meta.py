#!/usr/bin/env python3
"""Record in every /verif/seeded/<name>/meta.json what was run against it here and which check flags it
(from detection_matrix.json, i.e. from actual runs of the registered quick commands with the change overlaid)."""
import json, os, glob
res = json.load(open('/verif/detection_matrix.json'))
extra = {  # changes that are (also) flagged by the check of a neighbouring property
}
for d in sorted(glob.glob('/verif/seeded/C*')):
    name = os.path.basename(d)
    mp = os.path.join(d, 'meta.json')
    m = json.load(open(mp))
    pid = m['property']
    row = res.get(pid, {}).get('rows', {}).get('seeded:' + name)
    m['verif'] = {
        'confirmed_here': 'patch applied in a scratch worktree outside /repo; repo suite run with it (pass); demonstration test run with it (FAIL) and without it (ok); worktree removed (tools/seed_verify.py)',
        'ran': 'python3 tools/mut.py %s seeded:%s   (= ./bin/gosmt check %s --tier quick with the patched files overlaid; /repo untouched)' % (pid, name, pid),
        'verdict': row['verdict'] if row else 'not run',
        'assertions': row['labels'] if row else [],
    }
    for rf in ('round2_first_sight.json', 'round3_first_sight.json', 'round4_first_sight.json', 'round5_first_sight.json', 'round6_first_sight.json', 'round7_first_sight.json', 'round8_first_sight.json'):
        r2 = json.load(open('/verif/seeded/' + rf))
        if name in r2['first_sight']:
            m['verif']['first_sight'] = r2['first_sight'][name]
    if row and row['verdict'] != 'VIOLATION':
        m['verif']['why_not_flagged'] = 'see DESIGN.md section 7 (Misses)'
    json.dump(m, open(mp, 'w'), indent=1)
    print(name, m['verif']['verdict'])
