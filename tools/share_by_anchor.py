#!/usr/bin/env python3
"""Propose (and with --apply perform) sharing of harness entries across properties by anchor: an entry that executes
functions lying in the line ranges a property is anchored in belongs to that property's check, whichever property it
was first written for. Needs a fresh coverage run (.work/cov, tools/coverage.py run quick)."""
import sys, json, glob, os
sys.path.insert(0, '/verif/tools')
import coverage as cv
APPLY = '--apply' in sys.argv
MAXWALL = 25.0
props = cv.anchors()
fns = cv.all_functions()
# entry -> {fn: (file,line,ncovered)}
entry_cov, entry_home, entry_wall = {}, {}, {}
for f in sorted(glob.glob(cv.COV + '/*-quick.json')):
    d = json.load(open(f))
    for entry, funcs in d['entries'].items():
        m = entry_cov.setdefault(entry, {})
        for fi in funcs or []:
            fl = fi.get('file', '')
            if not fl.startswith('/repo/') or '/zz_verif' in fl: continue
            m[fi['fn']] = (fl[len('/repo/'):], fi['line'], len(fi.get('covered') or []))
for f in sorted(glob.glob('/verif/.work/covev/C*.json')):
    d = json.load(open(f))
    for e in d['coverage']['entries']:
        entry_wall[e['entry']] = max(entry_wall.get(e['entry'], 0), e['wall_s'])
specs = {}
for f in sorted(glob.glob('/verif/checks/C*.json')):
    s = json.load(open(f)); specs[s['property']] = s
    for g in s['groups']:
        for e in g['entries']:
            entry_home.setdefault(e['name'], []).append((s['property'], g))
plan = {}
for pid, p in sorted(props.items()):
    anchored = []
    for (f, name, s, e) in fns:
        for (af, a, b, what) in p['ranges']:
            if af == f and s <= b and e >= a:
                anchored.append((f, s, e)); break
    have = {e['name'] for g in specs[pid]['groups'] for e in g['entries']}
    for entry, m in sorted(entry_cov.items()):
        if entry in have or entry.startswith('zzSelf'): continue
        hit = 0
        for fn, (fl, ln, nc) in m.items():
            if any(fl == f and s <= ln <= e for (f, s, e) in anchored) and nc >= 2:
                hit += nc
        if hit >= 4 and entry_wall.get(entry, 0) <= MAXWALL:
            plan.setdefault(pid, []).append((entry, hit, round(entry_wall.get(entry, 0), 1)))
for pid, es in plan.items():
    print(pid, '+', ', '.join('%s(%d blk, %ss)' % t for t in es))
if APPLY:
    for pid, es in plan.items():
        t = specs[pid]
        for (entry, _, _) in es:
            src_pid, G = entry_home[entry][0]
            Es = [e for e in G['entries'] if e['name'] == entry]
            g = next((x for x in t['groups'] if x['pkg'] == G['pkg'] and set(G['harness']) <= set(x['harness'])), None)
            if g is None:
                g = next((x for x in t['groups'] if x['pkg'] == G['pkg']), None)
            if g is None:
                g = {'pkg': G['pkg'], 'dir': G['dir'], 'harness': [], 'entries': []}
                t['groups'].append(g)
            for f in G['harness']:
                if f not in g['harness']: g['harness'].append(f)
            g['entries'] += [json.loads(json.dumps(e)) for e in Es]
        json.dump(t, open('/verif/checks/%s.json' % pid, 'w'), indent=1, ensure_ascii=False)
    print('applied')
