#!/bin/sh
# Load every check's harness against the current tree without running any entry (catches harness files that no longer
# type-check together: BROKEN-HARNESS is exit 2). Evidence goes to a scratch directory.
cd /verif
rc=0
for i in $(seq -w 1 20); do
  VERIF_EVIDENCE_DIR=/verif/.work/loadtest ./bin/gosmt check C$i --only zzNoSuchEntry 2>&1 | grep -q "exit=0" || { echo "C$i does not load"; rc=1; }
done
exit $rc
