#!/usr/bin/env python3
"""Block coverage of /repo's real code by the registered harnesses (a dev aid that directs strengthening).

usage: coverage.py run [quick|thorough] [C01 C02 ...]   run the checks with VERIF_COVERAGE_DIR set (evidence goes elsewhere)
       coverage.py report                               aggregate .work/cov/*.json -> coverage/REPORT.md + coverage/summary.json

The engine records, per entry, every basic block (go/ssa) of every function it executed on some explored path
(also blocks folded into ite terms). The report lists, for the files each property is anchored in:
  * functions inside the anchored line ranges that no harness of that property executes at all,
  * blocks of executed functions that no path reached (with their source lines),
so that a harness author sees which code a change could be made in without any check looking at it.
A block counts as covered when executed under any feasible or not-yet-pruned path condition; coverage says
"some obligation had this code in its path", never that the code is correct."""
import sys, os, json, glob, subprocess, re, collections
ROOT = '/verif'
COV = ROOT + '/.work/cov'

def run(tier, ids):
    os.makedirs(COV, exist_ok=True)
    env = dict(os.environ, VERIF_COVERAGE_DIR=COV, VERIF_EVIDENCE_DIR=ROOT + '/.work/covev')
    for i in ids:
        p = subprocess.run([ROOT + '/bin/gosmt', 'check', i, '--tier', tier], env=env, capture_output=True, text=True, cwd=ROOT)
        print(i, 'exit', p.returncode, flush=True)

def load():
    """-> per check: {fn: {file,line,nblocks,covered:set,lines:[[lo,hi]]}}"""
    out = {}
    for f in sorted(glob.glob(COV + '/*-quick.json')) + sorted(glob.glob(COV + '/*-thorough.json')):
        d = json.load(open(f))
        chk = d['check']
        fm = out.setdefault(chk, {})
        for entry, funcs in d['entries'].items():
            for fi in funcs or []:
                fl = fi.get('file', '')
                if not fl.startswith('/repo/') or '/zz_verif' in fl or fl.endswith('_test.go'):
                    continue
                r = fm.setdefault(fi['fn'], {'file': fl[len('/repo/'):], 'line': fi['line'], 'nblocks': fi['nblocks'],
                                             'covered': set(), 'lines': fi.get('block_lines') or [], 'entries': set()})
                r['covered'] |= set(fi.get('covered') or [])
                r['entries'].add(entry)
    return out

def anchors():
    props = {}
    for l in open(ROOT + '/properties.jsonl'):
        p = json.loads(l)
        rs = []
        for k in ('state', 'mechanism'):
            for s in p['anchors'].get(k, []):
                for part in s['where'].split(';'):
                    part = part.strip()
                    m = re.match(r'(\S+?)(?::([\d,\-]+))?$', part)
                    if not m: continue
                    f = m.group(1)
                    if m.group(2):
                        for rg in m.group(2).split(','):
                            a, _, b = rg.partition('-')
                            rs.append((f, int(a), int(b or a), s['name']))
                    else:
                        rs.append((f, 1, 10**9, s['name']))
        props[p['id']] = {'title': p['title'], 'ranges': rs, 'files': p['anchors'].get('files', [])}
    return props

def all_functions():
    """every function of the module's non-test files: (file, name, start, end) via `go doc`-free regex on source."""
    res = []
    for f in subprocess.check_output(['git', '-C', '/repo', 'ls-files', '*.go'], text=True).split():
        if f.endswith('_test.go') or f.startswith('examples/') or '/testdata/' in f or f.startswith('internal/testing') or f.startswith('conformance'):
            continue
        src = open('/repo/' + f).read().split('\n')
        cur = None
        for i, line in enumerate(src, 1):
            m = re.match(r'func (\([^)]*\) )?([A-Za-z_]\w*)', line)
            if m:
                recv = ''
                if m.group(1):
                    rm = re.search(r'\*?([A-Za-z_]\w*)(\[[^\]]*\])?\s*\)\s*$', m.group(1))
                    recv = (rm.group(1) + '.') if rm else ''
                cur = [f, recv + m.group(2), i, i]
                res.append(cur)
            if cur and line.startswith('}'):
                cur[3] = i
                cur = None
    return res

def report():
    cov = load()
    props = anchors()
    fns = all_functions()
    # union over all checks
    union = {}
    for chk, fm in cov.items():
        for fn, r in fm.items():
            u = union.setdefault(fn, {'file': r['file'], 'line': r['line'], 'nblocks': r['nblocks'], 'covered': set(), 'lines': r['lines'], 'checks': set()})
            u['covered'] |= r['covered']
            u['checks'].add(chk)
    byline = collections.defaultdict(list)   # (file) -> [(line, fn)]
    for fn, u in union.items():
        byline[u['file']].append((u['line'], fn))
    def executed_by(file, start, end, checks=None):
        hit = []
        for ln, fn in byline.get(file, []):
            if start <= ln <= end and (checks is None or union[fn]['checks'] & checks):
                hit.append(fn)
        return hit
    os.makedirs(ROOT + '/coverage', exist_ok=True)
    md = ['# Block coverage of the real code by the registered harnesses', '',
          'Generated by `tools/coverage.py run quick && tools/coverage.py report` (dev aid; see the doc string).', '']
    summ = {}
    tot_b = sum(u['nblocks'] for u in union.values()); cov_b = sum(len(u['covered']) for u in union.values())
    md += ['Functions of the module executed by some harness: %d; blocks covered %d / %d (%.0f%%).' % (len(union), cov_b, tot_b, 100.0 * cov_b / max(tot_b, 1)), '']
    for pid, p in sorted(props.items()):
        md += ['## %s — %s' % (pid, p['title']), '']
        mine = cov.get(pid, {})
        # functions overlapping anchored ranges
        anchored = []
        for (f, name, s, e) in fns:
            for (af, a, b, what) in p['ranges']:
                if af == f and s <= b and e >= a:
                    anchored.append((f, name, s, e)); break
        never, partial, full = [], [], []
        for (f, name, s, e) in anchored:
            hit_mine = [fn for ln, fn in byline.get(f, []) if s <= ln <= e and fn in mine]
            hit_any = [fn for ln, fn in byline.get(f, []) if s <= ln <= e]
            if not hit_mine:
                never.append((f, name, s, e, sorted({c for fn in hit_any for c in union[fn]['checks']})))
                continue
            for fn in hit_mine:
                r = mine[fn]
                unc = [i for i in range(r['nblocks']) if i not in r['covered'] and r['lines'] and r['lines'][i][0] > 0]
                if unc:
                    partial.append((f, fn, r, unc))
                else:
                    full.append(fn)
        md += ['Anchored functions: %d; not executed by this property\'s harnesses: %d; executed with unreached blocks: %d; fully reached: %d.' % (len(anchored), len(never), len(partial), len(full)), '']
        if never:
            md += ['Not executed by %s:' % pid, '']
            for (f, name, s, e, others) in never:
                md.append('* `%s:%d-%d` `%s`%s' % (f, s, e, name, (' (executed by ' + ','.join(others) + ')') if others else ' — **by no check**'))
            md.append('')
        if partial:
            md += ['Unreached blocks (source lines) in executed anchored functions:', '']
            for (f, fn, r, unc) in sorted(partial, key=lambda t: (t[0], t[2]['line'])):
                lines = sorted({(r['lines'][i][0], r['lines'][i][1]) for i in unc})
                md.append('* `%s` (%s:%d): %d/%d blocks unreached, lines %s' % (fn.split('/')[-1], f, r['line'], len(unc), r['nblocks'],
                          ' '.join('%d' % a if a == b else '%d-%d' % (a, b) for a, b in lines[:40])))
            md.append('')
        summ[pid] = {'anchored': len(anchored), 'never': [n[1] for n in never], 'partial': len(partial), 'full': len(full)}
    open(ROOT + '/coverage/REPORT.md', 'w').write('\n'.join(md) + '\n')
    json.dump(summ, open(ROOT + '/coverage/summary.json', 'w'), indent=1)
    print('\n'.join(md[:6]))
    for pid, s in summ.items():
        print(pid, 'anchored', s['anchored'], 'never', len(s['never']), 'partial', s['partial'], 'full', s['full'])

if __name__ == '__main__':
    if sys.argv[1] == 'run':
        tier = sys.argv[2] if len(sys.argv) > 2 and sys.argv[2] in ('quick', 'thorough') else 'quick'
        ids = [a for a in sys.argv[2:] if a.startswith('C')] or ['C%02d' % i for i in range(1, 21)]
        run(tier, ids)
    else:
        report()
