#!/usr/bin/env python3
"""shareentry.py <from-check> <entry-name> <to-check>...  — copy an entry (with its group's pkg/harness) into other check specs."""
import sys, json
src, name = sys.argv[1], sys.argv[2]
d = json.load(open('/verif/checks/%s.json' % src))
for g in d['groups']:
    for e in g['entries']:
        if e['name'] == name:
            G, E = g, e
for cid in sys.argv[3:]:
    p = '/verif/checks/%s.json' % cid
    t = json.load(open(p))
    g = next((x for x in t['groups'] if x['pkg'] == G['pkg']), None)
    if g is None:
        g = {'pkg': G['pkg'], 'dir': G['dir'], 'harness': [], 'entries': []}
        for k in G:
            if k not in g: g[k] = G[k]
        t['groups'].append(g)
    for f in G['harness']:
        if f not in g['harness']: g['harness'].append(f)
    if not any(x['name'] == name for x in g['entries']):
        g['entries'].append(E)
    json.dump(t, open(p, 'w'), indent=1, ensure_ascii=False); open(p, 'a').write('\n')
    print(cid, [x['name'] for x in g['entries']])
