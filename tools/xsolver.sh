#!/bin/sh
# Cross-solver diff: run the given checks (default: the fast sequential ones) under each installed solver and
# compare verdicts. Evidence of these runs goes to .work/xsolver, never to /verif/evidence.
cd /verif
checks="${*:-C06 C07 C08 C09 C10 C11 C12 C13 C14 C15 C16 C19 C20}"
rc=0
for c in $checks; do
  line="$c"
  for s in z3 z3-new cvc5; do
    VERIF_SOLVER=$s VERIF_EVIDENCE_DIR=/verif/.work/xsolver timeout 3600 ./bin/gosmt check $c >/verif/.work/xsolver.$c.$s.log 2>&1
    e=$?
    line="$line $s=$e"
    [ $e -ne 0 ] && rc=1
  done
  echo "$line"
done
exit $rc
