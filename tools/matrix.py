#!/usr/bin/env python3
"""Run every check against its corpus mutants and seeded changes (overlays only) and write
/verif/detection_matrix.json + /verif/detection_matrix.md.   usage: matrix.py [C01 C02 ...]"""
import sys, os, re, json, subprocess, time
sys.path.insert(0, '/verif/mutants')
import corpus
# usage: matrix.py [C01 C02 ...]            re-run whole rows groups
#        matrix.py --add C02 m02f n02 ...   run only the named changes for one check and merge them
add = None
if len(sys.argv) > 2 and sys.argv[1] == '--add':
    add = sys.argv[3:]
    ids = [sys.argv[2]]
else:
    ids = sys.argv[1:] or ['C%02d' % i for i in range(1, 21)]
out_json = '/verif/detection_matrix.json'
res = json.load(open(out_json)) if os.path.exists(out_json) else {}
notes = {m['id']: m['note'] for m in corpus.M}
for cid in ids:
    t0 = time.time()
    p = subprocess.run(['python3', '/verif/tools/mut.py', cid] + (add or ['all', 'seeds', 'reverts']), capture_output=True, text=True)
    rows = dict(res.get(cid, {}).get('rows', {})) if add else {}
    for line in p.stdout.splitlines():
        m = re.match(r'(\S+)\s+(pass|VIOLATION|inconclusive/broken|\d+)\s+(\[.*?\])', line)
        if m:
            rows[m.group(1)] = {'verdict': m.group(2), 'labels': eval(m.group(3))}
    res[cid] = {'rows': rows, 'wall_s': round(time.time() - t0)}
    json.dump(res, open(out_json, 'w'), indent=1)
    print(cid, {k: v['verdict'] for k, v in rows.items()}, flush=True)
with open('/verif/detection_matrix.md', 'w') as f:
    f.write('| change | property | verdict of the quick check | first assertion that fires | what the change does |\n|---|---|---|---|---|\n')
    for cid in sorted(res):
        for n, r in res[cid]['rows'].items():
            what = notes.get(n, '')
            if n.startswith('seeded:'):
                mp = '/verif/seeded/%s/meta.json' % n[7:]
                if os.path.exists(mp):
                    what = json.load(open(mp)).get('summary', '')
            f.write('| %s | %s | %s | %s | %s |\n' % (n, cid, r['verdict'], (r['labels'] or [''])[0], what.replace('|', '/')[:160]))
