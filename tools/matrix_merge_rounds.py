#!/usr/bin/env python3
"""Merge the 'after' verdicts of seeded/roundN_first_sight.json (rounds 9, 10: measured by tools/firstsight.py with the
property's quick check) into detection_matrix.json, so that DESIGN §7's table lists those changes without re-running
tools/matrix.py (hours). usage: matrix_merge_rounds.py round9_first_sight.json round10_first_sight.json"""
import json, re, sys
mp = '/verif/detection_matrix.json'
res = json.load(open(mp))
for rf in sys.argv[1:]:
    d = json.load(open('/verif/seeded/' + rf))
    for name, v in sorted(d.get('after', {}).items()):
        cid = name[:3]
        m = re.match(r'(pass|VIOLATION|inconclusive/broken)(?: \(([^)]*)\))?', v)
        if not m:
            continue
        labels = [l.strip() for l in (m.group(2) or '').split(',') if l.strip()]
        res.setdefault(cid, {'rows': {}})['rows']['seeded:' + name] = {'verdict': m.group(1), 'labels': labels}
json.dump(res, open(mp, 'w'), indent=1)
print('merged')
