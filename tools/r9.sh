#!/bin/sh
# r9.sh C14 [letter] [round-file]: confirm the sub-agent's change in a scratch worktree, import it, record the first-sight
# verdict of the property's quick check (rounds 9 and 10)
l=${2:-j}
rf=${3:-round9_first_sight.json}
cd /verif
python3 tools/seed_verify.py $1/$l > .work/sv_$1$l.log 2>&1
if grep -q '"confirmed": true' .work/sv_$1$l.log; then
  python3 tools/firstsight.py $rf first_sight $1$l > .work/fs_$1$l.log 2>&1
  cat .work/fs_$1$l.log
else
  echo "$1$l NOT CONFIRMED"; tail -30 .work/sv_$1$l.log
fi
