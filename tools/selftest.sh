#!/bin/sh
# Translator validation: regenerate the corpus harness natively (expected values come from the real Go library) and
# push it through the engine's models with symbolic values. Exit 0 = every model agrees with the real function.
set -e
cd /verif
GOFLAGS=-mod=mod GOPROXY=off go run tools/selftest/gen.go > harness/internal/util/selftest.go
VERIF_EVIDENCE_DIR=/verif/.work/selftest exec ./bin/gosmt check SELF
