#!/usr/bin/env python3
"""addentry.py <entry.json> C02 C03 ...  — add (or replace) an entry of the ./mcp (or given pkg) group in several check specs."""
import sys, json
e = json.load(open(sys.argv[1]))
pkg = e.pop('_pkg', './mcp'); files = e.pop('_harness', [])
for cid in sys.argv[2:]:
    p = '/verif/checks/%s.json' % cid
    d = json.load(open(p))
    g = next((g for g in d['groups'] if g['pkg'] == pkg), None)
    if g is None:
        g = {'pkg': pkg, 'dir': pkg[2:], 'harness': [], 'entries': []}
        d['groups'].append(g)
    for f in files:
        if f not in g['harness']: g['harness'].append(f)
    g['entries'] = [x for x in g['entries'] if x['name'] != e['name']] + [e]
    json.dump(d, open(p, 'w'), indent=1, ensure_ascii=False); open(p, 'a').write('\n')
    print(cid, 'now has', [x['name'] for x in g['entries']])
