#!/usr/bin/env python3
"""Prose for the harness legs added after the first build (session 2): appended to each check spec's explanation /
assumptions / stubs / outside_claim so that MANIFEST, DESIGN §4 and the evidence files describe what actually runs.
Idempotent: everything after the marker is regenerated."""
import json, sys
MARK = ' Further legs: '
LEG = {
 'zzSSEPost': "SSE transport POST (SSEServerTransport.ServeHTTP): for every decoded message (any server/client/unknown method, with or without id, or a response), unreadable or malformed bodies, an unconnected or closed session — an invalid request is refused with 4xx and never queued, 202 is written iff the message was handed to the session exactly once.",
 'zzSSEConn': "SSE connection object: Read returns what was queued in arrival order; after Close writes and reads fail and Close is idempotent.",
 'zzSSEHandler': "SSEHandler.ServeHTTP: the DNS-rebinding gate (loopback listener requires a loopback Host unless disabled), the Content-Type gate, session addressing (POST without sessionid 400, unknown sessionid 404 with no effect on other sessions, known id reaches exactly that session), other methods 405, and a GET's session is forgotten when the GET ends.",
 'zzSSEVersions': "SSEServerTransport.SupportsProtocolVersion claims every legacy revision and never 2026-07-28.",
 'zzConnAwait': "AsyncCall.Await returns the call's own result or error once complete, or the context's error once the caller's context ends (either when both hold), and leaves the dispatcher's releaser alone.",
 'zzConnCall': "Frame condition for C03: Call issued from a handler context (carrying the dispatcher's releaser) never releases it — only the handler itself does, through Async.",
 'zzConnNotify': "Frame condition for C03: Notify issued from a handler context never releases the dispatcher.",
 'zzConnWrite': "write(): per-request failures (rejected, caller's context cancelled or expired) never latch writeErr; only a genuinely broken write does.",
 'zzC05ClientClose': "ClientSession.Close: keep-alive stopped, listen stream cancelled, every resource subscription cancelled and forgotten — all before the connection drains; the connection is closed (its error, if any, returned), onClose runs exactly once over repeated Close calls.",
 'zzC05ClientDisconnect': "Client.disconnect removes exactly the given session, keeps the others in order, idempotent.",
 'zzC05ClientConnClose': "streamableClientConn.Close: a DELETE naming the session is sent exactly once iff a session id is held and the server has not already said the session is gone (404), whatever else failed before; the connection context is cancelled and done closed; idempotent.",
 'zzC05SessionClose': "ServerSession.Close with a closer that may fail: onClose still runs (it is what makes the HTTP handler forget the session id).",
 'zzC09ClientPOST': "Streamable client POST (streamableClientConn.Write, setMCPHeaders, checkResponse, handleJSON): every message kind x every answer (transport error, transient status, JSON-RPC error body, 404, other statuses, 2xx with JSON / SSE / no body / unusable content type, session ids, OAuth authorize-and-retry). A call whose Write returned nil is owned by exactly one response handler, a failed Write by none; per-request failures wrap ErrRejected and leave the connection usable, 404 is ErrSessionMissing and fails it (discover excepted); every request carries Content-Type/Accept, exactly the session id held, the version header from _meta, the initialize result or the context (in that order), Bearer iff a token is held, Mcp-Method from 2026-07-28 on; bodies are closed.",
 'zzC17Kinds': "All four feature kinds through the real client iterators (Tools/Resources/ResourceTemplates/Prompts started with nil, empty or cursor-bearing params) and the real server list functions: every registered id exactly once, ascending, the traversal ends with the empty cursor, an iterator started from a cursor yields exactly the remainder.",
 'zzC17History': "Any short history of registrations, removals and listings (sets may be drained and refilled), then a fresh traversal returns exactly the items registered at that moment.",
 'zzC18CacheKinds': "Bounded interleaving search over the prompt, resource, resource-template and read-resource caches and their notification handlers (callPromptChangedHandler, callResourceChangedHandler, callResourceUpdatedHandler): a fetch inside the handler and any fetch after it is at least as new as the change.",
 'zzC07ConnectOutcomes': "Client.Connect after the negotiation: a modern session opens subscriptions/listen for exactly the list-changed notifications it has handlers for (none: no listen), an unopenable listen fails the connect and is cancelled; a legacy handshake failing at any step closes the half-built session exactly once.",
 'zzC08Standalone': "The standalone stream (GET without a request) in SSE and JSON response mode: attached writes, detached writes, resume from any seen id — exactly the messages after the cursor, consecutive stable ids.",
 'zzC02Prevalidation': "HTTP pre-validation also covers unreadable, oversized (413), empty and non-JSON bodies, Last-Event-ID on a POST and batches from 2025-06-18 on: 4xx, nothing reaches the session.",
 'zzC12ToolLookup': "ClientSession.lookupTool / CallTool: once a tool was listed, and until list_changed says otherwise, every CallTool hands the transport that definition (toolContextKey) whatever time has passed and whatever ttlMs came with the list.",
 'zzC16SetSchema': "setSchema and SchemaCache executed for real over histories of earlier tools sharing the cache: the resolved schema is the resolution of the tool's own schema (derived, supplied *Schema, or raw/map form), a pointer input type gets a usable zero value on every path. ForType/Resolve/remarshal are stubs; reflect.Type is an engine model.",
 'zzC19Results': "CallToolResult, GetPromptResult, ReadResourceResult through their real MarshalJSON/UnmarshalJSON: the JSON text between the two local wire structs is the engine's member matching (embedded structs flattened, shallower members shadow deeper ones, omitempty, custom member codecs), validated against encoding/json by the translator self-test.",
 'zzC03ClientGate': "Client gate: every call the client can receive is released with Async before the method layer runs (so a parked sampling/elicitation handler never holds up a ping), notifications never.",
 'zzConnReaderResponse': "Reader exit under every way reading can end (transport error, clean or wrapped EOF): nothing stays tracked and every request still in flight is cancelled.",
 'zzC04Preempt': "Preempt decodes the requestId of notifications/cancelled for every int64 and string id and cancels exactly that id (integers beyond 2^53 included: defect D9, fixed).",
 'zzC02JSONBatch': "JSON response mode: the answers to a POST of several calls are flushed together once the last one is written — each payload is the encoding of its own message (a pooled or reused encode buffer would alias them), in request order.",
 'zzC13ViaSession': "The same keep-alive oracle through the real ServerSession/ClientSession.startKeepalive wrappers (Ping and Close overridden), including pings that cannot be delivered at all.",
 'zzC18CapabilityGates': "list-changed fan-out per capability: a disabled capability notifies nobody, an enabled one every entitled session; client-side fan-out to its sessions.",
 'zzC18HandshakeEra': "A session that went through the real initialize handshake is a legacy session whatever revision the client asked for (2026-07-28, newer, unknown, empty): the answer is a supported legacy version, and the session is among the recipients of list-changed and resource-updated notifications without subscriptions/listen and may be sent requests (defect D11, fixed).",
 'zzC03ReadBatch': "readBatch: a batch of 1..16 messages (small ones every mix of call/notification/response, larger ones by pattern — library sorts change algorithm and stability with the length) comes back in exactly the order of the array; a single message, nothing, blanks only, an empty array, a non-message: an error, never a panic.",
 'zzC05CmdClose': "CommandTransport shutdown (pipeRWC.Close) against a model child with every exit behaviour (on EOF, on SIGTERM, on SIGKILL, never), failing signals, and waits racing timers that may have fired already (bounded scheduler): Close never hangs, escalates EOF, then SIGTERM, then SIGKILL at most once each and in that order, reports success only for a child that is gone and gives up only after SIGKILL.",
 'zzC14Repeat': "One middleware instance over a history of 3 (thorough 5) requests of any mix (no credential, unknown token, token lacking a scope, good token): status, challenge (exactly one WWW-Authenticate value) and admission of each request are those of the same request served first.",
 'zzC17IterAnyPager': "paginate against ANY pager (1-3 pages of 0-2 items each, cursors on all but the last — an empty page that still carries a cursor included): the iterator yields what manual paging yields, fetches every page exactly once and follows the cursor each page names.",
 'zzC11Stateless': "Stateless handler under every configuration (event store, JSON/SSE answers, session timeout) and every version header — the known ones, an unknown legacy-era one (400, nothing served) and one newer than 2026-07-28, which must reach the session layer because that is where -32022 with the supported list is produced (C06).",
 'zzC09Resume': "The caller of the pending call may give up while a reconnect is on its way (the GET then reports the cancellation or, racing it, an unrelated transport error): whatever the abandoned reconnect ran into, the connection does not fail (C04).",
 'zzC19StringID': "String ids: the JSON text of a string begins and ends with a quote (so hand-written fast paths that peek at the first byte are followed), and unquoting it by Go's rules fails on JSON-only escapes — a peer may write '/' as '\\/' and astral characters as surrogate pairs.",
 'zzC16Wrapper': "The handler may also pre-set StructuredContent by hand: what the client gets is still the typed output, defaulted and validated.",
 'zzC18SubscribeHistory': "Histories of subscribe / unsubscribe / disconnect (4 steps, thorough 5) over two sessions and two URIs: the recipients of a resource update are exactly the sessions whose last action on that URI was a subscribe and that are still connected.",
 'zzC12Agreement': "Every header value the client emits is transmittable over HTTP as is (no control characters other than HTAB, no DEL — net/http refuses to send such a value).",
 'zzC05IOClose': "Closers of the io-based transports (rwc, ioConn): Close releases BOTH halves whatever either reports (the peer only sees end of input when the write half is closed), reports every failure, closes each half once however often it is called; afterwards Read and Write fail.",
 'zzC18Mutators': "The public mutators (AddTool/RemoveTools, AddPrompt/RemovePrompts, AddResource/RemoveResources) over a history of 3 (thorough 4) operations with a legacy session connected: a new name, a REPLACED definition under an existing name and a removal of something served each leave a notification owed (the debounce timer of that kind armed); removing what is not there owes nothing; nothing goes out inline.",
 'zzC12Lookup': "lookupArgument against plain navigation on argument documents three levels deep where every member may be absent and an enclosing object may hold a member named like the leaf: found iff every step of the path is there, and then the value at exactly that path.",
 'zzC19Logging': "LoggingHandler.handle over 2-3 records through one handler (shared encode buffer, real bytes.Buffer): one notification per record whose data is the JSON of that record, and the params of an earlier record are untouched by later ones (they are encoded for the wire only afterwards).",
 'zzC13PingIsSent': "ServerSession.Ping in every lifecycle state (nothing received, initialize answered, initialized, 2026-07-28): exactly one ping request is sent and its outcome reported — a peer silent before finishing the handshake misses pings like any other.",
 'zzC16TypedNumber': "A typed handler with an int64 argument receives exactly the integer the client sent, for every int64 (defect D13, fixed: the wrapper re-marshaled through float64).",
 'zzConnCancel': "Cancel(id) of an inbound request leaves this connection's outgoing calls alone, also one bearing the very same number (inbound and outbound ids are independent number spaces).",
 'zzC10Route': "With an event store whose Append fails the message still goes out on the live exchange, and whatever Write reports wraps ErrRejected (a plain error would make jsonrpc2 tear the connection down behind the HTTP handler's back, leaving a dead session id that is still honoured: C11).",
 'zzC07ArbitraryPeer': "Connect leaves the caller's ClientSessionOptions as they were (a caller re-using the value for its next Connect asks for what it wrote there).",
 'zzChallengeRoundTrip': "The challenge the SDK's own middleware emits (`Bearer resource_metadata=%q, scope=%q`, either optional) read back by ParseWWWAuthenticate/splitChallenges/parseSingleChallenge (real code, symbolic strings): one bearer challenge whose parameters are exactly the configured strings, for every visible-ASCII value without quote/backslash of up to 4 (thorough 6) bytes — commas, equal signs and blanks included.",
 'zzC04Listen': "callSubscriptionsListen: issued exactly once and not awaited; nothing is cancelled while the caller's context lives; when it ends the peer gets one cancelled notice naming that call and the call is retired.",
 'zzC12HeaderName': "validateHeaderName against RFC 9110's token grammar stated independently, for every name of up to 2 (thorough 3) bytes.",
 'zzC02ErrorAnswer': "The answer to a call that ends in a JSON-RPC error, on that call's SSE exchange, for six error codes, three protocol eras, with or without a related notification sent first: it reaches the client readable — as the whole body with the mandated status only while nothing has been written to the response, as one more event afterwards (defect D14, fixed).",
 'zzC12Version': "servePOST also with the Mcp-Method mirror right, wrong or missing (refused with 400 before anything is handed on, from 2026-07-28 on), and with the initialize call of the legacy handshake: the session id travels on its answer and on no other.",
 'zzC09Delay': "calculateReconnectDelay for every attempt number up to 130 (thorough 1100): the jitter source is never asked for a non-positive bound (it panics), the delay is 0 for the first attempt and within (0, 2 x cap] afterwards (defect D16, fixed: conversion overflow from attempt 58 on).",
 'zzC03StatelessNotification': "A notification-only POST to a stateless endpoint through the real serveStateless: acknowledged 202, the ephemeral session closed when the request completes — and nothing orders the session's reader before that Close: known finding D15 (reported as KNOWN-FINDING, not repaired).",
 'zzC02ClientOptionalParams': "The client's own method implementations (every user handler installed) for every method that declares its params optional, with params absent or null: served or refused, never a panic (defect D19, fixed: the elicitation handlers dereferenced absent params).",
 'zzC02ServerOptionalParams': "The same for the server's own method implementations on an initialized session.",
 'zzConnProcessResult': "A handler's result that the encoder refuses is still answered (with an error; defect D18, fixed); a missing answer is excused only when the read or write side is broken, not when Close was merely called (defect D17, fixed).",
 'zzC14Decision': "The HTTP method (any of nine, symbolic) and ambient headers (CORS preflight markers, forwarding headers, cookies; optional map entries) are arbitrary and must not influence the decision; expirations up to ~35 000 years ahead (time.Duration saturation).",
}
ADD_ASSUME = {
 'C14': ["expiration = any instant up to 2^40 s after the model epoch (beyond what a time.Duration holds); Sub/Since/Until saturate like the library, Add is exact"],
 'C16': ["setSchema leg: jsonschema.ForType yields a fresh schema per call, (*Schema).Resolve a fresh Resolved remembering its schema, remarshal a fresh schema standing for the raw text; reflect.TypeFor/Kind/Elem/Zero are engine models"],
 'C19': ["result-type leg: JSON text between two different wire structs = member matching as encoding/json defines it (validated natively by tools/selftest.sh, zzSelfJSON)"],
 'C05': ["pipeRWC.Close leg: exec.Cmd.Wait, os.Process.Signal/Kill and the child's stdin are a model child; time.After/NewTimer are the engine's default timers (already fired: any finite duration may elapse before another goroutine runs)"],
 'C10': ["bytes.Buffer runs as real code; sync.Pool = LIFO stash (a pooled object is handed out again at once); json.Encoder.Encode = the uninterpreted JSON text plus a newline written to the encoder's writer"],
 'C09': ["client POST leg: http.Client.Do is a scripted server drawing one answer per request; oauth handler and token source are stubs returning every outcome of their contract"],
}
ADD_OUTSIDE = {
 'C19': ["json.Decoder read-ahead in the ndjson reader (seeded C19f): byte-level library behaviour"],
}

def main():
    for i in range(1, 21):
        cid = 'C%02d' % i
        p = '/verif/checks/%s.json' % cid
        d = json.load(open(p))
        names = []
        for g in d['groups']:
            for e in g['entries']:
                if e['name'] not in LEG and e.get('doc') and len(e['doc']) > 120:
                    LEG[e['name']] = e['doc']  # legs added from round 9 on carry their prose in the entry itself
                if e['name'] in LEG and e['name'] not in names:
                    names.append(e['name'])
        base = d['explanation'].split(MARK)[0]
        if names:
            d['explanation'] = base + MARK + ' '.join('[%s] %s' % (n, LEG[n]) for n in names)
        for key, table in (('assumptions', ADD_ASSUME), ('outside_claim', ADD_OUTSIDE)):
            for t in table.get(cid, []):
                if t not in d.setdefault(key, []):
                    d[key].append(t)
        if cid == 'C05':
            d['outside_claim'] = [o for o in d['outside_claim'] if not o.startswith('ClientSession.Close')]
        json.dump(d, open(p, 'w'), indent=1, ensure_ascii=False)
        open(p, 'a').write('\n')
    print('specs updated')
main()
