#!/usr/bin/env python3
"""Run a check against mutants through overlays (never touches /repo).
usage: mut.py <check-id> [--tier quick] [--only substr] m20a m20b ... | all | controls
Mutants of the corpus whose `prop` equals the check id are used for `all`.
Seeded patches (/verif/seeded/<name>/patch.diff) can be given as seeded:<name>; they are applied to a
temporary copy of the touched files only."""
import sys, os, subprocess, json, shutil, re, tempfile
sys.path.insert(0, '/verif/mutants')
import corpus
REPO = os.environ.get('VERIF_REPO', '/repo')
M = {m['id']: m for m in corpus.M}
CONTROLS = "m07a m07c m08d m12e m12f m17c m17d m18a m18c m19c n01 n02 n04 n09 n14 n15 n20".split()

def mutated(m):
    src = open(REPO + '/' + m['file']).read()
    n = src.count(m['old'])
    if m.get('nth') is None:
        assert n == 1, (m['id'], 'old occurs', n)
        return src.replace(m['old'], m['new'])
    parts = src.split(m['old'])
    k = m['nth']
    return m['old'].join(parts[:k+1]) + m['new'] + m['old'].join(parts[k+1:])

def overlay_for(name):
    d = '/verif/.work/mut/' + name.replace(':', '_').replace('/', '_')
    shutil.rmtree(d, ignore_errors=True)
    os.makedirs(d)
    ov = {}
    if name.startswith('seeded:') or name.startswith('revert:') or name.startswith('patch:'):
        if name.startswith('revert:'):
            c = name[7:]
            patch = os.path.join(d, 'revert.diff')
            with open(patch, 'w') as f:
                f.write(subprocess.check_output(['git', '-C', '/repo', 'diff', c, c + '^', '--', '.', ':!*_test.go'], text=True))
        elif name.startswith('patch:'):
            patch = name[6:]
        else:
            patch = '/verif/seeded/' + name[7:] + '/patch.diff'
        files = re.findall(r'^\+\+\+ b/(\S+)', open(patch).read(), re.M)
        tmp = tempfile.mkdtemp(prefix='ovl', dir='/verif/.work')
        for f in files:
            os.makedirs(os.path.dirname(os.path.join(tmp, f)), exist_ok=True)
            if os.path.exists(REPO + '/' + f):
                shutil.copy(REPO + '/' + f, os.path.join(tmp, f))
        subprocess.check_call(['git', 'apply', '--unsafe-paths', '--directory=' + tmp, patch], cwd='/')
        for f in files:
            dst = os.path.join(d, f.replace('/', '__'))
            shutil.copy(os.path.join(tmp, f), dst)
            ov[REPO + '/' + f] = dst
        shutil.rmtree(tmp)
    else:
        m = M[name]
        dst = os.path.join(d, m['file'].replace('/', '__'))
        open(dst, 'w').write(mutated(m))
        ov[REPO + '/' + m['file']] = dst
    return ov

def main():
    args = sys.argv[1:]
    cid = args[0]
    tier = 'quick'; only = None; names = []
    i = 1
    while i < len(args):
        if args[i] == '--tier': tier = args[i+1]; i += 2
        elif args[i] == '--only': only = args[i+1]; i += 2
        else: names.append(args[i]); i += 1
    out = []
    for n in names:
        if n == 'all':
            out += [m['id'] for m in corpus.M if m['prop'] == cid]
        elif n == 'controls':
            out += [c for c in CONTROLS if M[c]['prop'] == cid]
        elif n == 'reverts':
            kf = json.load(open('/verif/known_findings.json'))
            out += ['revert:' + f['commit'] for f in kf['fixed'] if f['property'] == cid]
        elif n == 'seeds':
            out += ['seeded:' + d for d in sorted(os.listdir('/verif/seeded')) if d.startswith(cid)]
        else:
            out.append(n)
    names = sorted(set(out), key=out.index)
    res = {}
    for n in names:
        ov = overlay_for(n)
        root = os.environ.get('VERIF_ROOT', '/verif')
        cmd = [root + '/bin/gosmt', 'check', cid, '--tier', tier, '--overlay', ','.join(f'{k}={v}' for k, v in ov.items())]
        if only: cmd += ['--only', only]
        env = dict(os.environ, VERIF_EVIDENCE_DIR='/verif/.work/mut/evidence')
        p = subprocess.run(cmd, capture_output=True, text=True, env=env)
        labels = sorted(set(re.findall(r'violated: entry=(\S+) (\S+) (\S+)', p.stdout)))
        verdict = {0: 'pass', 1: 'VIOLATION', 2: 'inconclusive/broken'}.get(p.returncode, str(p.returncode))
        note = M[n]['note'] if n in M else ''
        print(f'{n:10s} {verdict:20s} {[l[0]+":"+l[2] for l in labels][:4]}  # {note}')
        if p.returncode == 2:
            print('   ', '\n    '.join(p.stdout.strip().splitlines()[-4:]))
        res[n] = verdict
    return res

if __name__ == '__main__':
    main()
