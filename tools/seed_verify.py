#!/usr/bin/env python3
"""Verify sub-agent mutations independently and import them into /verif/seeded.
usage: seed_verify.py C01/a C01/b ...   (paths relative to /tmp/wt-out)
For each: fresh scratch worktree of /repo HEAD; apply patch; build; full suite must pass; demo must fail;
revert; demo must pass. Results -> /verif/seeded/<id><v>/ (patch.diff, demo, meta.json)."""
import sys, os, subprocess, json, shutil, glob, re, time
ENV = dict(os.environ, GOFLAGS='-mod=mod', GOPROXY='off')
def sh(cmd, cwd, timeout=1200):
    p = subprocess.run(cmd, shell=True, cwd=cwd, capture_output=True, text=True, env=ENV, timeout=timeout)
    return p.returncode, (p.stdout + p.stderr)
def main():
    for rel in sys.argv[1:]:
        src = '/tmp/wt-out/' + rel
        pid, var = rel.split('/')
        name = pid + var
        wt = '/tmp/wt/verify_' + name
        subprocess.run(['git', '-C', '/repo', 'worktree', 'remove', '--force', wt], capture_output=True)
        subprocess.check_call(['git', '-C', '/repo', 'worktree', 'add', '-q', '--detach', wt, os.environ.get('SEED_BASE', 'HEAD')])
        res = {'seed': name, 'property': pid}
        try:
            meta = json.load(open(src + '/meta.json'))
            demos = [f for f in glob.glob(src + '/*.go')]
            demo_dir = meta.get('demo_dir', 'mcp').strip('/').replace('/tmp/wt/%s/' % pid, '')
            if demo_dir.startswith('/'): demo_dir = re.sub(r'^/tmp/wt/[^/]+/', '', demo_dir)
            rc, out = sh('git apply ' + src + '/patch.diff', wt)
            res['applies'] = rc == 0
            if rc != 0:
                res['error'] = out[-500:]; raise Exception('patch does not apply')
            rc, out = sh('go build ./... && go test -count=1 ./... 2>&1 | tail -40', wt)
            res['suite_pass_with_change'] = rc == 0 and 'FAIL' not in out
            for _ in range(2):  # timing-sensitive tests of the suite flake under machine load (F10): re-run before deciding
                if res['suite_pass_with_change']: break
                res['suite_retried'] = res.get('suite_retried', 0) + 1
                rc, out = sh('go test -count=1 ./... 2>&1 | tail -40', wt)
                res['suite_pass_with_change'] = rc == 0 and 'FAIL' not in out
            res['suite_tail'] = out[-600:] if not res['suite_pass_with_change'] else ''
            for d in demos: shutil.copy(d, os.path.join(wt, demo_dir, 'zz_' + os.path.basename(d)))
            run = meta.get('demo_run', '')
            m = re.search(r"-run[ =]'?\"?([^'\" ]+)", run)
            pat = m.group(1) if m else 'Demo|C%s' % pid[1:]
            cmd = "go test -count=1 -timeout 120s -run '%s' ./%s/ 2>&1 | tail -30" % (pat, demo_dir)
            rc, out = sh(cmd, wt)
            res['demo_fails_with_change'] = ('FAIL' in out or 'panic' in out) and 'no tests to run' not in out
            res['demo_out_with'] = out[-800:]
            sh('git apply -R ' + src + '/patch.diff', wt)
            rc, out = sh(cmd, wt)
            res['demo_passes_without'] = 'FAIL' not in out and 'panic' not in out and 'no tests to run' not in out and re.search(r'^ok', out, re.M) is not None
            res['demo_out_without'] = out[-300:]
            res['demo_cmd'] = cmd
            ok = res['suite_pass_with_change'] and res['demo_fails_with_change'] and res['demo_passes_without']
            res['confirmed'] = ok
            if ok:
                dst = '/verif/seeded/' + name
                os.makedirs(dst, exist_ok=True)
                shutil.copy(src + '/patch.diff', dst + '/patch.diff')
                for d in demos: shutil.copy(d, dst + '/' + os.path.basename(d) + '.txt')
                meta2 = {'property': pid, 'summary': meta.get('summary'), 'breaks': meta.get('breaks'), 'needs': meta.get('needs'),
                         'demo_dir': demo_dir, 'demo_files': [os.path.basename(d) + '.txt' for d in demos], 'demo_run': cmd,
                         'confirmed': {'repo_head': subprocess.check_output(['git', '-C', '/repo', 'rev-parse', '--short', 'HEAD'], text=True).strip(),
                                       'suite_with_change': 'pass (go test -count=1 ./...)', 'demo_with_change': 'FAIL', 'demo_without_change': 'ok'},
                         'source': 'independent sub-agent given only the property text and a scratch worktree'}
                json.dump(meta2, open(dst + '/meta.json', 'w'), indent=1)
        except Exception as e:
            res['exception'] = str(e)
        finally:
            subprocess.run(['git', '-C', '/repo', 'worktree', 'remove', '--force', wt], capture_output=True)
        print(json.dumps({k: v for k, v in res.items() if k not in ('demo_out_with', 'demo_out_without', 'suite_tail') or not res.get('confirmed')}, indent=1), flush=True)
main()
