#!/bin/sh
# Run every check's quick (or given) tier in /verif against /repo: rewrites evidence/ and the coverage data.
# usage: tools/sweep.sh [quick|thorough]   -> prints "Cxx rc=<exit> <seconds>s"; exit 1 if any check did not exit 0
cd /verif
tier=${1:-quick}
bad=0
for i in $(seq -w 1 20); do
  t0=$(date +%s)
  VERIF_COVERAGE_DIR=/verif/.work/cov ./bin/gosmt check C$i --tier $tier > /verif/.work/sweep-C$i.log 2>&1
  rc=$?
  echo "C$i rc=$rc $(( $(date +%s) - t0 ))s"
  [ $rc -eq 0 ] || bad=1
done
exit $bad
