#!/usr/bin/env python3
"""neutral.py <patch.diff> — run, through overlays, every (check, entry) whose harness executes a function the patch
touches (from the coverage data in .work/cov). The patch is meant to be behaviour-preserving: any verdict other than
pass is a false alarm (VIOLATION) or a fragile harness (exit 2).   neutral.py --all <patch> runs every check whole."""
import sys, subprocess, re, json, glob, os
sys.path.insert(0, '/verif/tools')
import coverage as cv
args = sys.argv[1:]
whole = '--all' in args
patch = [a for a in args if not a.startswith('--')][0]
txt = open(patch).read()
touched = []  # (file, lo, hi) in the old file
cur = None
for line in txt.splitlines():
    m = re.match(r'^--- a/(\S+)', line)
    if m: cur = m.group(1); continue
    m = re.match(r'^@@ -(\d+)(?:,(\d+))? ', line)
    if m and cur:
        a = int(m.group(1)); n = int(m.group(2) or 1)
        touched.append((cur, a, a + max(n, 1)))
fns = cv.all_functions()
hitfn = set()
for (f, name, s, e) in fns:
    for (tf, a, b) in touched:
        if tf == f and s <= b and e >= a:
            hitfn.add((f, s, e))
pairs = {}
for f in sorted(glob.glob(cv.COV + '/*-quick.json')):
    d = json.load(open(f))
    for entry, funcs in d['entries'].items():
        for fi in funcs or []:
            fl = fi.get('file', '')
            if not fl.startswith('/repo/'): continue
            rel = fl[len('/repo/'):]
            if any(rel == hf and s <= fi['line'] <= e for (hf, s, e) in hitfn):
                pairs.setdefault(d['check'], set()).add(entry)
# entries added after the last coverage run are unknown to it: run checks whole when asked
ids = ['C%02d' % i for i in range(1, 21)]
bad = []
def run(cid, only=None):
    cmd = ['python3', '/verif/tools/mut.py', cid]
    if only: cmd += ['--only', only]
    cmd += ['patch:' + patch]
    p = subprocess.run(cmd, capture_output=True, text=True)
    line = [l for l in p.stdout.splitlines() if l.startswith('patch:')]
    v = line[0].split()[1] if line else 'ERR'
    print(cid, only or '(whole)', v, flush=True)
    if v != 'pass':
        bad.append((cid, only, p.stdout[-700:]))
for cid in ids:
    if whole:
        run(cid)
    else:
        for e in sorted(pairs.get(cid, [])):
            run(cid, e)
print('touched functions:', sorted(hitfn))
for c, o, out in bad:
    print('=====', c, o); print(out)
sys.exit(1 if bad else 0)
