#!/usr/bin/env python3
"""Assemble /verif/DESIGN.md from tools/design/{head,tail,appendix}.md, checks/*.json, evidence/*.json and
detection_matrix.json. The per-property sections and the matrix are generated so they cannot drift from what the
checks actually do."""
import json, glob, os, sys
sys.path.insert(0, '/verif/mutants')
import corpus

V = '/verif'
props = {json.loads(l)['id']: json.loads(l) for l in open(V + '/properties.jsonl')}
CONTROLS = "m07a m07c m08d m12e m12f m17c m17d m18a m18c m19c n01 n02 n04 n09 n14 n15 n20".split()

NOT_BUILT = {
 'C01': "the (B) cross-check with two callers + reader + closer; `mcp.call`'s mapping of closed connections is asserted in the C04 harness (`C01.closed-connection-identified`).",
 'C03': "nothing essential: H2 is built as `zzConnStillRunning` (encoding B), H3 as the (A) queue-step harness, H4 as `zzC03Accepted`.",
 'C05': "H3 (global deadlock-freedom search, lock-order graph).",
 'C07': "nothing of the plan; not covered: races inside `Server.Connect` (seeded C07c, §8).",
 'C08': "built as an exhaustive bounded exploration of one logical stream (all splits, cursors, generations) rather than as an (A) invariant step; concurrent writers racing with `acquireStream` are outside.",
 'C10': "the heap-ownership closure argument for cross-session isolation (cross-session access control is C11).",
 'C15': "URL tokens were replaced by concrete URL alphabets parsed by the real `net/url` (§2.3).",
 'C18': "the `subscriptions/listen` handler's own map updates (its effect is a harness input).",
 'C20': "the pure bit-vector cross-run.",
}

EXTRA = {
 'C01': """*Invariant of `jsonrpc2.Connection` used by C01–C05* (`harness/internal/jsonrpc2/conn.go`: `scalarInv`, `preInv`, `inv`; state = `inFlightState` + closed flags of `done` and of each `AsyncCall.ready` + ghosts): **J1** every tracked outgoing call sits under its own id and is not yet completed, and the tracked calls are among {mine, the representative other}; **J2** `done` closed ⇒ idle ∧ shutting down ∧ ¬reading ∧ closer = nil; **J3** the transport closer was invoked at most once, and invoked ⇔ closer = nil; **J4** readErr ≠ nil ⇒ ¬reading ∧ nothing tracked; **J5** handler queue non-empty ⇒ a dispatcher is running; **J6** `incoming` ≥ 0 and `outgoingNotifications` ≥ 0, and each section changes them only by the tokens the running thread owns (pre/post deltas); **J7** idle ∧ shutting down ∧ ¬reading ⇒ `done` closed; **J8** idle ∧ shutting down ⇒ closer = nil; **J9** |incomingByID| ≤ incoming; **J10** `onDone` ran ⇔ `done` closed, at most once. Stable facts of a caller: "my call is tracked or completed" once registered; completion is monotone. The 17 atomic sections of `conn.go` all end in the common epilogue of `updateInFlight`, which is what makes J7/J8 inductive.
""",
}

def fmt_bounds(b):
    return '; '.join('%s: %s' % (k, v) for k, v in (b or {}).items())

def prop_sections():
    out = []
    for f in sorted(glob.glob(V + '/checks/C*.json')):
        s = json.load(open(f))
        pid = s['property']
        ev = {}
        ep = V + '/evidence/%s.json' % pid
        if os.path.exists(ep):
            ev = json.load(open(ep))
        cov = ev.get('coverage', {})
        out.append('### %s — %s\n' % (pid, props[pid]['title']))
        out.append('*Technique.* %s.\n' % s['technique'].rstrip('.'))
        ents = []
        for g in s['groups']:
            for e in g['entries']:
                t = '`%s` (%s, unwind %s' % (e['name'], g['dir'], e.get('unwind', '-'))
                if e.get('params'):
                    t += ', ' + ' '.join('%s=%s' % kv for kv in e['params'].items())
                if e.get('memo'):
                    t += ', memo'
                if e.get('sched'):
                    t += ', scheduler preempt≤%s' % e.get('preempt', 2)
                th = e.get('thorough')
                if th:
                    tt = []
                    if th.get('unwind'): tt.append('unwind %s' % th['unwind'])
                    if th.get('preempt'): tt.append('preempt≤%s' % th['preempt'])
                    tt += ['%s=%s' % kv for kv in (th.get('params') or {}).items()]
                    t += '; thorough: ' + ' '.join(tt)
                t += ')'
                ents.append(t)
        out.append('*Entries.* ' + '; '.join(ents) + '.\n')
        out.append('*What is decided.* %s\n' % s['explanation'])
        out.append('*Bounds.* %s.\n' % fmt_bounds(s.get('bounds')))
        if s.get('assumptions'):
            out.append('*Assumptions.* ' + '; '.join(s['assumptions']) + '.\n')
        if s.get('stubs'):
            out.append('*Stubs.* ' + '; '.join(s['stubs']) + '.\n')
        if s.get('outside_claim'):
            out.append('*Outside the claim.* ' + '; '.join(s['outside_claim']) + '.\n')
        if pid in EXTRA:
            out.append(EXTRA[pid])
        if pid in NOT_BUILT:
            out.append('*Planned but not built.* ' + NOT_BUILT[pid] + '\n')
        if cov:
            out.append('*Last run on the unchanged tree (quick).* %s paths, %s/%s obligations discharged, %s solver queries, %.0f s solver time, %.0f s wall.\n' % (
                sum(e.get('paths', 0) for e in cov.get('entries', [])), cov.get('discharged'), cov.get('obligations', cov.get('discharged')),
                sum(e.get('queries', 0) for e in cov.get('entries', [])), sum(e.get('solver_s', 0) for e in cov.get('entries', [])), ev.get('wall_s', 0) or cov.get('wall_s', 0)))
    return '\n'.join(out)

def matrix():
    mp = V + '/detection_matrix.json'
    if not os.path.exists(mp):
        return '(matrix not generated yet)\n'
    res = json.load(open(mp))
    notes = {m['id']: m['note'] for m in corpus.M}
    lines = ['| change | property | quick check says | first assertion that fires | what the change does |', '|---|---|---|---|---|']
    tot = {'caught': 0, 'missed': 0, 'control_ok': 0, 'control_flagged': 0}
    for cid in sorted(res):
        for n, r in res[cid]['rows'].items():
            what = notes.get(n, '')
            if n.startswith('seeded:'):
                mpth = V + '/seeded/%s/meta.json' % n[7:]
                if os.path.exists(mpth):
                    what = json.load(open(mpth)).get('summary', '')
            if n.startswith('revert:'):
                what = 'the fix commit reverted (defect re-introduced)'
            ctl = n in CONTROLS
            v = r['verdict']
            if ctl:
                tot['control_ok' if v == 'pass' else 'control_flagged'] += 1
                v += ' (control: must pass)'
            else:
                tot['caught' if v == 'VIOLATION' else 'missed'] += 1
            what = ' '.join(what.split()).replace('|', '/')
            if len(what) > 170:
                what = what[:167] + '…'
            lab = (r['labels'] or [''])[0]
            lines.append('| %s | %s | %s | %s | %s |' % (n, cid, v, '`%s`' % lab if lab else '', what))
    lines.append('')
    lines.append('Totals: %(caught)d breaking changes flagged, %(missed)d not flagged (explained below), %(control_ok)d controls silent, %(control_flagged)d controls flagged.' % tot)
    return '\n'.join(lines) + '\n'

head = open(V + '/tools/design/head.md').read()
tail = open(V + '/tools/design/tail.md').read().replace('<!-- GEN:MATRIX -->', matrix())
app = open(V + '/tools/design/appendix.md').read()
open(V + '/DESIGN.md', 'w').write(head + prop_sections() + '\n' + tail +
    '*(Appendices A and B are the design-phase measurements, kept for reference; the throw-away spike they describe is not part of /verif.)*\n\n' + app)
print('DESIGN.md written')
