#!/usr/bin/env python3
"""Regenerate MANIFEST.json from checks/*.json and tools/not_applicable.json."""
import json, glob, os
props = [json.loads(l) for l in open('/verif/properties.jsonl')]
ids = [p['id'] for p in props]
checks = []
claimed = set()
for f in sorted(glob.glob('/verif/checks/C*.json')):
    s = json.load(open(f))
    pid = s['property']
    claimed.add(pid)
    checks.append({
        "property_id": pid,
        "quick_cmd": f"./bin/gosmt check {pid} --tier quick",
        "thorough_cmd": f"./bin/gosmt check {pid} --tier thorough",
        "evidence_file": f"/verif/evidence/{pid}.json",
        "replay_cmd_template": f"./bin/gosmt check {pid} --replay {{path}}",
        "engine": "gosmt",
        "level_claimed": {"category": "other",
            "text": "Bounded symbolic verification: the real functions (go/ssa built from /repo's working tree on every run) are executed symbolically by gosmt; inputs, pre-states, fault/schedule choices are solver variables and every assertion is discharged by z3 on every path within the stated bounds, or a counterexample is returned and re-executed concretely. " + s.get('level_text', s['explanation'][:600]),
            "design_ref": "DESIGN.md §4 " + pid},
        "level_note": "Trusted: go/ssa translation, gosmt instruction semantics, z3, and the stubs/assumptions listed in the evidence file. Bounds: " + json.dumps(s.get('bounds', {})) + " Outside the claim: " + "; ".join(s.get('outside_claim', [])),
        "technique": s['technique'],
    })
na_reasons = {}
if os.path.exists('/verif/tools/not_applicable.json'):
    na_reasons = json.load(open('/verif/tools/not_applicable.json'))
na = [{"property_id": p, "reason": na_reasons.get(p, "check not built yet (build in progress); planned per DESIGN.md §4")} for p in ids if p not in claimed]
m = {
 "version": 1,
 "setup_cmd": "./setup.sh",
 "hooks": {"guard": "verif", "enable": "no in-repo hooks: harnesses, stubs and lock hooks are injected through packages.Config.Overlay (engine) and never written to /repo", "baseline_off_cmd": "cd /repo && go test -vet=off -count=1 -timeout 25m ./...", "source_commits": [], "add_only": True},
 "engines": [{"name": "gosmt", "path": "engine", "serves_properties": sorted(claimed), "kind_free_text": "symbolic executor for go/ssa (x/tools v0.50.0) written for this task + z3 4.8.12 over one persistent process per worker; harnesses are in-package Go functions under /verif/harness"}],
 "checks": checks,
 "not_applicable": na,
 "notes": "All checks rebuild SSA from /repo's working tree on each run. Exit 0 = held within bounds (KNOWN-FINDING lines for listed findings), 1 = VIOLATION (+replay file), 2 = harness broken against the tree or inconclusive at the registered bound.",
}
json.dump(m, open('/verif/MANIFEST.json', 'w'), indent=1)
print("claimed:", sorted(claimed))
