#!/usr/bin/env python3
"""firstsight.py <round-file> first|after <name> [<name> ...] [--all]
Run the quick check of each seeded change's property (mut.py, overlays only) and record the verdict in
seeded/<round-file> under "first_sight" (never overwritten once present) or "after".
With --all every check is run against the change (who else flags it), recorded as "<name>@all"."""
import sys, json, os, re, subprocess
rf = '/verif/seeded/' + sys.argv[1]
slot = sys.argv[2]
names = [a for a in sys.argv[3:] if not a.startswith('--')]
allc = '--all' in sys.argv
rec = json.load(open(rf)) if os.path.exists(rf) else {'note': '', 'first_sight': {}, 'after': {}}
rec.setdefault(slot, {})
def run(cid, name):
    p = subprocess.run(['python3', '/verif/tools/mut.py', cid, 'seeded:' + name], capture_output=True, text=True)
    for line in p.stdout.splitlines():
        m = re.match(r'(\S+)\s+(pass|VIOLATION|inconclusive/broken|\d+)\s+(\[.*?\])', line)
        if m:
            labs = eval(m.group(3))
            tail = ''
            if m.group(2).startswith('inconclusive'):
                tail = ' | ' + ' / '.join(l.strip() for l in p.stdout.strip().splitlines()[-3:])[:300]
            return m.group(2) + (' (' + ', '.join(labs[:3]) + ')' if labs else '') + tail
    return 'error: ' + (p.stdout + p.stderr)[-300:]
for n in names:
    pid = n[:3]
    if slot == 'first_sight' and n in rec[slot]:
        print(n, 'already recorded:', rec[slot][n]); continue
    v = run(pid, n)
    rec[slot][n] = v
    print(n, v, flush=True)
    if allc:
        others = {}
        for i in range(1, 21):
            cid = 'C%02d' % i
            if cid == pid: continue
            ov = run(cid, n)
            if not ov.startswith('pass'):
                others[cid] = ov
        rec.setdefault(slot + '_other_checks', {})[n] = others
        print('  others:', others, flush=True)
    json.dump(rec, open(rf, 'w'), indent=1, ensure_ascii=False)
