package extauth

import (
	"context"
	"errors"
	"io"
	"net/http"
	"net/url"
	"strings"

	"github.com/modelcontextprotocol/go-sdk/oauthex"
	"golang.org/x/oauth2"
	"golang.org/x/oauth2/clientcredentials"
)

// C15 on the client-credentials handler (auth/extauth): the same discovery as the authorization-code flow, ending in
// a token request that carries the client secret. The network (getJSON, the token endpoint), the challenge parser and
// the oauth2 library are stubs; URLs come from concrete alphabets and are parsed by the real net/url.

const (
	zzXMCP = "https://mcp.example/mcp"
	zzXAS  = "https://as.example"
)

type zzXEnv struct {
	fetched    []string // every URL handed to the network, in order
	tokenURLs  []string // where the client secret went
	prmDoc     func(u string) (*oauthex.ProtectedResourceMetadata, error)
	asmDoc     func(u string) (*oauthex.AuthServerMeta, error)
	challenges []oauthex.Challenge
	tokenFails bool
	sources    int
}

var zzX *zzXEnv

func zzXSafeURL(u string) bool {
	pu, err := url.Parse(u)
	if err != nil {
		return false
	}
	h := pu.Hostname()
	return pu.Scheme == "https" || h == "localhost" || h == "127.0.0.1"
}

func zzXGetPRM(ctx context.Context, c *http.Client, u string, limit int64) (*oauthex.ProtectedResourceMetadata, error) {
	zzX.fetched = append(zzX.fetched, u)
	return zzX.prmDoc(u)
}
func zzXGetASM(ctx context.Context, c *http.Client, u string, limit int64) (*oauthex.AuthServerMeta, error) {
	zzX.fetched = append(zzX.fetched, u)
	return zzX.asmDoc(u)
}
func zzXParseChallenges(headers []string) ([]oauthex.Challenge, error) { return zzX.challenges, nil }

type zzXTS struct {
	id  int
	url string
}

func (t *zzXTS) Token() (*oauth2.Token, error) {
	zzX.fetched = append(zzX.fetched, t.url)
	zzX.tokenURLs = append(zzX.tokenURLs, t.url)
	if zzX.tokenFails {
		return nil, errors.New("oauth2: invalid_client")
	}
	return &oauth2.Token{AccessToken: "tok"}, nil
}

func zzXTokenSource(cfg *clientcredentials.Config, ctx context.Context) oauth2.TokenSource {
	zzX.sources++
	return &zzXTS{id: zzX.sources, url: cfg.TokenURL}
}
func zzXScopesFromToken(t *oauth2.Token) []string                  { return nil }
func zzXCopyNop(w io.Writer, r io.Reader) (int64, error)           { return 0, nil }

type zzXBody struct{}

func (zzXBody) Read([]byte) (int, error) { return 0, io.EOF }
func (zzXBody) Close() error             { return nil }

func zzXAuthorize(h *ClientCredentialsHandler) error {
	u, _ := url.Parse(zzXMCP)
	req := &http.Request{Method: "POST", URL: u, Header: http.Header{}}
	resp := &http.Response{StatusCode: http.StatusUnauthorized, Header: http.Header{}, Body: zzXBody{}}
	return h.Authorize(context.Background(), req, resp)
}

func zzC15ClientCredentials() {
	env := &zzXEnv{}
	zzX = env
	// protected-resource metadata: found (naming some authorization server) or published nowhere
	asURL := []string{zzXAS, "https://other.example", "http://evil.example"}[vChoice("authorizationServer", 3)]
	prmFound := vBool("prmPublished")
	env.prmDoc = func(u string) (*oauthex.ProtectedResourceMetadata, error) {
		if !prmFound {
			return nil, oauthex.ZzVerifStatusErr(404)
		}
		res := zzXMCP
		if !strings.HasSuffix(u, "/mcp") {
			res = "https://mcp.example"
		}
		return &oauthex.ProtectedResourceMetadata{Resource: res, AuthorizationServers: []string{asURL}}, nil
	}
	// authorization-server metadata: a document (claiming any issuer), nothing at any location (the predefined-endpoint
	// fallback), or a server error
	asmOutcome := vChoice("asmOutcome", 3)
	issuerClaim := []string{asURL, zzXAS, "https://other.example"}[vChoice("issuerClaimed", 3)]
	env.asmDoc = func(u string) (*oauthex.AuthServerMeta, error) {
		switch asmOutcome {
		case 1:
			return nil, oauthex.ZzVerifStatusErr(404)
		case 2:
			return nil, oauthex.ZzVerifStatusErr(503)
		}
		return &oauthex.AuthServerMeta{Issuer: issuerClaim, TokenEndpoint: issuerClaim + "/token", AuthorizationEndpoint: issuerClaim + "/authorize",
			CodeChallengeMethodsSupported: []string{"S256"}}, nil
	}
	env.tokenFails = vBool("tokenRequestFails")
	// the credentials: registered with a named issuer, or usable anywhere
	credIssuer := []string{"", zzXAS, zzXAS + "/"}[vChoice("credentialsIssuer", 3)]
	h, err := NewClientCredentialsHandler(&ClientCredentialsHandlerConfig{
		Credentials: &oauthex.ClientCredentials{ClientID: "svc", Issuer: credIssuer, ClientSecretAuth: &oauthex.ClientSecretAuth{ClientSecret: "s3cret"}},
		HTTPClient:  &http.Client{},
	})
	vAssert(err == nil && h != nil, "C15.cc.handler-constructed")
	aerr := zzXAuthorize(h)

	for _, u := range env.fetched {
		vAssert(zzXSafeURL(u), "C15.cc.every-request-goes-to-https-or-loopback")
	}
	for _, tu := range env.tokenURLs {
		if credIssuer != "" {
			// the secret registered for one issuer never travels to another authorization server — whether that server
			// published metadata or had its endpoints guessed
			vAssert(strings.HasPrefix(tu, zzXAS+"/"), "C15.cc.issuer-bound-credentials-stay-with-their-issuer")
			vReach("bound-credentials-used")
		}
	}
	ts, _ := h.TokenSource(context.Background())
	if aerr != nil {
		vAssert(ts == nil, "C15.cc.no-token-installed-after-failed-check")
		vReach("failed")
	} else {
		vAssert(ts != nil && len(env.tokenURLs) == 1, "C15.cc.success-means-a-token-was-obtained")
		vReach("authorized")
	}
	if asmOutcome == 2 {
		vAssert(aerr != nil && len(env.tokenURLs) == 0, "C15.cc.server-error-aborts")
	}
	if asmOutcome == 0 && issuerClaim != asURL {
		vAssert(aerr != nil && len(env.tokenURLs) == 0, "C15.cc.metadata-with-a-foreign-issuer-rejected")
		vReach("rejected")
	}
	vReach("end")
}
