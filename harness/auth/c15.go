package auth

import (
	"context"
	"errors"
	"io"
	"net/http"
	"net/url"
	"strings"

	"github.com/modelcontextprotocol/go-sdk/oauthex"
	"golang.org/x/oauth2"
)

// C15 — AuthorizationCodeHandler.Authorize and the oauthex metadata fetchers, with the network (getJSON,
// RegisterClient, oauth2 Exchange), the challenge parser and the randomness behind stubs. URLs are drawn from
// concrete alphabets (https, plain http, loopback http, javascript:, data:) and parsed by the real net/url.

const (
	zzMCP      = "https://mcp.example/mcp"
	zzGoodPRM  = "https://mcp.example/.well-known/oauth-protected-resource/mcp"
	zzAS       = "https://as.example"
	zzStateTok = "STATE-1"
)

// (the last entry is a script-capable scheme with a loopback authority: the https-or-loopback rule alone lets it through)
var zzURLAlphabet = []string{"https://as.example/ep", "http://evil.example/ep", "http://localhost:9000/ep", "javascript:alert(1)", "data:text/html,x", "", "javascript://127.0.0.1/%0Aalert(1)//"}

type zzOAuthEnv struct {
	fetched    []string // every URL handed to the network, in order
	prmDoc     func(u string) (*oauthex.ProtectedResourceMetadata, error)
	asmDoc     func(u string) (*oauthex.AuthServerMeta, error)
	challenges []oauthex.Challenge
	regErr     bool
	exchanges  int
	exchangeFails bool
	prmAccepted, asmAccepted bool
	registered bool
}

var zzOA *zzOAuthEnv

func zzSafeURL(u string) bool {
	pu, err := url.Parse(u)
	if err != nil {
		return false
	}
	h := pu.Hostname()
	return pu.Scheme == "https" || h == "localhost" || h == "127.0.0.1"
}

func zzGetPRM(ctx context.Context, c *http.Client, u string, limit int64) (*oauthex.ProtectedResourceMetadata, error) {
	zzOA.fetched = append(zzOA.fetched, u)
	return zzOA.prmDoc(u)
}
func zzGetASM(ctx context.Context, c *http.Client, u string, limit int64) (*oauthex.AuthServerMeta, error) {
	zzOA.fetched = append(zzOA.fetched, u)
	return zzOA.asmDoc(u)
}
func zzParseChallenges(headers []string) ([]oauthex.Challenge, error) { return zzOA.challenges, nil }
func zzRegisterClient(ctx context.Context, endpoint string, meta *oauthex.ClientRegistrationMetadata, c *http.Client) (*oauthex.ClientRegistrationResponse, error) {
	zzOA.fetched = append(zzOA.fetched, endpoint)
	zzOA.registered = true
	if zzOA.regErr {
		return nil, errors.New("registration refused")
	}
	return &oauthex.ClientRegistrationResponse{ClientID: "dyn-client"}, nil
}
func zzAuthCodeURL(cfg *oauth2.Config, state string, opts ...oauth2.AuthCodeOption) string {
	zzOA.fetched = append(zzOA.fetched, cfg.Endpoint.AuthURL)
	return cfg.Endpoint.AuthURL + "?state=" + state
}
func zzExchange(cfg *oauth2.Config, ctx context.Context, code string, opts ...oauth2.AuthCodeOption) (*oauth2.Token, error) {
	zzOA.fetched = append(zzOA.fetched, cfg.Endpoint.TokenURL)
	zzOA.exchanges++
	if zzOA.exchangeFails {
		return nil, errors.New("invalid_grant")
	}
	return &oauth2.Token{AccessToken: "tok"}, nil
}

type zzTS struct{ id int }

func (t *zzTS) Token() (*oauth2.Token, error) { return &oauth2.Token{AccessToken: "tok"}, nil }

func zzNewTS(cfg *oauth2.Config, ctx context.Context, t *oauth2.Token) oauth2.TokenSource { return &zzTS{id: 2} }
func zzAuthOpt(string) oauth2.AuthCodeOption                                            { return nil }
func zzAuthOpt2(k, v string) oauth2.AuthCodeOption                                      { return nil }
func zzVerifier() string                                                               { return "verifier" }
func zzRandText() string                                                               { return zzStateTok }
func zzScopesFromToken(t *oauth2.Token) []string                                       { return nil }
func zzCopyNop(w io.Writer, r io.Reader) (int64, error)                                { return 0, nil }

type zzRespBody struct{}

func (zzRespBody) Read([]byte) (int, error) { return 0, io.EOF }
func (zzRespBody) Close() error             { return nil }

func zzGoodASM(issuer string) *oauthex.AuthServerMeta {
	return &oauthex.AuthServerMeta{Issuer: issuer, AuthorizationEndpoint: issuer + "/authorize", TokenEndpoint: issuer + "/token",
		RegistrationEndpoint: issuer + "/register", CodeChallengeMethodsSupported: []string{"S256"}}
}

func zzHandler(initial oauth2.TokenSource, fetch AuthorizationCodeFetcher, cfg func(*AuthorizationCodeHandlerConfig)) *AuthorizationCodeHandler {
	c := &AuthorizationCodeHandlerConfig{RedirectURL: "http://localhost:7777/cb", AuthorizationCodeFetcher: fetch, InitialTokenSource: initial, Client: &http.Client{}}
	cfg(c)
	h, err := NewAuthorizationCodeHandler(c)
	vAssert(err == nil && h != nil, "C15.handler-constructed")
	return h
}

var zzMCPURL = zzMCP

func zzAuthorize(h *AuthorizationCodeHandler) error {
	u, _ := url.Parse(zzMCPURL)
	req := &http.Request{Method: "POST", URL: u, Header: http.Header{}}
	resp := &http.Response{StatusCode: http.StatusUnauthorized, Header: http.Header{}, Body: zzRespBody{}}
	return h.Authorize(context.Background(), req, resp)
}

func zzCheckNetworkLog(label string) {
	for _, u := range zzOA.fetched {
		vAssert(zzSafeURL(u), label)
	}
}

// Aspect 1: protected-resource metadata — where it is fetched from, and whether it is believed.
func zzC15PRM() {
	env := &zzOAuthEnv{}
	zzOA = env
	plainMCP := vBool("mcpServerIsPlainHTTP")
	zzMCPURL = zzMCP
	if plainMCP {
		zzMCPURL = "http://mcp.example/mcp" // the user connected to a non-TLS server: discovery must not follow it anywhere
	}
	// the challenge may point to a metadata URL of any kind
	hint := []string{"", zzGoodPRM, "http://evil.example/prm", "http://localhost:9000/prm"}[vChoice("hint", 4)]
	if hint != "" {
		env.challenges = []oauthex.Challenge{{Scheme: "bearer", Params: map[string]string{"resource_metadata": hint}}}
	}
	docRes := vStringN("resource", 23) // the resource identifier the document claims: any string up to the length of the real one
	resourceMatches := docRes == zzMCPURL || docRes == strings.TrimSuffix(zzMCPURL, "/mcp")
	as := []string{zzAS, "http://as.evil.example", "javascript:alert(1)", "http://localhost:9000"}[vChoice("authServer", 4)]
	outcome := vChoice("prmOutcome", 3) // 0: document, 1: 404, 2: transport error
	env.prmDoc = func(u string) (*oauthex.ProtectedResourceMetadata, error) {
		switch outcome {
		case 1:
			return nil, errors.New("bad status 404")
		case 2:
			return nil, errors.New("dial tcp: refused")
		}
		return &oauthex.ProtectedResourceMetadata{Resource: docRes, AuthorizationServers: []string{as}}, nil
	}
	usedAS := ""
	env.asmDoc = func(u string) (*oauthex.AuthServerMeta, error) {
		pu, _ := url.Parse(u)
		usedAS = pu.Scheme + "://" + pu.Host
		return zzGoodASM(usedAS), nil
	}
	initial := &zzTS{id: 1}
	h := zzHandler(initial, func(ctx context.Context, a *AuthorizationArgs) (*AuthorizationResult, error) {
		return &AuthorizationResult{Code: "c", State: zzStateTok}, nil
	}, func(c *AuthorizationCodeHandlerConfig) {
		c.PreregisteredClient = &oauthex.ClientCredentials{ClientID: "pre"}
	})
	err := zzAuthorize(h)
	zzCheckNetworkLog("C15.every-request-goes-to-https-or-loopback")
	if usedAS != "" && outcome == 0 {
		// the authorization server named by a metadata document was contacted only if that document was
		// believed: its resource identifier matched and the server URL is safe
		vAssert((!plainMCP && usedAS == "https://mcp.example") || (resourceMatches && (as == zzAS || as == "http://localhost:9000")), "C15.prm-used-only-if-resource-matches")
	}
	if err != nil {
		ts, _ := h.TokenSource(context.Background())
		vAssert(ts == oauth2.TokenSource(initial), "C15.no-token-installed-after-failed-check")
		vReach("failed")
	} else {
		vReach("authorized")
	}
	vReach("end")
}

// Aspect 2: authorization-server metadata — issuer binding, PKCE, URL schemes.
func zzC15ASM() {
	env := &zzOAuthEnv{}
	zzOA = env
	env.challenges = []oauthex.Challenge{{Scheme: "bearer", Params: map[string]string{"resource_metadata": zzGoodPRM}}}
	env.prmDoc = func(u string) (*oauthex.ProtectedResourceMetadata, error) {
		return &oauthex.ProtectedResourceMetadata{Resource: zzMCP, AuthorizationServers: []string{zzAS}}, nil
	}
	issuer := vStringN("issuer", 19) // any string of up to 19 bytes: includes zzAS, zzAS+"/", near-misses and the empty string
	pkce := vChoice("pkce", 3) // 0 absent, 1 present but empty, 2 S256
	tokenEP := zzURLAlphabet[vChoice("tokenEndpoint", 5)]
	authEP := zzURLAlphabet[vChoice("authEndpoint", 3)]
	jwks := zzURLAlphabet[[]int{0, 3, 5}[vChoice("jwks", 3)]]
	found := vChoice("asmOutcome", 3) // 0 a document at one of the well-known locations (404 at the others), 1 404 everywhere, 2 server error
	docAt := vChoice("documentLocation", 2) // 0: /.well-known/oauth-authorization-server, 1: /.well-known/openid-configuration
	docServed := false
	env.asmDoc = func(u string) (*oauthex.AuthServerMeta, error) {
		switch found {
		case 1:
			return nil, zzHTTPStatus(404)
		case 2:
			return nil, zzHTTPStatus(503)
		}
		here := 1
		if strings.HasSuffix(u, "/.well-known/oauth-authorization-server") {
			here = 0
		}
		if here != docAt {
			return nil, zzHTTPStatus(404)
		}
		docServed = true
		m := &oauthex.AuthServerMeta{Issuer: issuer, AuthorizationEndpoint: authEP, TokenEndpoint: tokenEP, JWKSURI: jwks}
		switch pkce {
		case 1:
			m.CodeChallengeMethodsSupported = []string{}
		case 2:
			m.CodeChallengeMethodsSupported = []string{"S256"}
		}
		return m, nil
	}
	initial := &zzTS{id: 1}
	fetcherCalled := false
	h := zzHandler(initial, func(ctx context.Context, a *AuthorizationArgs) (*AuthorizationResult, error) {
		fetcherCalled = true
		return &AuthorizationResult{Code: "c", State: zzStateTok}, nil
	}, func(c *AuthorizationCodeHandlerConfig) {
		c.PreregisteredClient = &oauthex.ClientCredentials{ClientID: "pre"}
	})
	err := zzAuthorize(h)
	zzCheckNetworkLog("C15.every-request-goes-to-https-or-loopback")
	scriptScheme := strings.HasPrefix(tokenEP, "javascript:") || strings.HasPrefix(tokenEP, "data:") || strings.HasPrefix(authEP, "javascript:") || strings.HasPrefix(jwks, "javascript:")
	if found == 0 && fetcherCalled {
		// the user was sent to the authorization endpoint of this metadata only if the metadata was trustworthy
		vAssert(issuer == zzAS || issuer == zzAS+"/", "C15.asm-used-only-if-issuer-matches")
		vAssert(pkce == 2, "C15.asm-used-only-if-pkce-advertised")
		vAssert(!scriptScheme, "C15.asm-used-only-without-script-schemes")
		vReach("asm-used")
	}
	if found == 2 {
		vAssert(err != nil && !fetcherCalled, "C15.server-error-aborts")
	}
	if docServed {
		// a metadata document that was fetched and failed a check ends the attempt: no falling back to guessed
		// endpoints as if the server had published nothing
		trustworthy := (issuer == zzAS || issuer == zzAS+"/") && pkce == 2 && !scriptScheme && zzSafeOrEmpty(tokenEP) && zzSafeOrEmpty(authEP)
		if !trustworthy {
			vAssert(err != nil && !fetcherCalled, "C15.rejected-metadata-aborts-the-flow")
			vReach("rejected")
		}
	}
	if err != nil {
		ts, _ := h.TokenSource(context.Background())
		vAssert(ts == oauth2.TokenSource(initial), "C15.no-token-installed-after-failed-check")
		vReach("failed")
	}
	vReach("end")
}

func zzSafeOrEmpty(u string) bool { return u == "" || zzSafeURL(u) }

func zzHTTPStatus(code int) error { return oauthex.ZzVerifStatusErr(code) }

// Aspect 3: registration binding, state and RFC 9207 issuer checks, token installation.
func zzC15Exchange() {
	env := &zzOAuthEnv{}
	zzOA = env
	env.challenges = []oauthex.Challenge{{Scheme: "bearer", Params: map[string]string{"resource_metadata": zzGoodPRM}}}
	env.prmDoc = func(u string) (*oauthex.ProtectedResourceMetadata, error) {
		return &oauthex.ProtectedResourceMetadata{Resource: zzMCP, AuthorizationServers: []string{zzAS}}, nil
	}
	issSupported := vBool("issParamSupported")
	cimd := vBool("asSupportsCIMD")
	env.asmDoc = func(u string) (*oauthex.AuthServerMeta, error) {
		m := zzGoodASM(zzAS)
		m.AuthorizationResponseIssParameterSupported = issSupported
		m.ClientIDMetadataDocumentSupported = cimd
		return m, nil
	}
	env.regErr = vBool("registrationFails")
	env.exchangeFails = vBool("exchangeFails")
	st := vStringN("returnedState", 8) // whatever comes back on the redirect
	stateOK := st == zzStateTok
	iss := vStringN("iss", 19)
	regKind := vChoice("registration", 4)
	preIssuer := []string{"", zzAS, "https://other-as.example"}[vChoice("preregIssuer", 3)]
	initial := &zzTS{id: 1}
	h := zzHandler(initial, func(ctx context.Context, a *AuthorizationArgs) (*AuthorizationResult, error) {
		return &AuthorizationResult{Code: "c", State: st, Iss: iss}, nil
	}, func(c *AuthorizationCodeHandlerConfig) {
		switch regKind {
		case 0:
			c.ClientIDMetadataDocumentConfig = &ClientIDMetadataDocumentConfig{URL: "https://client.example/meta.json"}
			c.PreregisteredClient = &oauthex.ClientCredentials{ClientID: "pre", Issuer: preIssuer}
		case 1:
			c.PreregisteredClient = &oauthex.ClientCredentials{ClientID: "pre", Issuer: preIssuer}
		case 2:
			c.DynamicClientRegistrationConfig = &DynamicClientRegistrationConfig{Metadata: &oauthex.ClientRegistrationMetadata{RedirectURIs: []string{"http://localhost:7777/cb"}}}
		default:
			c.PreregisteredClient = &oauthex.ClientCredentials{ClientID: "pre", Issuer: preIssuer}
			c.DynamicClientRegistrationConfig = &DynamicClientRegistrationConfig{Metadata: &oauthex.ClientRegistrationMetadata{RedirectURIs: []string{"http://localhost:7777/cb"}}}
		}
	})
	err := zzAuthorize(h)
	zzCheckNetworkLog("C15.every-request-goes-to-https-or-loopback")
	issOK := (issSupported && iss == zzAS) || (!issSupported && iss == "")
	usesPrereg := (regKind == 1 || regKind == 3) || (regKind == 0 && !cimd)
	if env.exchanges > 0 {
		vAssert(env.exchanges == 1, "C15.code-exchanged-at-most-once")
		vAssert(stateOK, "C15.exchange-only-with-matching-state")
		vAssert(issOK, "C15.exchange-only-after-rfc9207-check")
		if usesPrereg {
			vAssert(preIssuer == "" || preIssuer == zzAS, "C15.preregistered-credentials-bound-to-their-issuer")
		}
		vReach("exchanged")
	}
	ts, _ := h.TokenSource(context.Background())
	if err != nil {
		vAssert(ts == oauth2.TokenSource(initial), "C15.no-token-installed-after-failed-check")
		vReach("failed")
	} else {
		vAssert(env.exchanges == 1 && !env.exchangeFails && ts != oauth2.TokenSource(initial), "C15.token-installed-only-after-successful-exchange")
		vReach("authorized")
	}
	vReach("end")
}

// Aspect 4: the two metadata fetchers on their own (they are public API and the only gate extauth handlers rely on).
func zzC15FetchPRM() {
	env := &zzOAuthEnv{}
	zzOA = env
	metaURL := []string{zzGoodPRM, "http://evil.example/prm", "http://localhost:9000/prm", "http://127.0.0.1:9000/prm", "javascript:alert(1)"}[vChoice("metadataURL", 5)]
	docRes := vStringN("resource", 23)
	n := vChoice("servers", 3)
	servers := []string{}
	for i := 0; i < n; i++ {
		servers = append(servers, zzURLAlphabet[vChoice("server", 5)])
	}
	env.prmDoc = func(u string) (*oauthex.ProtectedResourceMetadata, error) {
		return &oauthex.ProtectedResourceMetadata{Resource: docRes, AuthorizationServers: servers}, nil
	}
	prm, err := oauthex.GetProtectedResourceMetadata(context.Background(), metaURL, zzMCP, &http.Client{})
	zzCheckNetworkLog("C15.every-request-goes-to-https-or-loopback")
	if prm != nil {
		vAssert(err == nil, "C15.fetcher-result-or-error")
		vAssert(prm.Resource == zzMCP, "C15.prm-used-only-if-resource-matches")
		for _, a := range prm.AuthorizationServers {
			vAssert(zzSafeURL(a), "C15.prm-used-only-with-safe-authorization-servers")
		}
		vReach("prm-accepted")
	}
	vReach("end")
}

func zzC15FetchASM() {
	env := &zzOAuthEnv{}
	zzOA = env
	asURL := []string{zzAS + "/.well-known/oauth-authorization-server", "http://evil.example/.well-known/oauth-authorization-server", "http://localhost:9000/.well-known/oauth-authorization-server"}[vChoice("asMetadataURL", 3)]
	// the issuer the document claims: any text of up to 19 bytes, or one of the look-alikes of the expected issuer that
	// differ where a lenient comparison would not look (port, host case, path, scheme, userinfo, query)
	issuer := ""
	if k := vChoice("issuerShape", 10); k == 0 {
		issuer = vStringN("issuer", 19)
	} else {
		issuer = []string{zzAS, zzAS + "/", zzAS + ":8443", "https://AS.example", zzAS + "/tenant", "http://as.example", "https://user@as.example", zzAS + "?x=1", zzAS + "//"}[k-1]
	}
	pkce := vChoice("pkce", 3)
	field := vChoice("field", 9) // which URL field carries the drawn value; the others are good or empty
	val := zzURLAlphabet[vChoice("value", 7)]
	env.asmDoc = func(u string) (*oauthex.AuthServerMeta, error) {
		m := &oauthex.AuthServerMeta{Issuer: issuer, AuthorizationEndpoint: zzAS + "/authorize", TokenEndpoint: zzAS + "/token"}
		switch pkce {
		case 1:
			m.CodeChallengeMethodsSupported = []string{}
		case 2:
			m.CodeChallengeMethodsSupported = []string{"S256"}
		}
		switch field {
		case 0:
			m.AuthorizationEndpoint = val
		case 1:
			m.TokenEndpoint = val
		case 2:
			m.JWKSURI = val
		case 3:
			m.RegistrationEndpoint = val
		case 4:
			m.ServiceDocumentation = val
		case 5:
			m.OpPolicyURI = val
		case 6:
			m.OpTOSURI = val
		case 7:
			m.RevocationEndpoint = val
		case 8:
			m.IntrospectionEndpoint = val
		}
		return m, nil
	}
	asm, err := oauthex.GetAuthServerMeta(context.Background(), asURL, zzAS, &http.Client{})
	zzCheckNetworkLog("C15.every-request-goes-to-https-or-loopback")
	if asm != nil {
		vAssert(err == nil, "C15.fetcher-result-or-error")
		vAssert(issuer == zzAS || issuer == zzAS+"/", "C15.asm-used-only-if-issuer-matches")
		vAssert(pkce == 2, "C15.asm-used-only-if-pkce-advertised")
		script := strings.HasPrefix(val, "javascript:") || strings.HasPrefix(val, "data:")
		vAssert(!script, "C15.asm-used-only-without-script-schemes")
		if field == 0 || field == 1 || field == 3 {
			// endpoints the client will itself contact or send the user to
			vAssert(val == "" || zzSafeURL(val), "C15.asm-used-only-with-https-or-loopback-endpoints")
		}
		vReach("asm-accepted")
	}
	vReach("end")
}

// Aspect 5: a second authorization round on the same handler (step-up, or re-authorization after the resource moved
// to another authorization server): every check is made again for the server of THIS round — nothing resolved for an
// earlier server (client registration, pre-registered credentials) is carried over to a different one.
func zzC15SecondRound() {
	env := &zzOAuthEnv{}
	zzOA = env
	env.challenges = []oauthex.Challenge{{Scheme: "bearer", Params: map[string]string{"resource_metadata": zzGoodPRM}}}
	round := 1
	sameServer := vBool("secondRoundSameServer")
	asOf := func() string {
		if round == 2 && !sameServer {
			return "https://other-as.example"
		}
		return zzAS
	}
	env.prmDoc = func(u string) (*oauthex.ProtectedResourceMetadata, error) {
		return &oauthex.ProtectedResourceMetadata{Resource: zzMCP, AuthorizationServers: []string{asOf()}}, nil
	}
	env.asmDoc = func(u string) (*oauthex.AuthServerMeta, error) { return zzGoodASM(asOf()), nil }
	regKind := vChoice("registration", 2) // pre-registered for zzAS, or dynamic registration
	var tokenURLs []string
	h := zzHandler(nil, func(ctx context.Context, a *AuthorizationArgs) (*AuthorizationResult, error) {
		return &AuthorizationResult{Code: "c", State: zzStateTok}, nil
	}, func(c *AuthorizationCodeHandlerConfig) {
		if regKind == 0 {
			c.PreregisteredClient = &oauthex.ClientCredentials{ClientID: "pre", Issuer: zzAS}
		} else {
			c.DynamicClientRegistrationConfig = &DynamicClientRegistrationConfig{Metadata: &oauthex.ClientRegistrationMetadata{RedirectURIs: []string{"http://localhost:7777/cb"}}}
		}
	})
	err1 := zzAuthorize(h)
	vAssert(err1 == nil && env.exchanges == 1, "C15.first-round-authorizes")
	ts1, _ := h.TokenSource(context.Background())
	registrations1 := 0
	for _, u := range env.fetched {
		if strings.HasSuffix(u, "/register") {
			registrations1++
		}
		if strings.HasSuffix(u, "/token") {
			tokenURLs = append(tokenURLs, u)
		}
	}
	round = 2
	env.fetched = nil
	err2 := zzAuthorize(h)
	ts2, _ := h.TokenSource(context.Background())
	if !sameServer && regKind == 0 {
		// credentials registered for zzAS must not be presented to another issuer, and the old token stays
		vAssert(err2 != nil, "C15.preregistered-credentials-bound-to-their-issuer")
		vAssert(env.exchanges == 1 && ts2 == ts1, "C15.no-token-installed-after-failed-check")
		for _, u := range env.fetched {
			vAssert(!strings.HasSuffix(u, "/token"), "C15.preregistered-credentials-bound-to-their-issuer")
		}
		vReach("moved-and-refused")
	}
	if !sameServer && regKind == 1 && err2 == nil {
		// a dynamically registered client is registered with the server it is used with
		reg2 := false
		for _, u := range env.fetched {
			if u == "https://other-as.example/register" {
				reg2 = true
			}
		}
		vAssert(reg2, "C15.client-registered-with-the-server-it-is-used-with")
		vReach("moved-and-reregistered")
	}
	zzCheckNetworkLog("C15.every-request-goes-to-https-or-loopback")
	vReach("end")
}
