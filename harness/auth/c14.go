package auth

import (
	"context"
	"errors"
	"fmt"
	"net/http"
)

// C14 — RequireBearerToken / verify: the inner handler runs iff credential, verifier, scopes and expiry
// all check out; status and challenge per cause.

type zzRW struct {
	hdr   http.Header
	code  int
	body  string
	wrote int
}

func (w *zzRW) Header() http.Header { return w.hdr }
func (w *zzRW) Write(b []byte) (int, error) {
	if w.code == 0 {
		w.code = 200
	}
	w.body += string(b)
	return len(b), nil
}
func (w *zzRW) WriteHeader(c int) { w.code = c; w.wrote++ }

type zzInner struct {
	ran  int
	seen *TokenInfo
}

func (h *zzInner) ServeHTTP(w http.ResponseWriter, r *http.Request) {
	h.ran++
	h.seen = TokenInfoFromContext(r.Context())
}

func zzNoSpace(s string) bool {
	ok := true
	for i := 0; i < len(s); i++ {
		c := s[i]
		bad := c == ' ' || (c >= 9 && c <= 13) || c >= 128
		ok = ok && !bad
	}
	return ok
}

func zzLowerEq(s, want string) bool {
	if len(s) != len(want) {
		return false
	}
	ok := true
	for i := 0; i < len(s); i++ {
		c := s[i]
		if c >= 'A' && c <= 'Z' {
			c += 32
		}
		ok = ok && c == want[i]
	}
	return ok
}

var zzPads = []string{"", " ", "\t ", "  "}

// zzHeader builds an Authorization header from up to three blank-free words separated by arbitrary
// (concrete) blank runs; returns the header and its words.
func zzHeader() (string, []string) {
	var words []string
	h := zzPads[vChoice("pad0", 2)]
	nw := vChoice("nwords", 4)
	for i := 0; i < nw; i++ {
		var w string
		if i == 0 {
			if vBool("sixLetters") {
				w = vStringLen("w0", 6)
			} else {
				w = vStringN("w0s", 2)
				vAssume(len(w) > 0)
			}
		} else {
			w = vStringN("w", 2)
			vAssume(len(w) > 0)
		}
		vAssume(zzNoSpace(w))
		words = append(words, w)
		h += w
		if i < nw-1 {
			h += zzPads[1+vChoice("pad", 3)]
		}
	}
	h += zzPads[vChoice("padEnd", 2)]
	return h, words
}

// zzRawHeader: an arbitrary ASCII header of exactly n bytes, words computed independently.
func zzRawHeader(n int) (string, []string) {
	h := vStringLen("raw", n)
	var words []string
	cur := ""
	for i := 0; i < len(h); i++ {
		c := h[i]
		vAssume(c < 128)
		sp := c == ' ' || (c >= 9 && c <= 13)
		if sp {
			if cur != "" {
				words = append(words, cur)
				cur = ""
			}
		} else {
			cur += string([]byte{c})
		}
	}
	if cur != "" {
		words = append(words, cur)
	}
	return h, words
}

func zzContains(xs []string, s string) bool {
	found := false
	for _, x := range xs {
		found = found || x == s
	}
	return found
}

func zzScopes(tag string, max int) []string {
	n := vIntRange(tag+"_n", 0, max)
	var out []string
	for i := 0; i < n; i++ {
		// names of different lengths, so that one name can be a proper part of another
		out = append(out, "s"+vStringLen(tag, 1+vChoice(tag+"_len", 2)))
	}
	return out
}

// mode 0: structured header, 1: raw header, 2: header drawn from a few concrete shapes (decision aspects vary)
func zzC14(mode int) {
	var hdr string
	var words []string
	switch mode {
	case 0:
		hdr, words = zzHeader()
	case 1:
		hdr, words = zzRawHeader(vParam("rawlen"))
	default:
		switch vChoice("hdrShape", 4) {
		case 0:
			hdr, words = "Bearer tok", []string{"Bearer", "tok"}
		case 1:
			hdr, words = " bEARER\t tok ", []string{"bEARER", "tok"}
		case 2:
			hdr, words = "Basic dXNlcg==", []string{"Basic", "dXNlcg=="}
		default:
			hdr, words = "Bearer", []string{"Bearer"}
		}
	}
	full := mode == 2 || vParam("cross") == 1
	syntactic := len(words) == 2 && zzLowerEq(words[0], "bearer")

	// verifier outcome
	// the user id is the verifier's opaque, case-sensitive subject: any bytes — letter case and padding included — reach
	// the handler (and the session binding built on it, C11) exactly as the verifier gave them
	uid := vStringLen("userID", 1)
	info := &TokenInfo{UserID: uid}
	// the expiration is any instant of the next ~35 000 years (tokens that "never expire" carry year-9999 sentinels,
	// further away than the 292 years a time.Duration can hold), or absent
	expSec, expNsec := 1<<33, 0 // far future
	if full {
		info.Scopes = zzScopes("granted", vParam("scopes"))
		expSec = vIntRange("expSec", 0, 1<<40)
		expNsec = vIntRange("expNsec", 0, 999999999)
	}
	info.Expiration = vTimeSec(expSec, expNsec)
	noExp := expSec == 0 && expNsec == 0
	// the sentinel may sit anywhere in the error the verifier returns: bare, wrapped once, wrapped beside its cause
	// (two %w verbs) or joined with it (errors.Join — what JWT libraries return): errors.Is finds it in every shape
	cause := errors.New("token is expired by 3m")
	errInvalid := func() error { // (drawn only on the paths that return it)
		return []error{fmt.Errorf("bad signature: %w", ErrInvalidToken), ErrInvalidToken, fmt.Errorf("%w: %w", ErrInvalidToken, cause),
			errors.Join(cause, ErrInvalidToken), fmt.Errorf("verify: %w", errors.Join(ErrInvalidToken, cause))}[vChoice("errorShape", 5)]
	}
	errOAuth := func() error {
		return []error{fmt.Errorf("proto: %w", ErrOAuth), errors.Join(ErrOAuth, cause)}[vChoice("oauthErrorShape", 2)]
	}
	errOther := errors.New("database down")
	outcome := 0
	if full {
		outcome = vChoice("verifier", 5)
	} else if vBool("verifierRejects") {
		outcome = 2
	}
	// a verifier that rejects a token may still hand back what it decoded (as JWT libraries do): the error decides
	withInfo := vBool("rejectingVerifierAlsoReturnsInfo")
	infoWithErr := func() *TokenInfo {
		if withInfo {
			return info
		}
		return nil
	}
	calls := 0
	var gotToken string
	verifier := func(ctx context.Context, token string, req *http.Request) (*TokenInfo, error) {
		calls++
		gotToken = token
		switch outcome {
		case 0:
			return info, nil
		case 1:
			return nil, nil
		case 2:
			return infoWithErr(), errInvalid()
		case 3:
			return infoWithErr(), errOAuth()
		}
		return infoWithErr(), errOther
	}

	var opts *RequireBearerTokenOptions
	var required []string
	skew := 0
	allowMissing := false
	url := ""
	if !full {
		info.Scopes = []string{"sa"}
		if vBool("haveOpts") {
			required = []string{"sa"}
			url = "https://rs.example/.well-known/oauth-protected-resource"
			opts = &RequireBearerTokenOptions{ResourceMetadataURL: url, Scopes: required}
		}
	} else if vBool("haveOpts") {
		required = zzScopes("required", vParam("scopes"))
		skew = vIntRange("skew", 0, 1<<61)
		allowMissing = vBool("allowMissing")
		if vBool("haveURL") {
			url = "https://rs.example/.well-known/oauth-protected-resource"
		}
		opts = &RequireBearerTokenOptions{ResourceMetadataURL: url, Scopes: required, AllowMissingExpiration: allowMissing}
		opts.ClockSkew = vDuration(skew)
	}

	inner := &zzInner{}
	w := &zzRW{hdr: http.Header{}}
	// the decision is about the credential alone: the HTTP method and whatever other headers the request carries
	// (CORS preflight markers, forwarding headers, cookies) have no say in it
	req := &http.Request{Method: vStringAmong("httpMethod", http.MethodGet, http.MethodPost, http.MethodOptions, http.MethodDelete, http.MethodHead,
		http.MethodPut, http.MethodPatch, http.MethodConnect, http.MethodTrace, ""), Header: http.Header{}}
	for _, h := range []string{"Access-Control-Request-Method", "Access-Control-Request-Headers", "Origin", "Cookie", "X-Forwarded-For", "Upgrade", "Proxy-Authorization", "X-Api-Key"} {
		vMapPutIf(req.Header, h, []string{"x"}, vBool("hdr."+h))
	}
	// the middleware may be stacked: an outer layer (its own verifier, its own requirements) has already admitted the
	// request and left its TokenInfo in the context — this layer still decides on its own verifier's word
	if vBool("outerLayerAdmittedTheRequest") {
		outer := &TokenInfo{UserID: "outer", Scopes: []string{"sa", "sb", "sc"}, Expiration: vTimeSec(1<<39, 0)}
		req = req.WithContext(context.WithValue(req.Context(), tokenInfoKey{}, outer))
	}
	if !vBool("noHeader") {
		req.Header.Set("Authorization", hdr)
	} else {
		syntactic = false
	}
	RequireBearerToken(verifier, opts)(inner).ServeHTTP(w, req)
	nowT := vLastNow()

	scopesOK := true
	for _, s := range required {
		if !zzContains(info.Scopes, s) {
			scopesOK = false
		}
	}
	// "unexpired within the configured clock skew": expiration + skew is not before now (exact instants, model clock)
	expOK := (noExp && allowMissing) || (!noExp && !info.Expiration.Add(vDuration(skew)).Before(nowT))
	admit := syntactic && outcome == 0 && scopesOK && expOK

	if admit {
		vAssert(inner.ran == 1, "C14.admit.runs-once")
		vAssert(inner.seen == info, "C14.admit.sees-verifier-info")
		vAssert(inner.seen != nil && inner.seen.UserID == uid, "C14.admit.user-id-untouched")
		vAssert(w.code == 0 && w.wrote == 0, "C14.admit.no-status-written")
		vAssert(calls == 1 && gotToken == words[1], "C14.admit.token-passed")
		vReach("admitted")
	} else {
		vAssert(inner.ran == 0, "C14.reject.handler-not-run")
		want := 0
		switch {
		case !syntactic:
			want = 401
			vAssert(calls == 0, "C14.reject.verifier-not-consulted")
		case outcome == 2:
			want = 401
		case outcome == 3:
			want = 400
		case outcome == 4 || outcome == 1:
			want = 500
		case !scopesOK:
			want = 403
			vReach("forbidden")
		default:
			want = 401 // expired or missing expiration
			vReach("expired")
		}
		vAssert(w.code == want, "C14.reject.status")
		ch := w.hdr.Get("WWW-Authenticate")
		wantChallenge := (want == 401 || want == 403) && opts != nil && (url != "" || len(required) > 0)
		vAssert((ch != "") == wantChallenge, "C14.reject.challenge-presence")
		if wantChallenge {
			exp := "Bearer "
			if url != "" {
				exp += "resource_metadata=\"" + url + "\""
			}
			if len(required) > 0 {
				if url != "" {
					exp += ", "
				}
				exp += "scope=\""
				for i, s := range required {
					if i > 0 {
						exp += " "
					}
					exp += s
				}
				exp += "\""
			}
			vAssert(ch == exp, "C14.reject.challenge-content")
			vReach("challenge")
		}
	}
	vReach("end")
}

func zzC14Structured() { zzC14(0) }
func zzC14Raw()        { zzC14(1) }
func zzC14Decision()   { zzC14(2) }

// zzC14Repeat: ONE middleware instance serves a short history of requests (that is how it is deployed: built once,
// called for every request, concurrently). The decision and the challenge of each request are a function of that
// request alone — not of what the instance has answered before.
func zzC14Repeat() {
	url := ""
	if vBool("haveURL") {
		url = "https://rs.example/.well-known/oauth-protected-resource"
	}
	var required []string
	if vBool("haveScopes") {
		required = []string{"sa", "sb"}
	}
	opts := &RequireBearerTokenOptions{ResourceMetadataURL: url, Scopes: required}
	good := &TokenInfo{UserID: "u", Scopes: []string{"sa", "sb"}, Expiration: vTimeSec(1<<33, 0)}
	weak := &TokenInfo{UserID: "v", Scopes: []string{"sa"}, Expiration: vTimeSec(1<<33, 0)}
	verifier := func(ctx context.Context, token string, req *http.Request) (*TokenInfo, error) {
		switch token {
		case "good":
			return good, nil
		case "weak":
			return weak, nil
		}
		return nil, ErrInvalidToken
	}
	inner := &zzInner{}
	h := RequireBearerToken(verifier, opts)(inner)
	exp := "Bearer "
	if url != "" {
		exp += "resource_metadata=\"" + url + "\""
	}
	if len(required) > 0 {
		if url != "" {
			exp += ", "
		}
		exp += "scope=\"sa sb\""
	}
	admitted := 0
	n := vParam("requests")
	for i := 0; i < n; i++ {
		kind := vChoice("request", 4) // no credential / unknown token / token lacking a scope / good token
		req := &http.Request{Method: http.MethodPost, Header: http.Header{}}
		switch kind {
		case 1:
			req.Header.Set("Authorization", "Bearer bad")
		case 2:
			req.Header.Set("Authorization", "Bearer weak")
		case 3:
			req.Header.Set("Authorization", "Bearer good")
		}
		w := &zzRW{hdr: http.Header{}}
		h.ServeHTTP(w, req)
		want := 401
		if kind == 2 && len(required) > 0 {
			want = 403
		}
		if kind == 3 || (kind == 2 && len(required) == 0) {
			admitted++
			vAssert(inner.ran == admitted && w.code == 0 && w.hdr.Get("WWW-Authenticate") == "", "C14.repeat.admitted-like-the-first-time")
			continue
		}
		vAssert(inner.ran == admitted && w.code == want, "C14.repeat.rejected-like-the-first-time")
		chs := w.hdr["Www-Authenticate"]
		if url != "" || len(required) > 0 {
			vAssert(len(chs) == 1 && chs[0] == exp, "C14.repeat.challenge-is-a-function-of-the-request-alone")
		} else {
			vAssert(len(chs) == 0, "C14.repeat.challenge-is-a-function-of-the-request-alone")
		}
	}
	vReach("end")
}
