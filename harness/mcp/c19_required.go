package mcp

import (
	"context"
	"errors"
)

// C19 "required members present and non-null", decided at the struct level: whatever the JSON encoder does with a
// nil slice ("null"), the values the SDK hands to it for content arrays and list arrays are never nil.

func zzC19RequiredLists() {
	s := NewServer(&Implementation{Name: "s", Version: "v"}, nil)
	reg := vBool("somethingRegistered") // an empty registry is the interesting case; one item shows the lists are also filled
	if reg {
		s.tools.add(&serverTool{tool: &Tool{Name: "t"}})
		s.prompts.add(&serverPrompt{prompt: &Prompt{Name: "p"}})
		s.resources.add(&serverResource{resource: &Resource{URI: "file:///r"}})
		s.resourceTemplates.add(&serverResourceTemplate{resourceTemplate: &ResourceTemplate{URITemplate: "file:///{x}"}})
	}
	nilParams := vBool("paramsOmitted")
	ctx := context.Background()
	var tp *ListToolsParams
	var pp *ListPromptsParams
	var rp *ListResourcesParams
	var rtp *ListResourceTemplatesParams
	if !nilParams {
		tp, pp, rp, rtp = &ListToolsParams{}, &ListPromptsParams{}, &ListResourcesParams{}, &ListResourceTemplatesParams{}
	}
	want := 0
	if reg {
		want = 1
	}
	tr, err := s.listTools(ctx, &ListToolsRequest{Params: tp})
	vAssert(err == nil && tr.Tools != nil && len(tr.Tools) == want, "C19.required.tools-list-non-null")
	pr, err := s.listPrompts(ctx, &ListPromptsRequest{Params: pp})
	vAssert(err == nil && pr.Prompts != nil && len(pr.Prompts) == want, "C19.required.prompts-list-non-null")
	rr, err := s.listResources(ctx, &ListResourcesRequest{Params: rp})
	vAssert(err == nil && rr.Resources != nil && len(rr.Resources) == want, "C19.required.resources-list-non-null")
	rtr, err := s.listResourceTemplates(ctx, &ListResourceTemplatesRequest{Params: rtp})
	vAssert(err == nil && rtr.ResourceTemplates != nil && len(rtr.ResourceTemplates) == want, "C19.required.templates-list-non-null")

	c := NewClient(&Implementation{Name: "c", Version: "v"}, nil)
	if vBool("rootRegistered") {
		c.roots.add(&Root{URI: "file:///root"})
	}
	lr, err := c.listRoots(ctx, &ListRootsRequest{})
	vAssert(err == nil && lr.Roots != nil, "C19.required.roots-list-non-null")
	vReach("end")
}

// callTool with a raw (untyped) tool handler returning any shape of result.
func zzC19RequiredContent() {
	s := NewServer(&Implementation{Name: "s", Version: "v"}, nil)
	contentKind := vChoice("content", 3) // nil, empty, one text block
	structured := vBool("structuredContent")
	inputReq := vBool("inputRequests")
	isErr := vBool("isError")
	fails := vBool("handlerFails")
	nilResult := vBool("nilResult")
	handed := &CallToolResult{IsError: isErr}
	switch contentKind {
	case 1:
		handed.Content = []Content{}
	case 2:
		handed.Content = []Content{&TextContent{Text: "x"}}
	}
	if structured {
		handed.StructuredContent = map[string]any{"k": "v"}
	}
	if inputReq {
		handed.InputRequests = InputRequestMap{"r1": nil}
	}
	s.tools.add(&serverTool{tool: &Tool{Name: "t"}, handler: func(ctx context.Context, req *CallToolRequest) (*CallToolResult, error) {
		if fails {
			return nil, errors.New("tool failed")
		}
		if nilResult {
			return nil, nil
		}
		return handed, nil
	}})
	modern := vBool("modernClient")
	ss := &ServerSession{server: s}
	if !modern {
		ss.state.InitializeParams = &InitializeParams{ProtocolVersion: protocolVersion20250618}
	}
	res, err := s.callTool(context.Background(), &CallToolRequest{Session: ss, Params: &CallToolParamsRaw{Name: "t"}})
	if err == nil && res != nil {
		if res.resultType != resultTypeInputRequired {
			// a complete result always carries a content array, whatever else it carries
			vAssert(res.Content != nil, "C19.required.content-array-non-null")
			vReach("complete")
		}
		vAssert(len(res.Content) == len(handed.Content), "C19.required.content-unchanged")
		vAssert(res.IsError == isErr, "C19.required.flags-unchanged")
	}
	if fails {
		vAssert(err != nil && res == nil, "C19.required.handler-error-passed-on")
	}
	vReach("end")
}
