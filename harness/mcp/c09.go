package mcp

import (
	"fmt"
	"time"
	"bufio"
	"context"
	"errors"
	"io"
	"net/http"

	"github.com/modelcontextprotocol/go-sdk/internal/jsonrpc2"
	"github.com/modelcontextprotocol/go-sdk/jsonrpc"
)

// Shared SSE plumbing for C09 (client under stream cuts) and C19-H2 (framing round trip).
//
// The response body is a byte string held by the harness; bufio.Reader.ReadBytes is replaced by a model that
// serves it line by line and ends it with io.EOF or a read error at the cut.

type zzBody struct {
	data    string
	pos     int
	readErr error // nil: clean EOF at end of data; else the error returned once data is exhausted
	closed  int
}

func (b *zzBody) Read(p []byte) (int, error) {
	vUnsupported("zzBody.Read: only bufio.Reader.ReadBytes over the body is modelled")
	return 0, nil
}
func (b *zzBody) Close() error               { b.closed++; return nil }

var zzCurBody *zzBody

func zzNewReader(r io.Reader) *bufio.Reader {
	zzCurBody = r.(*zzBody)
	return nil
}

// model of (*bufio.Reader).ReadBytes(delim) over the current body
func zzReadBytes(_ *bufio.Reader, delim byte) ([]byte, error) {
	b := zzCurBody
	start := b.pos
	for b.pos < len(b.data) {
		c := b.data[b.pos]
		b.pos++
		if c == delim {
			return []byte(b.data[start:b.pos]), nil
		}
	}
	rest := []byte(b.data[start:b.pos])
	if b.readErr != nil {
		return rest, b.readErr
	}
	return rest, io.EOF
}

// zzReadError: the ways a broken body surfaces (a reset, or net/http's short-body error, bare or wrapped).
func zzReadError() error {
	switch vChoice("errKind", 3) {
	case 0:
		return errors.New("connection reset")
	case 1:
		return io.ErrUnexpectedEOF
	}
	return fmt.Errorf("read tcp: %w", io.ErrUnexpectedEOF)
}

func zzCopyDiscard(w io.Writer, r io.Reader) (int64, error) { return 0, nil }

// zzWord: n bytes that are printable, not blank, not ':' (payloads and ids of well-formed events).
func zzWord(tag string, n int) string {
	s := vStringLen(tag, n)
	for i := 0; i < len(s); i++ {
		vAssume(s[i] > ' ' && s[i] < 127 && s[i] != ':')
	}
	return s
}

// ---------------------------------------------------------------- C19-H2: framing round trip

type zzSSEWriter struct {
	hdr http.Header
	out string
}

func (w *zzSSEWriter) Header() http.Header         { return w.hdr }
func (w *zzSSEWriter) Write(b []byte) (int, error) { w.out += string(b); return len(b), nil }
func (w *zzSSEWriter) WriteHeader(int)             {}

func zzC19Framing() {
	var evts []Event
	w := &zzSSEWriter{hdr: http.Header{}}
	n := 1 + vChoice("nevents", 2)
	for i := 0; i < n; i++ {
		e := Event{Data: []byte(zzWord("data", 1+vChoice("dlen", vParam("datalen"))))}
		if vBool("hasID") {
			e.ID = zzWord("id", 2)
		}
		if vBool("hasName") {
			e.Name = "message"
		}
		if vBool("interiorSpace") {
			e.Data = []byte(string(e.Data) + " " + zzWord("data2", 1)) // JSON may contain interior blanks
		}
		if _, err := writeEvent(w, e); err != nil {
			vAssert(false, "C19.sse.write-error")
		}
		evts = append(evts, e)
	}
	body := &zzBody{data: w.out}
	var got []Event
	for e, err := range scanEvents(body) {
		vAssert(err == nil, "C19.sse.scan-error")
		got = append(got, e)
	}
	vAssert(len(got) == len(evts), "C19.sse.event-count")
	for i := range got {
		vAssert(got[i].ID == evts[i].ID && got[i].Name == evts[i].Name && string(got[i].Data) == string(evts[i].Data) && got[i].Retry == "", "C19.sse.fields-preserved")
	}
	vReach("end")
}

// ---------------------------------------------------------------- C09-H1: cuts

type zzDecoded struct {
	payload string
}

var zzDecodeLog []string

// DecodeMessage stand-in: complete payloads (exactly the payload length used by the harness) decode to a
// notification carrying the payload as its method; anything shorter is truncated JSON and fails.
func zzDecodeMessage(data []byte) (jsonrpc.Message, error) {
	zzDecodeLog = append(zzDecodeLog, string(data))
	if len(data) != vParam("plen") {
		return nil, errors.New("unexpected end of JSON input")
	}
	return &jsonrpc.Request{Method: string(data)}, nil
}

func zzNewClientConn() *streamableClientConn {
	return &streamableClientConn{
		incoming:   make(chan jsonrpc.Message, 8),
		done:       make(chan struct{}),
		failed:     make(chan struct{}),
		maxRetries: 2,
		ctx:        context.Background(),
	}
}

func zzC09Cut() {
	plen := vParam("plen")
	nev := 1 + vChoice("nevents", 2)
	type span struct {
		start, dataDone, end int // dataDone: offset at which the payload's last byte has been received
		id, payload        string
	}
	var spans []span
	body := ""
	for i := 0; i < nev; i++ {
		sp := span{start: len(body), id: "s_" + zzWord("id", 1), payload: zzWord("p", plen)}
		body += "id: " + sp.id + "\ndata: " + sp.payload
		sp.dataDone = len(body)
		body += "\n\n"
		sp.end = len(body)
		spans = append(spans, sp)
	}
	cut := vIntRange("cut", 0, len(body))
	isErr := vBool("readError")
	b := &zzBody{data: body[:cut]}
	if isErr {
		b.readErr = zzReadError()
	}
	c := zzNewClientConn()
	forCall := &jsonrpc.Request{ID: jsonrpc2.Int64ID(99), Method: "tools/call"}
	zzDecodeLog = nil
	lastID, _, clientClosed := c.processStream(context.Background(), "POST", &http.Response{Body: b}, forCall)

	// Events wholly inside the prefix (blank line included) must be delivered; events whose field lines are
	// complete but whose terminating blank line is cut off may be delivered (rule 2 of DESIGN §3).
	must, may := 0, 0
	for _, sp := range spans {
		if cut >= sp.end {
			must++
		}
		if cut >= sp.dataDone {
			may++
		}
	}
	inside := false    // the cut falls strictly inside an event, before its payload is complete
	inPayload := false // ... more precisely inside the payload bytes (at least one received, not all)
	for _, sp := range spans {
		if cut > sp.start && cut < sp.dataDone {
			inside = true
			if cut > sp.dataDone-len(sp.payload) {
				inPayload = true
			}
		}
	}
	known := !isErr && inside
	// The known finding (D4) is recorded symptom by symptom, so that a change which merely swaps one symptom for
	// another inside the same region is still reported: a cut inside the payload is known to hand truncated JSON to
	// the decoder and thereby fail the connection — it is NOT known to lose the message silently or to move the cursor.
	vKnownRegion("C09.cut.no-truncated-payload-decoded", "clean-eof-cut-inside-event", known)
	vKnownRegion("C09.cut.no-failure-for-a-mere-cut", "clean-eof-cut-inside-event", known)
	vKnownRegion("C09.cut.delivered-exactly-the-complete-events", "clean-eof-cut-inside-event", known && !inPayload)
	vKnownRegion("C09.cut.cursor-is-last-delivered-event", "clean-eof-cut-inside-event", known && !inPayload)

	for _, d := range zzDecodeLog {
		vAssert(len(d) == plen, "C09.cut.no-truncated-payload-decoded")
	}
	vAssert(c.failure() == nil && !clientClosed, "C09.cut.no-failure-for-a-mere-cut")
	// drain what was forwarded to the session
	var delivered []string
	synthetic := 0
	for vChanLen(c.incoming) > 0 {
		switch m := (<-c.incoming).(type) {
		case *jsonrpc.Request:
			delivered = append(delivered, m.Method)
		case *jsonrpc.Response:
			vAssert(m.ID == forCall.ID && m.Error != nil, "C09.cut.synthetic-error-shape")
			synthetic++
		}
	}
	d := len(delivered)
	vAssert(d >= must && d <= may, "C09.cut.delivered-exactly-the-complete-events")
	for i := 0; i < d && i < len(spans); i++ {
		vAssert(delivered[i] == spans[i].payload, "C09.cut.in-order-intact")
	}
	alive := c.failure() == nil && !clientClosed // (once the connection has failed there is no resume and the cursor is moot)
	if d > 0 && d <= len(spans) {
		vAssert(!alive || lastID == spans[d-1].id, "C09.cut.cursor-is-last-delivered-event")
		vAssert(synthetic == 0, "C09.cut.no-synthetic-error-when-resumable")
		vReach("resumable")
	} else if d == 0 {
		// nothing delivered: no cursor, and the pending call is failed with a synthetic error instead of hanging
		vAssert(!alive || lastID == "", "C09.cut.cursor-is-last-delivered-event")
		if !known {
			vAssert(synthetic == 1, "C09.cut.unresumable-call-fails-cleanly")
			vReach("unresumable")
		}
	}
	vAssert(b.closed == 1, "C09.cut.body-closed")
	vReach("end")
}

// ---------------------------------------------------------------- C09-H2: resume across cuts

type zzSSEServer struct {
	priming   bool     // event 0 is a priming event: an id without a payload
	nEvents   int      // events of the logical stream: ids s_0 .. s_{n-1}; the last one is the call's response
	gets      []string // Last-Event-ID of every GET issued
	attempts  int
	doErrors  int
	sawID     bool // some event id has reached the client (a cursor exists)
	budget    int // how many more adverse outcomes the environment may inject
	refused   int // reconnects answered with a non-2xx status
	getsAfterRefusal int
	cancel    context.CancelFunc // the caller of the pending call may give up while a reconnect is on its way
	cancelled bool
}

var zzSrv *zzSSEServer

func zzPayload(i int) string { return string([]byte{'p', byte('0' + i)}) }
func zzEventID(i int) string  { return string([]byte{'s', '_', byte('0' + i)}) }

// body serving events from index `from`, cut after k complete events (k symbolic), ending by EOF or error.
func (s *zzSSEServer) body(from int) *zzBody {
	remaining := s.nEvents - from
	k := remaining
	if s.budget > 0 && vBool("cutThisBody") {
		k = vIntRange("eventsBeforeCut", 0, remaining-1)
		s.budget--
	}
	data := ""
	for i := from; i < from+k; i++ {
		if i == 0 && s.priming {
			data += "id: " + zzEventID(i) + "\ndata: \n\n"
		} else {
			data += "id: " + zzEventID(i) + "\ndata: " + zzPayload(i) + "\n\n"
		}
	}
	if k > 0 {
		s.sawID = true
	}
	b := &zzBody{data: data}
	if k < remaining && vBool("cutIsError") {
		b.readErr = zzReadError()
	}
	return b
}

func zzDecodeResume(data []byte) (jsonrpc.Message, error) {
	if len(data) != 2 || data[0] != 'p' {
		return nil, errors.New("bad payload")
	}
	i := int(data[1] - '0')
	if i == zzSrv.nEvents-1 {
		return &jsonrpc.Response{ID: jsonrpc2.Int64ID(99), Result: []byte("ok")}, nil
	}
	return &jsonrpc.Request{Method: string(data)}, nil
}

func zzTimeAfter(d time.Duration) <-chan time.Time {
	ch := make(chan time.Time, 1)
	ch <- time.Time{}
	return ch
}
func zzNewRequest(ctx context.Context, method, url string, body io.Reader) (*http.Request, error) {
	return (&http.Request{Method: method, Header: http.Header{}}).WithContext(ctx), nil
}
func zzSetMCPHeaders(c *streamableClientConn, req *http.Request, msg jsonrpc.Message) error { return nil }
func zzReconnectDelay(attempt int) time.Duration                                                     { return 1 }

// model of http.Client.Do for the resume GET
func zzClientDo(_ *http.Client, req *http.Request) (*http.Response, error) {
	s := zzSrv
	s.attempts++
	last := req.Header.Get(lastEventIDHeader)
	s.gets = append(s.gets, last)
	// every reconnect is a GET for an event stream that names the session it resumes (C11: a request without the id
	// would be answered as a new, unknown client)
	vAssert(req.Method == http.MethodGet && req.Header.Get("Accept") == "text/event-stream", "C09.resume.get-asks-for-an-event-stream")
	vAssert(req.Header.Get(sessionIDHeader) == "S1", "C11.resume.get-carries-the-session-id")
	if s.cancelled {
		return nil, fmt.Errorf("Get %q: %w", "http://server", context.Canceled)
	}
	if s.budget > 0 && s.cancel != nil && vBool("callerGivesUpDuringThisReconnect") {
		// (C04) the caller's context ends while the GET is on its way; what the GET then reports is a race between the
		// cancellation and whatever else was going wrong with it
		s.budget--
		s.cancelled = true
		s.cancel()
		if vBool("reportsTheTransportProblemInstead") {
			return nil, errors.New("read tcp: connection reset by peer")
		}
		return nil, fmt.Errorf("Get %q: %w", "http://server", context.Canceled)
	}
	if s.budget > 0 && vBool("transportError") {
		s.budget--
		s.doErrors++
		if vBool("itIsANetworkTimeout") {
			// (net's dial/IO timeouts and http.Client.Timeout report Is(context.DeadlineExceeded) although no context of
			// the caller has ended: still a transient failure, retried within the budget)
			return nil, fmt.Errorf("dial tcp 10.0.0.1:443: i/o timeout: %w", context.DeadlineExceeded)
		}
		return nil, errors.New("dial tcp: connection refused")
	}
	if s.refused > 0 {
		s.getsAfterRefusal++
	}
	if s.budget > 0 && vBool("reconnectRefused") {
		// the server answers the resume with an HTTP error: session gone, method not allowed, overload, server error
		s.budget--
		s.refused++
		code := []int{http.StatusNotFound, http.StatusMethodNotAllowed, http.StatusBadRequest, http.StatusInternalServerError, http.StatusServiceUnavailable, http.StatusTooManyRequests}[vChoice("status", 6)]
		return &http.Response{StatusCode: code, Body: &zzBody{}}, nil
	}
	from := 0
	if last != "" {
		vAssert(len(last) == 3 && last[0] == 's' && last[1] == '_', "C09.resume.well-formed-last-event-id")
		from = int(last[2]-'0') + 1
	}
	return &http.Response{StatusCode: 200, Body: s.body(from)}, nil
}

func zzReadAllNothing(io.Reader) ([]byte, error) { return nil, nil }

func zzC09Resume() {
	srv := &zzSSEServer{nEvents: vParam("events"), budget: vParam("faults"), priming: vBool("priming")}
	zzSrv = srv
	c := zzNewClientConn()
	c.maxRetries = vParam("maxRetries")
	c.client = &http.Client{}
	c.sessionID = "S1"
	forCall := &jsonrpc.Request{ID: jsonrpc2.Int64ID(99), Method: "tools/call"}
	first := &http.Response{StatusCode: 200, Body: srv.body(0)}
	ctx, cancel := context.WithCancel(context.Background())
	srv.cancel = cancel
	c.handleSSE(ctx, "POST", first, forCall)
	if srv.cancelled {
		// a call its caller gave up on is the caller's business only: the connection, and with it every other call of
		// the session, stays up whatever the abandoned reconnect ran into
		vAssert(c.failure() == nil, "C04.a-call-the-caller-gave-up-on-never-fails-the-connection")
		vReach("caller-gave-up")
		vReach("end")
		return
	}

	var delivered []string
	gotResponse, synthetic := 0, 0
	for vChanLen(c.incoming) > 0 {
		switch m := (<-c.incoming).(type) {
		case *jsonrpc.Request:
			delivered = append(delivered, m.Method)
		case *jsonrpc.Response:
			if m.Error != nil {
				synthetic++
			} else {
				gotResponse++
			}
		}
	}
	// exactly once, in order
	firstMsg := 0
	if srv.priming {
		firstMsg = 1
	}
	for i, p := range delivered {
		vAssert(p == zzPayload(firstMsg+i), "C09.resume.exactly-once-in-order")
	}
	// every resume carried the id of the last event received so far
	for _, g := range srv.gets {
		if g != "" {
			vAssert(len(g) == 3, "C09.resume.well-formed-last-event-id")
		}
	}
	failed := c.failure() != nil
	// outcome: the real response, or a clean failure — never a silent return
	vAssert(gotResponse+synthetic <= 1, "C09.resume.at-most-one-completion")
	vAssert(gotResponse == 1 || synthetic == 1 || failed, "C09.resume.call-completes-or-fails")
	if gotResponse == 1 {
		vAssert(len(delivered) == srv.nEvents-1-firstMsg && !failed && synthetic == 0, "C09.resume.all-messages-before-response")
		vReach("completed")
	}
	// within the retry budget (fewer adverse events than retries) the call must complete with the real response
	if vParam("faults") <= c.maxRetries && srv.refused == 0 {
		// (a stream cut before any event id was received has no cursor and legitimately fails cleanly)
		vAssert(gotResponse == 1 || (srv.sawID == false && synthetic == 1), "C09.resume.completes-within-budget")
	}
	if srv.refused > 0 {
		// a resume refused by the server ends the logical session: the connection fails (so the pending call
		// completes with an error) and the client stops asking
		vAssert(failed && gotResponse == 0, "C09.resume.refused-reconnect-fails-the-connection")
		vAssert(srv.getsAfterRefusal == 0, "C09.resume.no-retry-after-refusal")
		vReach("refused")
	}
	if failed {
		vReach("failed")
	}
	vReach("end")
}

// H3: once the connection has failed, every Read (and Write) reports that failure — the first one — and never a
// message, whatever else is ready; this is what turns a failed stream into "the session closes and every call
// completes with an error" (C01).
func zzC09ReadAfterFail() {
	c := zzNewClientConn()
	e1, e2 := errors.New("stream broke"), errors.New("later problem")
	if vBool("messageQueued") {
		c.incoming <- &jsonrpc.Response{ID: jsonrpc2.Int64ID(1), Result: vJSON("late")}
	}
	ctx, cancel := context.WithCancel(context.Background())
	if vBool("callerGone") {
		cancel()
	}
	nf := vChoice("failures", 3)
	if nf >= 1 {
		c.fail(e1)
	}
	if nf >= 2 {
		c.fail(e2)
		c.fail(nil)
	}
	closed := vBool("closed")
	if closed {
		close(c.done)
	}
	vAssume(nf >= 1 || closed || ctx.Err() != nil || vChanLen(c.incoming) > 0) // otherwise Read legitimately waits
	msg, err := c.Read(ctx)
	if nf >= 1 {
		vAssert(msg == nil && err == e1, "C09.failed-connection-reads-report-the-first-failure")
		werr := c.Write(context.Background(), &jsonrpc.Request{Method: "notifications/x"})
		vAssert(werr == e1, "C09.failed-connection-refuses-writes")
		vReach("failed")
	} else {
		vAssert(msg != nil || err != nil, "C09.read-returns-something")
		vAssert(c.failure() == nil, "C09.no-failure-without-fail")
	}
	cancel()
	vReach("end")
}
func zzNoMeta9(raw []byte) Meta { return nil }
