package mcp

import "encoding/json"

// C19-H7: the result types with custom JSON methods (CallToolResult, GetPromptResult, ReadResourceResult). Each is
// encoded by its real MarshalJSON (a local wire struct embedding the result, shadowing inputRequests, adding
// resultType) and decoded by its real UnmarshalJSON (another local wire struct, for CallToolResult shadowing content
// with the shared wire form). The JSON text in between is the engine's member-by-member conversion between the two
// wire structs as encoding/json defines it: embedded structs flattened, shallower members shadow deeper ones,
// omitempty members that are empty are not transmitted, members with their own MarshalJSON/UnmarshalJSON use them.

func zzC19Results() {
	meta := zzSymMeta("meta")
	needsInput := vBool("inputRequired")
	var ir InputRequestMap
	rt := resultType("")
	if needsInput {
		rt = resultTypeInputRequired
		switch vChoice("inputRequests", 3) {
		case 1:
			ir = InputRequestMap{"r1": &ListRootsParams{}}
		case 2:
			ir = InputRequestMap{} // empty but present: the load-shedding signal ("busy, retry") — not the same as absent
		}
	}
	state := vStringN("requestState", 1)
	switch vChoice("kind", 3) {
	case 0:
		c := &CallToolResult{Meta: meta, IsError: vBool("isError"), InputRequests: ir}
		c.resultType = rt
		texts := []string{vStringN("t0", 1), vStringN("t1", 1)}
		n := vChoice("contentItems", 3)
		c.Content = []Content{}
		for i := 0; i < n; i++ {
			c.Content = append(c.Content, &TextContent{Text: texts[i]})
		}
		if vBool("structured") {
			c.StructuredContent = map[string]any{"k": vStringN("sv", 1)}
		}
		data, err := c.MarshalJSON()
		vAssert(err == nil, "C19.result.marshal-ok")
		var g CallToolResult
		vAssert(g.UnmarshalJSON(data) == nil, "C19.result.unmarshal-ok")
		vAssert(zzMetaEq(g.Meta, c.Meta) && g.IsError == c.IsError, "C19.result.calltool-roundtrip")
		vAssert(g.NeedsInput() == needsInput, "C19.result.result-type-roundtrip")
		vAssert(len(g.InputRequests) == len(c.InputRequests) && (g.InputRequests == nil) == (c.InputRequests == nil), "C19.result.input-requests-roundtrip")
		vAssert(g.Content != nil && len(g.Content) == n, "C19.result.content-roundtrip")
		for i := 0; i < n && i < len(g.Content); i++ {
			t, ok := g.Content[i].(*TextContent)
			vAssert(ok && t.Text == texts[i], "C19.result.content-roundtrip")
		}
		vAssert((g.StructuredContent == nil) == (c.StructuredContent == nil), "C19.result.structured-roundtrip")
		if sm, ok := g.StructuredContent.(map[string]any); ok {
			vAssert(sm["k"] == c.StructuredContent.(map[string]any)["k"], "C19.result.structured-roundtrip")
		}
		vReach("calltool")
	case 1:
		p := &GetPromptResult{Meta: meta, Description: vStringN("desc", 1), InputRequests: ir, RequestState: state}
		p.resultType = rt
		text := vStringN("msg", 1)
		p.Messages = []*PromptMessage{}
		if vBool("oneMessage") {
			p.Messages = append(p.Messages, &PromptMessage{Role: "user", Content: &TextContent{Text: text}})
		}
		data, err := p.MarshalJSON()
		vAssert(err == nil, "C19.result.marshal-ok")
		var g GetPromptResult
		vAssert(g.UnmarshalJSON(data) == nil, "C19.result.unmarshal-ok")
		vAssert(zzMetaEq(g.Meta, p.Meta) && g.Description == p.Description && g.RequestState == p.RequestState, "C19.result.getprompt-roundtrip")
		vAssert(g.NeedsInput() == needsInput && len(g.InputRequests) == len(p.InputRequests), "C19.result.result-type-roundtrip")
		vAssert((g.InputRequests == nil) == (p.InputRequests == nil), "C19.result.input-requests-roundtrip")
		vAssert(len(g.Messages) == len(p.Messages), "C19.result.messages-roundtrip")
		if len(g.Messages) == 1 {
			t, ok := g.Messages[0].Content.(*TextContent)
			vAssert(ok && t.Text == text && g.Messages[0].Role == "user", "C19.result.messages-roundtrip")
		}
		vReach("getprompt")
	case 2:
		r := &ReadResourceResult{Meta: meta, InputRequests: ir, RequestState: state}
		r.resultType = rt
		r.TTLMs = vIntRange("ttlMs", 0, 1<<30)
		uri, text := vStringN("uri", 1), vStringN("text", 1)
		r.Contents = []*ResourceContents{}
		if vBool("oneContent") {
			r.Contents = append(r.Contents, &ResourceContents{URI: uri, Text: text})
		}
		data, err := r.MarshalJSON()
		vAssert(err == nil, "C19.result.marshal-ok")
		var g ReadResourceResult
		vAssert(g.UnmarshalJSON(data) == nil, "C19.result.unmarshal-ok")
		vAssert(zzMetaEq(g.Meta, r.Meta) && g.RequestState == r.RequestState && g.TTLMs == r.TTLMs, "C19.result.readresource-roundtrip")
		vAssert(g.NeedsInput() == needsInput && len(g.InputRequests) == len(r.InputRequests), "C19.result.result-type-roundtrip")
		vAssert((g.InputRequests == nil) == (r.InputRequests == nil), "C19.result.input-requests-roundtrip")
		vAssert(len(g.Contents) == len(r.Contents), "C19.result.contents-roundtrip")
		if len(g.Contents) == 1 {
			vAssert(g.Contents[0].URI == uri && g.Contents[0].Text == text, "C19.result.contents-roundtrip")
		}
		vReach("readresource")
	}
	vReach("end")
}

// C19 "decoding never panics", for the inputRequests member of the multi round-trip results (defect D22): documents a
// peer may send — an entry that is null, an entry without params or with null params, a method this SDK does not know.
type zzRawInputReq struct {
	Method string `json:"method"`
	Params InputRequest `json:"params,omitempty"`
}

func zzC19InputRequestsDecode() {
	doc := map[string]*zzRawInputReq{}
	known := true
	null := false
	either := false
	switch vChoice("entry", 4) {
	case 0:
		doc["a"] = nil // {"a": null}
		null = true
	case 1:
		doc["a"] = &zzRawInputReq{Method: methodListRoots, Params: &ListRootsParams{}}
	case 2:
		doc["a"] = &zzRawInputReq{Method: methodListRoots} // params absent: refused by today's decoder (nothing to decode), which the property allows — it must not crash
		either = true
	case 3:
		doc["a"] = &zzRawInputReq{Method: "no/such-method", Params: &ListRootsParams{}}
		known = false
	}
	var m InputRequestMap
	data, merr := json.Marshal(doc)
	vAssume(merr == nil)
	err := m.UnmarshalJSON(data) // (a panic in here is reported as a violation by the engine)
	if err == nil {
		vAssert(known && !null, "C19.input-requests.unusable-entry-is-an-error")
		vAssert(len(m) == len(doc), "C19.input-requests.every-entry-decoded")
		for k := range doc {
			vAssert(m[k] != nil, "C19.input-requests.every-entry-decoded")
		}
		vReach("decoded")
	} else {
		vAssert(!known || null || either, "C19.input-requests.usable-document-decodes")
		vReach("refused")
	}
	vReach("end")
}
