package mcp

import (
	"context"
	"errors"

	"github.com/modelcontextprotocol/go-sdk/internal/jsonrpc2"
	"github.com/modelcontextprotocol/go-sdk/jsonrpc"
)

// How a session is wired to its jsonrpc2 connection (the real connect(), Server.Connect / Client side binder): what the
// connection is given as Preempter, Handler, Closer and hooks. The jsonrpc2 layer hands every incoming message to the
// Preempter first, from the read loop, and to the handler only if the Preempter declines: whatever the Preempter
// answers by itself bypasses the session's gate (lifecycle, per-request metadata, removed methods — C06), its
// middleware and the ordering of the handler queue (C03).

type zzWireConn struct{ closes int }

func (c *zzWireConn) Read(context.Context) (jsonrpc.Message, error) { return nil, errors.New("closed") }
func (c *zzWireConn) Write(context.Context, jsonrpc.Message) error  { return nil }
func (c *zzWireConn) Close() error                                  { c.closes++; return nil }
func (c *zzWireConn) SessionID() string                             { return "" }

type zzWireTransport struct{ conn *zzWireConn }

func (t *zzWireTransport) Connect(context.Context) (Connection, error) { return t.conn, nil }

var zzWireCfg *jsonrpc2.ConnectionConfig
var zzWireHandler jsonrpc2.Handler

func zzWireNewConnection(ctx context.Context, cfg jsonrpc2.ConnectionConfig) *jsonrpc2.Connection {
	c := &jsonrpc2.Connection{}
	zzWireCfg = &cfg
	zzWireHandler = cfg.Bind(c)
	return c
}

func zzC06Wiring() {
	rec := &zzConnRec{}
	zzCR = rec
	tr := &zzWireTransport{conn: &zzWireConn{}}
	serverSide := vBool("serverSide")
	if serverSide {
		srv := NewServer(&Implementation{Name: "s", Version: "v"}, nil)
		ss, err := srv.Connect(context.Background(), tr, nil)
		vAssert(err == nil && ss != nil, "C07.wiring.server-connected")
	} else {
		c := NewClient(&Implementation{Name: "c", Version: "v"}, nil)
		cs, err := connect(context.Background(), tr, c, (*clientSessionState)(nil), nil, c.opts.Logger)
		vAssert(err == nil && cs != nil, "C07.wiring.client-bound")
	}
	cfg := zzWireCfg
	vAssert(cfg != nil && cfg.Preempter != nil && zzWireHandler != nil, "C07.wiring.connection-configured")
	vAssert(cfg.Closer != nil && cfg.Reader != nil && cfg.Writer != nil, "C05.wiring.closer-reader-writer-set")
	// any message other than a cancellation notice: every known method name and the unknown names between them, as a
	// call or a notification, with or without 2026-07-28 metadata
	method := vStringAmong("method", zzAllMethodNames()...)
	vAssume(method != notificationCancelled)
	req := &jsonrpc.Request{Method: method, Params: vJSON(&PingParams{})}
	if vBool("isCall") {
		req.ID = jsonrpc2.Int64ID(3)
	}
	res, err := cfg.Preempter.Preempt(context.Background(), req)
	vAssert(res == nil && errors.Is(err, jsonrpc2.ErrNotHandled), "C06.wiring.only-cancellation-is-answered-outside-the-gate")
	vAssert(len(rec.cancels) == 0, "C04.only-cancelled-notifications-cancel")
	vReach("end")
}
