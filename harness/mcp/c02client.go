package mcp

import (
	"context"

	"github.com/modelcontextprotocol/go-sdk/internal/jsonrpc2"
	"github.com/modelcontextprotocol/go-sdk/jsonrpc"
)

// The client's and the server's own method implementations — not a recorder in their place — for every method that
// declares its params optional, called with params absent or JSON null (what the wire allows): the request is served or
// refused with an error; the implementation never panics (a panic in a handler goroutine takes the process down).
// Every user handler is installed, so that the code behind each method runs.
func zzC02ClientOptionalParams() {
	c := NewClient(&Implementation{Name: "c", Version: "v"}, &ClientOptions{
		CreateMessageHandler:        func(context.Context, *CreateMessageRequest) (*CreateMessageResult, error) { return &CreateMessageResult{}, nil },
		ElicitationHandler:          func(context.Context, *ElicitRequest) (*ElicitResult, error) { return &ElicitResult{Action: "decline"}, nil },
		ToolListChangedHandler:      func(context.Context, *ToolListChangedRequest) {},
		PromptListChangedHandler:    func(context.Context, *PromptListChangedRequest) {},
		ResourceListChangedHandler:  func(context.Context, *ResourceListChangedRequest) {},
		ResourceUpdatedHandler:      func(context.Context, *ResourceUpdatedNotificationRequest) {},
		LoggingMessageHandler:       func(context.Context, *LoggingMessageRequest) {},
		ProgressNotificationHandler: func(context.Context, *ProgressNotificationClientRequest) {},
		ElicitationCompleteHandler:  func(context.Context, *ElicitationCompleteNotificationRequest) {},
	})
	cs := &ClientSession{client: c}
	var ms []string
	for m, info := range clientMethodInfos {
		if info.flags&missingParamsOK != 0 && m != notificationCancelled {
			ms = append(ms, m)
		}
	}
	method := vStringAmong("method", ms...)
	vAssume(vRankIsMember(method))
	req := &jsonrpc.Request{Method: method}
	if clientMethodInfos[method].flags&notification == 0 {
		req.ID = jsonrpc2.Int64ID(7)
	}
	if vBool("paramsAreJSONNull") {
		req.Params = []byte("null")
	}
	_, err := handleReceive(context.Background(), cs, req)
	_ = err // served, or refused with an error: both are answers
	vReach("end")
}

// The same for the server's own method implementations (zzC02Codes stops at a recorder in front of them).
func zzC02ServerOptionalParams() {
	zzC06 = &zzC06Env{}
	srv := NewServer(&Implementation{Name: "s", Version: "v"}, &ServerOptions{
		InitializedHandler:          func(context.Context, *InitializedRequest) {},
		RootsListChangedHandler:     func(context.Context, *RootsListChangedRequest) {},
		ProgressNotificationHandler: func(context.Context, *ProgressNotificationServerRequest) {},
		CompletionHandler:           func(context.Context, *CompleteRequest) (*CompleteResult, error) { return &CompleteResult{}, nil },
		SubscribeHandler:            func(context.Context, *SubscribeRequest) error { return nil },
		UnsubscribeHandler:          func(context.Context, *UnsubscribeRequest) error { return nil },
	})
	ss := &ServerSession{server: srv}
	ss.state.InitializeParams = &InitializeParams{ProtocolVersion: protocolVersion20250618}
	ss.state.InitializedParams = &InitializedParams{}
	var ms []string
	for m, info := range serverMethodInfos {
		if info.flags&missingParamsOK != 0 && m != notificationCancelled && m != methodInitialize && m != notificationInitialized {
			ms = append(ms, m)
		}
	}
	method := vStringAmong("method", ms...)
	vAssume(vRankIsMember(method))
	req := &jsonrpc.Request{Method: method}
	if serverMethodInfos[method].flags&notification == 0 {
		req.ID = jsonrpc2.Int64ID(7)
	}
	if vBool("paramsAreJSONNull") {
		req.Params = []byte("null")
	}
	ctx := context.WithValue(context.Background(), idContextKey{}, req.ID)
	_, err := handleReceive(ctx, ss, req)
	_ = err
	vReach("end")
}

// sampling/createMessage served through the basic CreateMessageHandler (the request is down-converted): documents a
// peer may send — no messages, one message, a message that is null, a message with several content blocks — are
// served or refused with an error; the conversion never panics (defect D31, fixed).
type zzRawSampling struct {
	Messages  []*SamplingMessageV2 `json:"messages"`
	MaxTokens int64                `json:"maxTokens"`
}

func zzC02ClientSamplingShapes() {
	ran := 0
	c := NewClient(&Implementation{Name: "c", Version: "v"}, &ClientOptions{
		CreateMessageHandler: func(context.Context, *CreateMessageRequest) (*CreateMessageResult, error) {
			ran++
			return &CreateMessageResult{Content: &TextContent{Text: "ok"}, Role: "assistant", Model: "m"}, nil
		},
	})
	cs := &ClientSession{client: c}
	doc := &CreateMessageWithToolsParams{MaxTokens: 10}
	one := &SamplingMessageV2{Role: "user", Content: []Content{&TextContent{Text: "hi"}}}
	kind := vChoice("messages", 4)
	switch kind {
	case 1:
		doc.Messages = []*SamplingMessageV2{one}
	case 2:
		doc.Messages = []*SamplingMessageV2{one, nil} // "messages":[{...},null]
	case 3:
		doc.Messages = []*SamplingMessageV2{{Role: "user", Content: []Content{&TextContent{Text: "a"}, &TextContent{Text: "b"}}}}
	}
	_, err := c.createMessage(context.Background(), &CreateMessageWithToolsRequest{Session: cs, Params: doc})
	if kind >= 2 {
		vAssert(err != nil && ran == 0, "C02.sampling.unusable-message-refused-without-running-the-handler")
		vReach("refused")
	} else {
		vAssert(err == nil && ran == 1, "C02.sampling.usable-request-served")
		vReach("served")
	}
	vReach("end")
}
