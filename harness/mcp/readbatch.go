package mcp

import (
	"encoding/json"

	"github.com/modelcontextprotocol/go-sdk/jsonrpc"
)

// readBatch (the ndjson/stdio and HTTP body decoder): a body is one message or an array of messages. Whatever the
// body — a batch of 1..N messages of any mix of calls, notifications and responses, a single message, nothing, blanks
// only, an empty array, a JSON value that is no message — readBatch returns without panicking (C19), reports an error
// for what is no message, and hands the messages of a batch on in exactly the order of the array (C03: arrival order
// is what the dispatcher serialises on; a transport that reorders a batch reorders the handlers).
type zzBatchWire struct {
	VersionTag string          `json:"jsonrpc"`
	ID         any             `json:"id,omitempty"`
	Method     string          `json:"method,omitempty"`
	Params     json.RawMessage `json:"params,omitempty"`
	Result     json.RawMessage `json:"result,omitempty"`
}

func zzC03ReadBatch() {
	switch vChoice("body", 6) {
	case 0:
		// sizes up to maxBatch (small ones exhaustively by kind, large ones by pattern: library sorts change
		// algorithm — and stability — with the length)
		n := 1 + vChoice("n", vParam("maxBatch"))
		kinds := make([]int, n)
		var raws []json.RawMessage
		pattern, rot, at := 0, 0, 0
		if n > 3 {
			pattern = 1 + vChoice("pattern", 3) // all calls / call,notification,response rotating / one response among calls
			rot = vChoice("rotation", 3)
			at = vChoice("responseAt", n)
		}
		for i := 0; i < n; i++ {
			switch pattern {
			case 0:
				kinds[i] = vChoice("kind", 3)
			case 1:
				kinds[i] = 0
			case 2:
				kinds[i] = (i + rot) % 3
			case 3:
				kinds[i] = 0
				if i == at {
					kinds[i] = 2
				}
			}
			w := zzBatchWire{VersionTag: "2.0"}
			switch kinds[i] {
			case 0: // call
				w.ID, w.Method, w.Params = int64(100+i), "tools/call", vJSON(&PingParams{})
			case 1: // notification
				w.Method, w.Params = "notifications/progress", vJSON(&PingParams{})
			case 2: // response
				w.ID, w.Result = int64(100+i), vJSON("r")
			}
			raws = append(raws, json.RawMessage(vJSON(w)))
		}
		msgs, isBatch, err := readBatch(vJSON(raws))
		vAssert(err == nil && isBatch && len(msgs) == n, "C19.batch.every-message-of-the-array-decoded")
		for i, m := range msgs {
			switch m := m.(type) {
			case *jsonrpc.Request:
				vAssert(kinds[i] != 2, "C03.batch.order-of-the-array-preserved")
				if kinds[i] == 0 {
					vAssert(m.IsCall() && m.ID.Raw() == any(int64(100+i)), "C03.batch.order-of-the-array-preserved")
				} else {
					vAssert(!m.IsCall(), "C03.batch.order-of-the-array-preserved")
				}
			case *jsonrpc.Response:
				vAssert(kinds[i] == 2 && m.ID.Raw() == any(int64(100+i)), "C03.batch.order-of-the-array-preserved")
			}
		}
		vReach("batch")
	case 1:
		msgs, isBatch, err := readBatch(vJSON(zzBatchWire{VersionTag: "2.0", ID: int64(1), Method: "ping"}))
		vAssert(err == nil && !isBatch && len(msgs) == 1, "C19.batch.single-message")
		vReach("single")
	case 2:
		_, _, err := readBatch(nil)
		vAssert(err != nil, "C19.batch.nothing-is-an-error")
		vReach("empty")
	case 3:
		_, _, err := readBatch([]byte([]string{" ", "\n", " \t\r\n"}[vChoice("blanks", 3)]))
		vAssert(err != nil, "C19.batch.blanks-are-an-error")
		vReach("blank")
	case 4:
		_, isBatch, err := readBatch(vJSON([]json.RawMessage{}))
		vAssert(err != nil && isBatch, "C19.batch.empty-array-is-an-error")
		vReach("empty-array")
	case 5:
		_, _, err := readBatch(vJSON("a JSON string, not a message"))
		vAssert(err != nil, "C19.batch.non-message-is-an-error")
		vReach("non-message")
	}
	vReach("end")
}
