package mcp

import (
	"context"
	"errors"
	"io"
	"net"
	"net/http"
	"net/url"

	"github.com/modelcontextprotocol/go-sdk/internal/jsonrpc2"
	"github.com/modelcontextprotocol/go-sdk/jsonrpc"
)

// The (deprecated) HTTP+SSE server transport: POST pre-validation of one message (C02), hand-over before 202
// (C03), the handler's gates (C12) and session addressing (C10/C11 wording: nothing reaches another session).

type zzSSEEnv struct {
	readFails   bool
	decodeFails bool
	msg         jsonrpc.Message
	media       string
	mediaErr    bool
	sid         string
	connects    int
	connectFail bool
	connected   []*SSEServerTransport
}

var zzSSE *zzSSEEnv

func zzSSEReadAll(r io.Reader) ([]byte, error) {
	if zzSSE.readFails {
		return nil, errors.New("read failed")
	}
	return []byte("body"), nil
}
func zzSSEDecode(data []byte) (jsonrpc.Message, error) {
	if zzSSE.decodeFails {
		return nil, errors.New("malformed")
	}
	return zzSSE.msg, nil
}
func zzSSEParseMediaType(v string) (string, map[string]string, error) {
	if zzSSE.mediaErr {
		return "", nil, errors.New("mime: bad media type")
	}
	return zzSSE.media, nil, nil
}
func zzSSEQuery(u *url.URL) url.Values {
	if zzSSE.sid == "" {
		return url.Values{}
	}
	return url.Values{"sessionid": {zzSSE.sid}}
}
func zzSSEURLParse(u *url.URL, ref string) (*url.URL, error) { return &url.URL{Path: "/sse", RawQuery: ref}, nil }
func zzSSERequestURI(u *url.URL) string                     { return u.Path + u.RawQuery }
func zzSSERandText() string                                 { return "NEW" }

// zzSSEMessage: an arbitrary decoded message — a request whose method ranges over the server's methods, a client-side
// method, an unknown one; with or without an id; or a response.
func zzSSEMessage() (msg jsonrpc.Message, wellFormed bool) {
	if vBool("isResponse") {
		return &jsonrpc.Response{ID: jsonrpc2.Int64ID(int64(vIntRange("respID", 0, 1<<40))), Result: vJSON("r")}, true
	}
	methods := []string{methodPing, methodListTools, methodCallTool, methodInitialize, notificationInitialized,
		notificationCancelled, notificationRootsListChanged, notificationProgress, "no/such-method", "notifications/no-such", methodCreateMessage}
	isCall := []bool{true, true, true, true, false, false, false, false, true, false, true}
	known := []bool{true, true, true, true, true, true, true, true, false, false, false}
	k := vChoice("method", len(methods))
	r := &jsonrpc.Request{Method: methods[k], Params: vJSON(&PingParams{})}
	hasID := vBool("hasID")
	if hasID {
		r.ID = jsonrpc2.Int64ID(int64(vIntRange("reqID", 0, 1<<40)))
	}
	return r, known[k] && isCall[k] == hasID
}

// C02/C03 on the SSE transport: SSEServerTransport.ServeHTTP with an arbitrary body outcome.
func zzSSEPost() {
	env := &zzSSEEnv{}
	zzSSE = env
	rec := &zzRec{hdr: http.Header{}}
	t := &SSEServerTransport{Endpoint: "/sse?sessionid=A", Response: rec}
	connected := vBool("connected")
	if connected {
		_, err := t.Connect(context.Background())
		vAssert(err == nil && t.incoming != nil, "SSE.connect")
	}
	closed := false
	if connected && vBool("sessionClosed") {
		// the real Close of the connection
		(&sseServerConn{t: t}).Close()
		closed = true
	}
	env.readFails = vBool("bodyReadFails")
	env.decodeFails = vBool("bodyMalformed")
	var wellFormed bool
	env.msg, wellFormed = zzSSEMessage()
	w := &zzRec{hdr: http.Header{}}
	req := &http.Request{Method: http.MethodPost, Header: http.Header{}, Body: zzRawBody{}}
	before := 0
	if connected {
		before = vChanLen(t.incoming)
	}
	t.ServeHTTP(w, req)
	queued := 0
	if connected {
		queued = vChanLen(t.incoming) - before
	}
	switch {
	case !connected:
		vAssert(w.code >= 400 && queued == 0, "C02.sse.unconnected-transport-refuses")
	case env.readFails || env.decodeFails:
		vAssert(w.code == http.StatusBadRequest && queued == 0, "C02.sse.unreadable-body-400")
	case !wellFormed:
		vAssert(w.code >= 400 && w.code < 500 && queued == 0, "C02.sse.invalid-request-refused-with-4xx")
		vReach("invalid")
	case closed:
		// Go's select may take either ready case: the message is refused, or queued on the dead session and acknowledged
		vAssert((w.code >= 400 && queued == 0) || (w.code == http.StatusAccepted && queued == 1), "C02.sse.closed-session-refuses-or-queues")
		vReach("closed")
	default:
		// handed to the session exactly once, and only then acknowledged
		vAssert(queued == 1, "C03.sse.message-queued-exactly-once")
		vAssert(w.code == http.StatusAccepted, "C03.sse.202-after-hand-over")
		vReach("queued")
	}
	if w.code == http.StatusAccepted {
		vAssert(queued == 1, "C03.sse.202-only-after-the-message-is-queued")
	}
	vReach("end")
}

// The connection object of the SSE transport: what Read returns is what was queued, in order; Write after Close fails;
// Close is idempotent.
func zzSSEConn() {
	rec := &zzRec{hdr: http.Header{}}
	t := &SSEServerTransport{Endpoint: "/sse?sessionid=A", Response: rec}
	conn, err := t.Connect(context.Background())
	vAssert(err == nil, "SSE.connect")
	_, err2 := t.Connect(context.Background())
	vAssert(err2 != nil, "SSE.second-connect-refused")
	c := conn.(*sseServerConn)
	m1 := zzCall(1, "ping")
	m2 := zzCall(2, "ping")
	t.incoming <- m1
	t.incoming <- m2
	got1, e1 := c.Read(context.Background())
	got2, e2 := c.Read(context.Background())
	vAssert(e1 == nil && e2 == nil && got1 == jsonrpc.Message(m1) && got2 == jsonrpc.Message(m2), "C03.sse.read-in-arrival-order")
	if vBool("closeFirst") {
		vAssert(c.Close() == nil, "C05.sse.close-ok")
		vAssert(c.Close() == nil, "C05.sse.close-idempotent")
		werr := c.Write(context.Background(), &jsonrpc.Response{ID: m1.ID, Result: vJSON("r")})
		vAssert(werr != nil, "C05.sse.write-after-close-fails")
		_, rerr := c.Read(context.Background())
		vAssert(rerr != nil, "C05.sse.read-after-close-fails")
		vReach("closed")
	} else {
		n := len(rec.body)
		werr := c.Write(context.Background(), &jsonrpc.Response{ID: m1.ID, Result: vJSON("r")})
		vAssert(werr == nil && len(rec.body) > n, "C02.sse.response-written-to-the-stream")
	}
	vReach("end")
}

// C12/C11 on the SSE handler: gates before anything is handed to a session, and session addressing.
func zzSSEHandler() {
	env := &zzSSEEnv{media: "application/json"}
	zzSSE = env
	srv := &Server{}
	h := NewSSEHandler(func(*http.Request) *Server { return srv }, nil)
	if vBool("protectionDisabled") {
		h = NewSSEHandler(func(*http.Request) *Server { return srv }, &SSEOptions{DisableLocalhostProtection: true})
	}
	// an existing, connected session A
	recA := &zzRec{hdr: http.Header{}}
	tA := &SSEServerTransport{Endpoint: "/sse?sessionid=A", Response: recA}
	tA.Connect(context.Background())
	h.sessions["A"] = tA
	locals := []string{"127.0.0.1:8080", "[::1]:8080", "192.0.2.10:8080", ""}
	localIsLoopback := []bool{true, true, false, false}
	hosts := []string{"localhost:8080", "127.0.0.1:8080", "evil.example", "evil.example:8080", "[::1]:8080", "notlocalhost:8080", "localhost.evil.example", "127.0.0.1.evil.example:80", "evil.example.mylocalhost", "localhost"}
	hostIsLoopback := []bool{true, true, false, false, true, false, false, false, false, true}
	li, hi := vChoice("localAddr", 4), vChoice("host", len(hosts))
	ctx := context.Background()
	if locals[li] != "" {
		ctx = context.WithValue(ctx, http.LocalAddrContextKey, net.Addr(zzAddr(locals[li])))
	}
	methods := []string{http.MethodPost, http.MethodGet, http.MethodDelete, http.MethodPut}
	method := methods[vChoice("httpMethod", 4)]
	switch vChoice("contentType", 3) {
	case 1:
		env.media = "text/plain"
	case 2:
		env.mediaErr = true
	}
	switch vChoice("sid", 3) {
	case 1:
		env.sid = "A"
	case 2:
		env.sid = "stale"
	}
	env.msg = zzCall(7, "ping")
	req := (&http.Request{Method: method, Header: http.Header{}, Host: hosts[hi], Body: zzRawBody{}, URL: &url.URL{Path: "/sse"}}).WithContext(ctx)
	req.Header.Set("Content-Type", "application/json")
	w := &zzRec{hdr: http.Header{}}
	if method == http.MethodGet {
		// a GET would block until the session ends: the request's context is already done
		cctx, cancel := context.WithCancel(ctx)
		cancel()
		req = req.WithContext(cctx)
	}
	h.ServeHTTP(w, req)
	queuedA := vChanLen(tA.incoming)
	refusedHost := !h.opts.DisableLocalhostProtection && localIsLoopback[li] && !hostIsLoopback[hi]
	badType := method == http.MethodPost && (env.mediaErr || env.media != "application/json")
	switch {
	case refusedHost:
		vAssert(w.code == http.StatusForbidden && queuedA == 0 && env.connects == 0, "C12.sse.loopback-listener-requires-loopback-host")
		vReach("refused-host")
	case badType:
		vAssert(w.code == http.StatusUnsupportedMediaType && queuedA == 0, "C12.sse.content-type-must-be-json")
		vReach("bad-type")
	case method == http.MethodPost && env.sid == "":
		vAssert(w.code == http.StatusBadRequest && queuedA == 0, "C11.sse.post-needs-a-session-id")
	case method == http.MethodPost && env.sid == "stale":
		vAssert(w.code == http.StatusNotFound && queuedA == 0, "C11.sse.unknown-session-404-and-no-effect")
		vReach("stale")
	case method == http.MethodPost:
		vAssert(w.code == http.StatusAccepted && queuedA == 1, "C10.sse.post-reaches-exactly-the-addressed-session")
		vReach("delivered")
	case method == http.MethodGet:
		// a new session is created, registered for the duration of the GET and forgotten afterwards
		vAssert(env.connects == 1 && queuedA == 0, "C11.sse.get-creates-one-session")
		_, still := h.sessions["NEW"]
		vAssert(!still && len(h.sessions) == 1, "C11.sse.session-forgotten-when-the-GET-ends")
		vReach("get")
	default:
		vAssert(w.code == http.StatusMethodNotAllowed && queuedA == 0 && env.connects == 0, "C11.sse.other-methods-405")
	}
	vReach("end")
}

func zzSSEServerConnect(s *Server, ctx context.Context, t Transport, opts *ServerSessionOptions) (*ServerSession, error) {
	zzSSE.connects++
	st := t.(*SSEServerTransport)
	if zzSSE.connectFail {
		return nil, errors.New("connect failed")
	}
	zzSSE.connected = append(zzSSE.connected, st)
	if _, err := st.Connect(ctx); err != nil {
		return nil, err
	}
	return &ServerSession{server: s, conn: &jsonrpc2.Connection{}, mcpConn: &sseServerConn{t: st}}, nil
}

func zzSSEConnClose(c *jsonrpc2.Connection) error { return nil }

// C07 on the SSE transport: it never claims the 2026-07-28 revision (or anything later), and claims every legacy one.
func zzSSEVersions() {
	t := &SSEServerTransport{}
	v := vStringAmong("version", protocolVersion20241105, protocolVersion20250326, protocolVersion20250618, protocolVersion20251125, protocolVersion20260728)
	ok := t.SupportsProtocolVersion(v)
	vAssert(ok == (v < protocolVersion20260728), "C07.sse.legacy-revisions-only")
	if ok {
		vReach("legacy")
	} else {
		vReach("modern")
	}
	vReach("end")
}
