package mcp

import (
	"context"
	"errors"

	"github.com/modelcontextprotocol/go-sdk/internal/jsonrpc2"
)

// C17 — pagination over featureSet. Keys are symbolic strings (1 byte each, plus optionally a common
// concrete prefix), so every relative order and every coincidence of keys is covered by the solver.

// Cursor codec (gob+base64) as an uninterpreted pair: decode(encode(u)) = u; any other string is rejected
// or decodes to an arbitrary uid (both explored).
func zzEncodeCursor(uid string) (string, error) { return vEncode("cursor", uid), nil }

func zzDecodeCursor(c string) (*pageToken, error) {
	if u, ok := vDecode("cursor", c); ok {
		return &pageToken{LastUID: u}, nil
	}
	if vBool("garbageDecodes") {
		return &pageToken{LastUID: vStringN("garbageUID", 1)}, nil
	}
	return nil, errors.New("failed to decode cursor")
}

// zzKey: a feature id "k" followed by 0..keylen arbitrary bytes (keylen 1: exactly one byte). With keylen 2 ids of
// different lengths, one being a prefix of another, are covered as well.
func zzKey(tag string) string {
	if n := vParam("keylen"); n > 1 {
		return "k" + vStringN(tag, n)
	}
	return "k" + vStringLen(tag, 1)
}

func zzPromptSet(n int) (*featureSet[*serverPrompt], []string) {
	fs := newFeatureSet(func(p *serverPrompt) string { return p.prompt.Name })
	var keys []string
	for i := 0; i < n; i++ {
		k := zzKey("key")
		if i == 0 && vBool("emptyID") {
			k = "" // the set is generic over ids: the empty string is an id like any other (and sorts first)
		}
		for _, o := range keys {
			vAssume(o != k)
		}
		keys = append(keys, k)
		fs.add(&serverPrompt{prompt: &Prompt{Name: k}})
	}
	if vBool("presorted") {
		fs.sortKeys()
	}
	return fs, keys
}

// RepInv: sortedKeys is nil or the strictly ascending list of exactly the map's keys.
func zzFSInv(fs *featureSet[*serverPrompt]) bool {
	if fs.sortedKeys == nil {
		return true
	}
	if len(fs.sortedKeys) != len(fs.features) {
		return false
	}
	for i, k := range fs.sortedKeys {
		if _, ok := fs.features[k]; !ok {
			return false
		}
		if i > 0 && !(fs.sortedKeys[i-1] < k) {
			return false
		}
	}
	return true
}

func zzNames(seq func(yield func(*serverPrompt) bool)) []string {
	var out []string
	for p := range seq {
		out = append(out, p.prompt.Name)
	}
	return out
}

func zzCountAbove(keys []string, u string) int {
	n := 0
	for _, k := range keys {
		if k > u {
			n++
		}
	}
	return n
}

// H1: one featureSet operation from an arbitrary RepInv state.
func zzC17SetStep() {
	n := vIntRange("n", 0, vParam("keys"))
	fs, keys := zzPromptSet(n)
	vAssert(zzFSInv(fs), "C17.inv.pre")
	switch vChoice("op", 4) {
	case 0: // add (new or replacing)
		k := zzKey("newkey")
		present := false
		for _, o := range keys {
			if o == k {
				present = true
			}
		}
		np := &serverPrompt{prompt: &Prompt{Name: k}}
		fs.add(np)
		if !present {
			keys = append(keys, k)
		}
		got, _ := fs.get(k)
		vAssert(got == np, "C17.add.stored")
		vAssert(fs.len() == len(keys), "C17.add.len")
	case 1: // remove one or two names, each present or absent (the two may coincide)
		k := zzKey("rmkey")
		names := []string{k}
		if vBool("twoNames") {
			names = append(names, zzKey("rmkey2"))
		}
		present := false
		var rest []string
		for _, o := range keys {
			hit := false
			for _, nm := range names {
				if o == nm {
					hit = true
				}
			}
			if hit {
				present = true
			} else {
				rest = append(rest, o)
			}
		}
		changed := fs.remove(names...)
		vAssert(changed == present, "C17.remove.changed")
		keys = rest
		vAssert(fs.len() == len(keys), "C17.remove.len")
	case 2: // above(u) for any u: present, absent, below all, above all
		u := zzKey("u")
		if vBool("emptyU") {
			u = ""
		}
		got := zzNames(fs.above(u))
		vAssert(len(got) == zzCountAbove(keys, u), "C17.above.count")
		for i, g := range got {
			vAssert(g > u, "C17.above.greater")
			if i > 0 {
				vAssert(got[i-1] < g, "C17.above.ascending")
			}
			_, ok := fs.features[g]
			vAssert(ok, "C17.above.member")
		}
		vReach("above")
	case 3:
		got := zzNames(fs.all())
		vAssert(len(got) == len(keys), "C17.all.count")
		for i := range got {
			if i > 0 {
				vAssert(got[i-1] < got[i], "C17.all.ascending")
			}
		}
	}
	vAssert(zzFSInv(fs), "C17.inv.post")
	// after any operation the listing agrees with the ghost key set
	all := zzNames(fs.all())
	vAssert(len(all) == len(keys), "C17.post.all-count")
	for i := range all {
		if i > 0 {
			vAssert(all[i-1] < all[i], "C17.post.ascending")
		}
	}
	vReach("end")
}

func zzServerWithPrompts(n int) (*Server, []string) {
	fs, keys := zzPromptSet(n)
	s := &Server{prompts: fs}
	s.opts.PageSize = vIntRange("pageSize", 1, vParam("maxPage"))
	if vBool("pageSizeMeansNoPaging") {
		// "no paging" spelt as a huge page size, up to the largest int (NewServer accepts every positive value)
		s.opts.PageSize = vIntRange("hugePageSize", 1<<40, 1<<63-1)
	}
	return s, keys
}

func zzListPage(s *Server, cursor string) (*ListPromptsResult, error) {
	return s.listPrompts(context.Background(), &ListPromptsRequest{Params: &ListPromptsParams{Cursor: cursor}})
}

// H2: one page from an arbitrary set, for a cursor that is empty, issued for any uid, or garbage.
func zzC17PageStep() {
	n := vIntRange("n", 0, vParam("keys"))
	s, keys := zzServerWithPrompts(n)
	var cursor string
	u := ""
	kind := vChoice("cursorKind", 3)
	switch kind {
	case 0:
	case 1:
		u = zzKey("u") // a uid that may be present, removed since, or never present
		cursor, _ = zzEncodeCursor(u)
	case 2:
		cursor = vStringN("garbage", 2)
		vAssume(cursor != "")
	}
	res, err := zzListPage(s, cursor)
	if kind == 2 && err != nil {
		vAssert(errors.Is(err, jsonrpc2.ErrInvalidParams), "C17.page.bad-cursor-code")
		vReach("bad-cursor")
		return
	}
	if kind == 2 {
		return // decoded to an arbitrary uid: behaves like kind 1 with that uid (covered there)
	}
	vAssert(err == nil, "C17.page.err")
	total := zzCountAbove(keys, u)
	if kind == 0 {
		total = len(keys) // no cursor: everything, an item whose id is the empty string included
	}
	want := total
	if want > s.opts.PageSize {
		want = s.opts.PageSize
	}
	vAssert(res.Prompts != nil, "C17.page.non-nil-list")
	vAssert(len(res.Prompts) == want, "C17.page.size")
	for i, p := range res.Prompts {
		vAssert(kind == 0 || p.Name > u, "C17.page.above-cursor")
		if i > 0 {
			vAssert(res.Prompts[i-1].Name < p.Name, "C17.page.ascending")
		}
		// no key between the cursor and this item was skipped: exactly i keys lie in (u, p.Name)
		between := 0
		for _, k := range keys {
			if (kind == 0 || k > u) && k < p.Name {
				between++
			}
		}
		vAssert(between == i, "C17.page.no-gap")
	}
	if total > s.opts.PageSize {
		last, ok := vDecode("cursor", res.NextCursor)
		vAssert(ok && last == res.Prompts[len(res.Prompts)-1].Name, "C17.page.next-cursor")
		vReach("more")
	} else {
		vAssert(res.NextCursor == "", "C17.page.last-empty-cursor")
		vReach("last")
	}
	vReach("end")
}

// H3: a traversal with arbitrary mutations between page fetches.
func zzC17Traversal() {
	n := vIntRange("n", 0, vParam("keys"))
	s, keys := zzServerWithPrompts(n)
	stable := map[string]bool{}
	for _, k := range keys {
		stable[k] = true
	}
	var out []string
	cursor := ""
	done := false
	pages := vParam("pages")
	for pg := 0; pg < pages && !done; pg++ {
		res, err := zzListPage(s, cursor)
		vAssert(err == nil, "C17.trav.err")
		for _, p := range res.Prompts {
			if len(out) > 0 {
				vAssert(out[len(out)-1] < p.Name, "C17.trav.strictly-ascending")
			}
			out = append(out, p.Name)
		}
		cursor = res.NextCursor
		if cursor == "" {
			done = true
			break
		}
		// mutation between pages
		switch vChoice("mut", 3) {
		case 1:
			k := zzKey("addkey")
			if _, had := s.prompts.features[k]; !had {
				delete(stable, k) // a key added mid-way is not "registered throughout"
			}
			s.prompts.add(&serverPrompt{prompt: &Prompt{Name: k}})
		case 2:
			k := zzKey("rmkey")
			s.prompts.remove(k)
			delete(stable, k)
		}
	}
	// every key that stayed registered and lies at or below the last returned key (or anywhere, once the
	// traversal has ended) was returned exactly once
	for k := range stable {
		cnt := 0
		for _, o := range out {
			if o == k {
				cnt++
			}
		}
		vAssert(cnt <= 1, "C17.trav.no-duplicate")
		if done || (len(out) > 0 && k <= out[len(out)-1]) {
			vAssert(cnt == 1, "C17.trav.none-lost")
		}
	}
	if done {
		vReach("finished")
	}
	vReach("end")
}

// H4: the client-side iterator yields exactly what manual paging yields.
func zzC17ClientIter() {
	n := vIntRange("n", 0, vParam("keys"))
	s, _ := zzServerWithPrompts(n)
	var manual []string
	cursor := ""
	for i := 0; i < 6; i++ {
		res, err := zzListPage(s, cursor)
		vAssert(err == nil, "C17.iter.err")
		for _, p := range res.Prompts {
			manual = append(manual, p.Name)
		}
		cursor = res.NextCursor
		if cursor == "" {
			break
		}
	}
	vAssert(cursor == "", "C17.iter.terminates")
	var viaIter []string
	seq := paginate(context.Background(), &ListPromptsParams{}, func(ctx context.Context, p *ListPromptsParams) (*ListPromptsResult, error) {
		return s.listPrompts(ctx, &ListPromptsRequest{Params: p})
	}, func(r *ListPromptsResult) []*Prompt { return r.Prompts })
	for p, err := range seq {
		vAssert(err == nil, "C17.iter.err2")
		viaIter = append(viaIter, p.Name)
	}
	vAssert(len(viaIter) == len(manual), "C17.iter.same-length")
	for i := range manual {
		vAssert(viaIter[i] == manual[i], "C17.iter.same-sequence")
	}
	vReach("end")
}

// H4b: the same equivalence against ANY pager, not only this SDK's server: pages of any size — an empty page that
// still carries a cursor included (a server or middleware that filters after cutting the page, the client's own
// tool filter) — and the cursor each page names. Manual paging follows cursors until the empty one; so must the iterator.
func zzC17IterAnyPager() {
	npages := 1 + vChoice("pages", 3)
	sizes := make([]int, npages)
	for i := range sizes {
		sizes[i] = vChoice("pageSize", 3)
	}
	name := func(pg, i int) string { return string([]byte{'p', byte('0' + pg), byte('a' + i)}) }
	asked := []string{}
	fetch := func(ctx context.Context, p *ListPromptsParams) (*ListPromptsResult, error) {
		asked = append(asked, p.Cursor)
		pg := 0
		if p.Cursor != "" {
			pg = int(p.Cursor[1] - '0')
		}
		res := &ListPromptsResult{}
		for i := 0; i < sizes[pg]; i++ {
			res.Prompts = append(res.Prompts, &Prompt{Name: name(pg, i)})
		}
		if pg+1 < npages {
			res.NextCursor = string([]byte{'c', byte('0' + pg + 1)})
		}
		return res, nil
	}
	var want []string
	for pg := 0; pg < npages; pg++ {
		for i := 0; i < sizes[pg]; i++ {
			want = append(want, name(pg, i))
		}
	}
	var got []string
	for p, err := range paginate(context.Background(), &ListPromptsParams{}, fetch, func(r *ListPromptsResult) []*Prompt { return r.Prompts }) {
		vAssert(err == nil, "C17.iter.err2")
		got = append(got, p.Name)
	}
	vAssert(len(got) == len(want), "C17.iter.same-sequence-as-manual-paging-against-any-pager")
	for i := range want {
		vAssert(got[i] == want[i], "C17.iter.same-sequence-as-manual-paging-against-any-pager")
	}
	vAssert(len(asked) == npages, "C17.iter.every-page-fetched-exactly-once")
	for pg := 1; pg < npages; pg++ {
		vAssert(asked[pg] == string([]byte{'c', byte('0' + pg)}), "C17.iter.follows-the-cursor-each-page-names")
	}
	vReach("end")
}

// H5: all four feature kinds through the real server list functions AND the real client iterators
// (ClientSession.Tools/Resources/ResourceTemplates/Prompts). The transport between them is cut away: the session's
// List* methods are replaced by stubs that hand the request to the server's list function (overrides in the spec),
// so iterator + paginate + list function + paginateList + featureSet run as written. The iterator, started with nil
// params, must yield every registered id exactly once, in ascending order, whatever the page size.
var zzC17Srv *Server
var zzC17Pages int

func zzCSListTools(cs *ClientSession, ctx context.Context, p *ListToolsParams) (*ListToolsResult, error) {
	zzC17Pages++
	return zzC17Srv.listTools(ctx, &ListToolsRequest{Params: p})
}
func zzCSListResources(cs *ClientSession, ctx context.Context, p *ListResourcesParams) (*ListResourcesResult, error) {
	zzC17Pages++
	return zzC17Srv.listResources(ctx, &ListResourcesRequest{Params: p})
}
func zzCSListResourceTemplates(cs *ClientSession, ctx context.Context, p *ListResourceTemplatesParams) (*ListResourceTemplatesResult, error) {
	zzC17Pages++
	return zzC17Srv.listResourceTemplates(ctx, &ListResourceTemplatesRequest{Params: p})
}
func zzCSListPrompts(cs *ClientSession, ctx context.Context, p *ListPromptsParams) (*ListPromptsResult, error) {
	zzC17Pages++
	return zzC17Srv.listPrompts(ctx, &ListPromptsRequest{Params: p})
}

func zzC17Kinds() {
	s := NewServer(&Implementation{Name: "s", Version: "v"}, nil)
	s.opts.PageSize = vIntRange("pageSize", 1, vParam("maxPage"))
	zzC17Srv, zzC17Pages = s, 0
	n := vIntRange("n", 0, vParam("keys"))
	var keys []string
	for i := 0; i < n; i++ {
		k := zzKey("key")
		for _, o := range keys {
			vAssume(o != k)
		}
		keys = append(keys, k)
	}
	kind := vChoice("kind", 4)
	for _, k := range keys {
		switch kind {
		case 0:
			s.tools.add(&serverTool{tool: &Tool{Name: k}})
		case 1:
			s.resources.add(&serverResource{resource: &Resource{URI: k}})
		case 2:
			s.resourceTemplates.add(&serverResourceTemplate{resourceTemplate: &ResourceTemplate{URITemplate: k}})
		case 3:
			s.prompts.add(&serverPrompt{prompt: &Prompt{Name: k}})
		}
	}
	cs := &ClientSession{client: &Client{}}
	ctx := context.Background()
	// the iterator is started with nil params, with empty params, or from the cursor a manually fetched first page
	// returned (then it yields exactly what manual paging from that cursor yields: everything after that page)
	start := vChoice("iteratorStart", 3)
	cursor := ""
	skipped := 0
	if start == 2 {
		switch kind {
		case 0:
			r, err := s.listTools(ctx, &ListToolsRequest{Params: &ListToolsParams{}})
			vAssert(err == nil, "C17.kinds.no-error")
			cursor, skipped = r.NextCursor, len(r.Tools)
		case 1:
			r, err := s.listResources(ctx, &ListResourcesRequest{Params: &ListResourcesParams{}})
			vAssert(err == nil, "C17.kinds.no-error")
			cursor, skipped = r.NextCursor, len(r.Resources)
		case 2:
			r, err := s.listResourceTemplates(ctx, &ListResourceTemplatesRequest{Params: &ListResourceTemplatesParams{}})
			vAssert(err == nil, "C17.kinds.no-error")
			cursor, skipped = r.NextCursor, len(r.ResourceTemplates)
		case 3:
			r, err := s.listPrompts(ctx, &ListPromptsRequest{Params: &ListPromptsParams{}})
			vAssert(err == nil, "C17.kinds.no-error")
			cursor, skipped = r.NextCursor, len(r.Prompts)
		}
		if cursor == "" {
			vReach("end")
			return // a single page: nothing to resume
		}
		vReach("from-cursor")
	}
	var got []string
	switch kind {
	case 0:
		var p *ListToolsParams
		if start > 0 {
			p = &ListToolsParams{Cursor: cursor}
		}
		for t, err := range cs.Tools(ctx, p) {
			vAssert(err == nil, "C17.kinds.no-error")
			got = append(got, t.Name)
		}
	case 1:
		var p *ListResourcesParams
		if start > 0 {
			p = &ListResourcesParams{Cursor: cursor}
		}
		for r, err := range cs.Resources(ctx, p) {
			vAssert(err == nil, "C17.kinds.no-error")
			got = append(got, r.URI)
		}
	case 2:
		var p *ListResourceTemplatesParams
		if start > 0 {
			p = &ListResourceTemplatesParams{Cursor: cursor}
		}
		for r, err := range cs.ResourceTemplates(ctx, p) {
			vAssert(err == nil, "C17.kinds.no-error")
			got = append(got, r.URITemplate)
		}
	case 3:
		var p *ListPromptsParams
		if start > 0 {
			p = &ListPromptsParams{Cursor: cursor}
		}
		for p, err := range cs.Prompts(ctx, p) {
			vAssert(err == nil, "C17.kinds.no-error")
			got = append(got, p.Name)
		}
	}
	if start == 2 {
		// exactly the remainder, ascending, all registered
		vAssert(len(got) == n-skipped, "C17.kinds.iterator-from-a-cursor-yields-the-remainder")
		for i := range got {
			if i > 0 {
				vAssert(got[i-1] < got[i], "C17.kinds.one-stable-ascending-order")
			}
		}
		vReach("end")
		return
	}
	vAssert(len(got) == n, "C17.kinds.every-item-exactly-once")
	for i := range got {
		if i > 0 {
			vAssert(got[i-1] < got[i], "C17.kinds.one-stable-ascending-order")
		}
		found := false
		for _, k := range keys {
			if k == got[i] {
				found = true
			}
		}
		vAssert(found, "C17.kinds.only-registered-items")
	}
	// no page is fetched after the one that carried the empty cursor: ceil(n/pageSize) pages, one for an empty set
	want := (n + s.opts.PageSize - 1) / s.opts.PageSize
	if want == 0 {
		want = 1
	}
	vAssert(zzC17Pages == want, "C17.kinds.traversal-ends-with-the-empty-cursor")
	if n >= 2 {
		vReach("several")
	}
	vReach("end")
}

// H6: any short history of registrations, removals and listings (in any order, on a set that may be drained and
// refilled), then a fresh traversal from the first page: it returns exactly the items registered at that moment,
// each once, ascending. (H1–H3 start from sets built by registrations alone; states such as "listed, then emptied,
// then refilled" are only reached through histories.)
func zzC17History() {
	s := NewServer(&Implementation{Name: "s", Version: "v"}, nil)
	s.opts.PageSize = vIntRange("pageSize", 1, vParam("maxPage"))
	var reg []string // ghost: ids registered now
	steps := vParam("steps")
	for i := 0; i < steps; i++ {
		switch vChoice("op", 4) {
		case 0: // register (new id or replacing)
			k := zzKey("addkey")
			s.prompts.add(&serverPrompt{prompt: &Prompt{Name: k}})
			present := false
			for _, o := range reg {
				if o == k {
					present = true
				}
			}
			if !present {
				reg = append(reg, k)
			}
		case 1: // remove (present or not)
			k := zzKey("rmkey")
			s.prompts.remove(k)
			var rest []string
			for _, o := range reg {
				if o != k {
					rest = append(rest, o)
				}
			}
			reg = rest
		case 2: // somebody lists a page
			zzListPage(s, "")
		case 3: // nothing
		}
	}
	var got []string
	cursor := ""
	for i := 0; i <= steps; i++ {
		res, err := zzListPage(s, cursor)
		vAssert(err == nil, "C17.hist.list-ok")
		for _, p := range res.Prompts {
			got = append(got, p.Name)
		}
		cursor = res.NextCursor
		if cursor == "" {
			break
		}
	}
	vAssert(cursor == "", "C17.hist.traversal-ends")
	vAssert(len(got) == len(reg), "C17.hist.every-registered-item-exactly-once")
	for i, g := range got {
		if i > 0 {
			vAssert(got[i-1] < g, "C17.hist.ascending")
		}
		found := false
		for _, k := range reg {
			if k == g {
				found = true
			}
		}
		vAssert(found, "C17.hist.only-registered-items")
	}
	if len(reg) > 0 {
		vReach("nonempty")
	}
	vReach("end")
}
