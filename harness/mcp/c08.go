package mcp

import (
	"errors"
	"context"
	"encoding/json"
	"io"
	"net/http"

	"github.com/modelcontextprotocol/go-sdk/auth"
	"github.com/modelcontextprotocol/go-sdk/internal/jsonrpc2"
	"github.com/modelcontextprotocol/go-sdk/jsonrpc"
)

// Streamable HTTP server side (C08 resumption, C10 routing, C12 version mirror, C02 pre-validation).
// The real streamableServerConn (servePOST, serveGET, acquireStream, Write, deliverLocked, stream.*) runs
// against recording ResponseWriters and the real MemoryEventStore; an HTTP exchange "hangs" by running a
// scripted list of server-side writes and then ends (disconnect or completion).

type zzEvt struct {
	name, id string
	data    []byte
}

type zzExch struct { // one HTTP exchange
	hdr      http.Header
	code     int
	events   []zzEvt
	raw      [][]byte
	tag      string
	onStatus func(code int) // observes the moment the status line is committed
	breakAt  int            // >0: the connection breaks when event number breakAt (1-based) is written: it and later ones are not received
}

func (w *zzExch) Header() http.Header { return w.hdr }
func (w *zzExch) Write(b []byte) (int, error) {
	if w.code == 0 {
		w.code = 200
		if w.onStatus != nil {
			w.onStatus(200)
		}
	}
	w.raw = append(w.raw, b)
	return len(b), nil
}
func (w *zzExch) WriteHeader(c int) {
	if w.code == 0 {
		w.code = c
		if w.onStatus != nil {
			w.onStatus(c)
		}
	}
}

func zzNewExch(tag string) *zzExch { return &zzExch{hdr: http.Header{}, tag: tag} }

// writeEvent stand-in: records the event on the exchange (framing itself is C19).
func zzWriteEvent(w http.ResponseWriter, evt Event) (int, error) {
	x := w.(*zzExch)
	if x.code == 0 {
		x.code = 200
	}
	if x.breakAt > 0 && len(x.events)+1 >= x.breakAt {
		return 0, errors.New("write tcp: broken pipe")
	}
	x.events = append(x.events, zzEvt{name: evt.Name, id: evt.ID, data: evt.Data})
	return 1, nil
}

type zzSrvEnv struct {
	incomingBody []jsonrpc.Message // what the next POST body decodes to
	isBatch      bool
	streamNames  []string
	nextStream   int
	hangScript   func(c *streamableServerConn, ctx context.Context) // what happens while an exchange hangs
	openHook     func()
	hangs        int
	inWrite      bool // a streamableServerConn.Write issued by the harness is in progress
	bodyDefect   int  // 0 none, 1 unreadable, 2 over the size limit, 3 empty, 4 not JSON-RPC
}

var zzSrv8 *zzSrvEnv

// Reading the request body may fail (a dropped connection, a body over the configured limit), the body may be empty or
// not be JSON-RPC at all.
func zzReadAll(r io.Reader) ([]byte, error) {
	switch zzSrv8.bodyDefect {
	case 1:
		return nil, errors.New("unexpected EOF")
	case 2:
		return nil, &http.MaxBytesError{Limit: 1 << 20}
	case 3:
		return []byte{}, nil
	}
	return []byte("body"), nil
}
func zzReadBatch(data []byte) ([]jsonrpc.Message, bool, error) {
	if zzSrv8.bodyDefect == 4 {
		return nil, false, errors.New("invalid character")
	}
	return zzSrv8.incomingBody, zzSrv8.isBatch, nil
}
func zzEncodeMessage(msg jsonrpc.Message) ([]byte, error)      { return vJSON(msg), nil }
func zzCrandText() string {
	s := zzSrv8.streamNames[zzSrv8.nextStream]
	zzSrv8.nextStream++
	return s
}
func zzNoToken(ctx context.Context) *auth.TokenInfo { return nil }
func zzNoMeta(raw []byte) Meta                      { return nil }
func zzHangResponse(c *streamableServerConn, ctx context.Context, done <-chan struct{}) {
	zzSrv8.hangs++
	if zzSrv8.hangScript != nil {
		zzSrv8.hangScript(c, ctx)
	}
}

type zzBodyStub struct{}

func (zzBodyStub) Read(p []byte) (int, error) { return 0, io.EOF }
func (zzBodyStub) Close() error               { return nil }

func zzPOST(c *streamableServerConn, w *zzExch, version string, msgs ...jsonrpc.Message) {
	zzSrv8.incomingBody = msgs
	ctx := context.Background()
	if version != "" {
		ctx = context.WithValue(ctx, protocolVersionContextKey{}, version)
	}
	req := (&http.Request{Method: http.MethodPost, Header: http.Header{}, Body: zzBodyStub{}}).WithContext(ctx)
	if version != "" {
		req.Header.Set(protocolVersionHeader, version)
	}
	c.servePOST(w, req)
}

func zzPOSTWith(c *streamableServerConn, w *zzExch, version string, tweak func(*http.Request), msgs ...jsonrpc.Message) {
	zzSrv8.incomingBody = msgs
	ctx := context.Background()
	if version != "" {
		ctx = context.WithValue(ctx, protocolVersionContextKey{}, version)
	}
	req := (&http.Request{Method: http.MethodPost, Header: http.Header{}, Body: zzBodyStub{}}).WithContext(ctx)
	if version != "" {
		req.Header.Set(protocolVersionHeader, version)
	}
	if tweak != nil {
		tweak(req)
	}
	c.servePOST(w, req)
}

func zzGET(c *streamableServerConn, w *zzExch, version, lastEventID string) {
	ctx := context.Background()
	if version != "" {
		ctx = context.WithValue(ctx, protocolVersionContextKey{}, version)
	}
	req := (&http.Request{Method: http.MethodGet, Header: http.Header{}}).WithContext(ctx)
	if lastEventID != "" {
		req.Header.Set(lastEventIDHeader, lastEventID)
	}
	c.serveGET(w, req)
}

func zzConnect(store EventStore, stateless, jsonResponse bool) *streamableServerConn {
	t := &StreamableServerTransport{SessionID: "S", EventStore: store, Stateless: stateless, jsonResponse: jsonResponse}
	if stateless {
		t.SessionID = ""
	}
	conn, err := t.Connect(context.Background())
	vAssert(err == nil, "connect")
	return conn.(*streamableServerConn)
}

// ---------------------------------------------------------------- C08: resumption

// The logical stream of one request: the server writes n1 messages while the POST is attached, the exchange
// drops, n2 more while nobody is attached, the client resumes from ANY previously seen event id, n3 more while
// the resumed GET is attached (the last write of all is the response), then optionally resumes once more.
// zzAtomicStore is the real MemoryEventStore plus one obligation: a message is stored while the mutex of the stream it
// belongs to is held, i.e. storing it and giving it its place (event index) in the stream are one atomic step — the
// premise under which the sequential exploration below speaks for concurrent writers and for a resume that lands
// during a write.
type zzAtomicStore struct {
	EventStore
	c *streamableServerConn
}

func (s *zzAtomicStore) Append(ctx context.Context, sess, streamID string, data []byte) error {
	if s.c != nil {
		// (the priming event is stored by servePOST before the stream's id has been told to anybody: no lock needed)
		if st := s.c.streams[streamID]; st != nil && zzSrv8.inWrite {
			vAssert(vHeld(&st.mu), "C08.store-and-index-assignment-atomic-per-stream")
		}
	}
	return s.EventStore.Append(ctx, sess, streamID, data)
}

func zzC08Resume() {
	env := &zzSrvEnv{streamNames: []string{"st1", "st2"}}
	zzSrv8 = env
	store := &zzAtomicStore{EventStore: NewMemoryEventStore(nil)}
	c := zzConnect(store, false, false)
	store.c = c
	version := protocolVersion20250618
	priming := vBool("priming")
	if priming {
		version = protocolVersion20251125
	}
	call := zzCall(1, "tools/call")
	postVersion := version
	if priming && vBool("theCallIsInitializeSentWithoutAVersionHeader") {
		// initialize travels without an Mcp-Protocol-Version header (the version is what it negotiates): the stream's
		// version — priming event or not, event-store slot or not — comes from the body
		call = &jsonrpc.Request{ID: jsonrpc2.Int64ID(1), Method: methodInitialize, Params: vJSON(&InitializeParams{ProtocolVersion: protocolVersion20251125})}
		postVersion = ""
	}
	total := vParam("writes") // messages written to the stream, the last one being the response
	n1 := vChoice("attachedWrites", total)
	n2 := vChoice("detachedWrites", total-n1)
	var written []jsonrpc.Message // ground truth, in order
	wctx := context.WithValue(context.Background(), idContextKey{}, call.ID)
	if version != "" {
		wctx = context.WithValue(wctx, protocolVersionContextKey{}, version)
	}
	write := func() {
		var m jsonrpc.Message
		if len(written) == total-1 {
			m = &jsonrpc.Response{ID: call.ID, Result: vJSON("result")}
		} else {
			m = &jsonrpc.Request{Method: "notifications/progress", Params: vJSON(len(written))}
		}
		env.inWrite = true
		err := c.Write(wctx, m)
		env.inWrite = false
		vAssert(err == nil, "C08.write-accepted")
		written = append(written, m)
	}
	env.hangScript = func(*streamableServerConn, context.Context) {
		for i := 0; i < n1; i++ {
			write()
		}
	}
	post := zzNewExch("post")
	zzPOST(c, post, postVersion, call)
	vAssert(env.hangs == 1, "C08.post-hangs")
	for i := 0; i < n2; i++ {
		write() // nobody attached: must still be stored
	}
	// base index of message k in the event numbering (a priming event occupies index 0)
	base := 0
	if priming {
		base = 1
		vAssert(len(post.events) >= 1 && post.events[0].name == "prime" && post.events[0].id == formatEventID("st1", 0), "C08.priming-event")
	}
	check := func(x *zzExch, from int, label string) int {
		// x received exactly written[from:from+k] with ids base+from, base+from+1, ... (priming events excluded)
		k := 0
		for _, e := range x.events {
			if e.name == "prime" {
				continue
			}
			idx := from + k
			vAssert(idx < len(written), label+".no-phantom")
			vAssert(e.id == formatEventID("st1", base+idx), label+".ids-consecutive-and-stable")
			vAssert(zzSameMsg(e.data, written[idx]), label+".payload-is-that-message")
			k++
		}
		return k
	}
	got1 := check(post, 0, "C08.post")
	vAssert(got1 == n1, "C08.post.receives-attached-writes")
	// resume from any id the client has seen: the priming id, or any of the got1 message ids
	seen := got1
	resumeAfter := vChoice("resumeAfter", seen+1) - 1 // index into written; -1 = only the priming event (or nothing)
	lastID := ""
	if resumeAfter >= 0 {
		lastID = formatEventID("st1", base+resumeAfter)
	} else if priming {
		lastID = formatEventID("st1", 0)
	} else {
		vReach("no-cursor")
		return // nothing to resume with: the client has seen no event id
	}
	if avail := n1 + n2 - (resumeAfter + 1); avail > 0 && vBool("aResumeBreaksMidReplay") {
		// a resumed GET whose connection breaks part-way through the replay: the client has received the events before
		// the break, and resumes from the last of them (or from where it was, if none got through)
		f := vChoice("replayedBeforeTheBreak", avail)
		broken := zzNewExch("broken")
		broken.breakAt = f + 1
		if priming && resumeAfter < 0 {
			// (the replay after the priming id starts with the first message; nothing else precedes it)
		}
		env.hangScript = nil
		zzGET(c, broken, version, lastID)
		vAssert(check(broken, resumeAfter+1, "C08.broken-resume") == f, "C08.broken-resume.received-the-events-before-the-break")
		if f > 0 {
			resumeAfter += f
			lastID = formatEventID("st1", base+resumeAfter)
		}
		vReach("broken-replay")
	}
	n3 := total - n1 - n2
	env.hangScript = func(*streamableServerConn, context.Context) {
		for i := 0; i < n3; i++ {
			write()
		}
	}
	get := zzNewExch("get")
	zzGET(c, get, version, lastID)
	vAssert(get.code == 200, "C08.resume-accepted")
	got2 := check(get, resumeAfter+1, "C08.resume")
	vAssert(got2 == total-(resumeAfter+1), "C08.resume.everything-after-the-cursor-exactly-once")
	vReach("resumed")
	// the final response stays obtainable after every exchange is gone: resume again from any earlier point
	again := resumeAfter + vChoice("resumeAgainAfter", total-1-resumeAfter)
	get2 := zzNewExch("get2")
	env.hangScript = nil
	zzGET(c, get2, version, formatEventID("st1", base+again))
	got3 := check(get2, again+1, "C08.replay")
	vAssert(got3 == total-(again+1), "C08.replay.everything-after-the-cursor-exactly-once")
	vReach("end")
}

func zzSameMsg(data []byte, m jsonrpc.Message) bool {
	got, _ := vJSONOf(data).(jsonrpc.Message)
	return got == m
}

// ---------------------------------------------------------------- C10: routing of one Write

func zzC10Route() {
	env := &zzSrvEnv{streamNames: []string{"st1", "st2"}}
	zzSrv8 = env
	jsonMode := vBool("jsonResponse")
	stateless := vBool("stateless")
	// with or without an event store — one whose Append fails (a transient fault of a custom or remote store): storing
	// for replay is best effort, the message still goes out on the live exchange, and whatever Write reports is about
	// this message only (it wraps ErrRejected): a plain error would make jsonrpc2 tear the connection down behind the
	// HTTP handler's back, leaving a dead session id that is still honoured (C11)
	var store EventStore
	if vBool("eventStoreWhoseAppendFails") {
		store = zzFailingStore{}
	}
	c := zzConnect(store, stateless, jsonMode)
	// a stateful endpoint whose server suppresses session ids (GetSessionID returns ""): each POST is served by a
	// session nobody can address afterwards — like a stateless one it can never receive the answer to a call it sends
	unaddressable := !stateless && vBool("sessionIDsSuppressed")
	if unaddressable {
		c.sessionID = ""
	}
	// two in-flight requests, each on its own exchange, plus the standalone stream (attached or not)
	wA, wB, wS := zzNewExch("A"), zzNewExch("B"), zzNewExch("standalone")
	idA, idB := jsonrpc2.Int64ID(1), jsonrpc2.StringID("1") // same text, different JSON types
	mk := func(id jsonrpc.ID, name string, w *zzExch) *stream {
		s := &stream{id: name, requests: map[jsonrpc.ID]struct{}{id: {}}, lastIdx: -1, w: w, done: make(chan struct{})}
		if jsonMode {
			zzEmptyNonNil(&s.pendingJSONMessages) // (whatever the element type: a JSON-mode stream has a non-nil buffer)
		}
		c.streams[name] = s
		c.requestStreams[id] = name
		return s
	}
	sA := mk(idA, "stA", wA)
	aGone := vBool("exchangeOfAHasDropped") // the client dropped A's POST while its handler is still running
	if aGone {
		sA.w = nil
		sA.done = nil
	}
	bAnswered := vBool("bAlreadyAnswered")
	var sB *stream
	if !bAnswered {
		sB = mk(idB, "stB", wB)
	}
	if vBool("standaloneAttached") {
		c.streams[""].w = wS
		c.streams[""].done = make(chan struct{})
	}
	// the client may have given up on one of the calls: its cancellation notice arrives as a POST of its own. That is
	// between the client and the handler — the routing of whatever the handler still sends (the SDK always answers a
	// cancelled call) is unchanged: same stream, same exchange, nothing diverted, nothing released early
	if !stateless && vBool("aCancellationNoticeArrivesFirst") {
		which := idA
		if vBool("theNoticeNamesB") {
			which = idB
		}
		stA, okA := c.requestStreams[idA]
		stB, okB := c.requestStreams[idB]
		nStreams := len(c.streams)
		wN := zzNewExch("notice")
		zzPOST(c, wN, protocolVersion20250618, &jsonrpc.Request{Method: notificationCancelled, Params: vJSON(&CancelledParams{RequestID: which.Raw()})})
		vAssert(wN.code == http.StatusAccepted, "C12.notification-post-accepted")
		gA, gokA := c.requestStreams[idA]
		gB, gokB := c.requestStreams[idB]
		vAssert(gA == stA && gokA == okA && gB == stB && gokB == okB && len(c.streams) == nStreams, "C10.cancellation-notice-leaves-routing-alone")
		vAssert(len(sA.requests) == 1 && (sB == nil || len(sB.requests) == 1), "C10.cancellation-notice-leaves-routing-alone")
		vAssert(aGone || !vIsClosed(sA.done), "C10.cancellation-notice-does-not-release-the-exchange")
		vReach("notice-first")
	}
	// the message
	kind := vChoice("kind", 3) // 0 response, 1 notification, 2 server->client request
	rel := vChoice("related", 3) // 0: A, 1: B, 2: none
	var relID jsonrpc.ID
	switch rel {
	case 0:
		relID = idA
	case 1:
		relID = idB
	}
	ctx := context.Background()
	if rel != 2 {
		ctx = context.WithValue(ctx, idContextKey{}, relID)
	}
	var msg jsonrpc.Message
	switch kind {
	case 0:
		if rel == 2 {
			return // a response always relates to its request
		}
		msg = &jsonrpc.Response{ID: relID, Result: vJSON("r")}
	case 1:
		msg = &jsonrpc.Request{Method: "notifications/message", Params: vJSON("n")}
	default:
		msg = &jsonrpc.Request{ID: jsonrpc2.Int64ID(77), Method: "sampling/createMessage", Params: vJSON("q")}
	}
	err := c.Write(ctx, msg)
	vAssert(err == nil || errors.Is(err, jsonrpc2.ErrRejected), "C11.write-failures-are-about-the-message-never-the-connection")
	nA, nB, nS := len(wA.events)+len(wA.raw), len(wB.events)+len(wB.raw), len(wS.events)+len(wS.raw)
	_ = sA
	_ = sB
	vAssert(nA+nB+nS <= 1, "C10.delivered-to-at-most-one-exchange")
	if aGone && rel == 0 && (kind == 0 || !jsonMode) {
		// what belongs to A's exchange is not diverted to another exchange once A's exchange is gone (without an
		// event store it is lost with the exchange; with one it would wait for a resume)
		vAssert(nA == 0 && nB == 0 && nS == 0, "C10.message-of-a-dropped-exchange-not-diverted")
		vReach("dropped-A")
		vReach("end")
		return
	}
	switch {
	case kind == 2 && (stateless || unaddressable):
		// the answer could never come back (it would arrive in a session that does not know the call): refused at once,
		// so the call completes with an error instead of hanging (C01)
		vAssert(err != nil && errors.Is(err, jsonrpc2.ErrRejected) && nA+nB+nS == 0, "C01.unanswerable-server-request-refused-at-once")
		vReach("unanswerable")
	case kind == 0:
		// a response goes to the exchange of the request it answers, and nowhere else
		if rel == 0 {
			vAssert(nA == 1 && err == nil, "C10.response-on-its-own-exchange")
			_, still := c.requestStreams[idA]
			vAssert(!still, "C10.answered-request-unrouted")
			_, stillB := c.requestStreams[idB]
			vAssert(stillB == !bAnswered, "C10.other-request-untouched")
			vReach("response-A")
		} else if !bAnswered {
			vAssert(nB == 1 && err == nil, "C10.response-on-its-own-exchange")
		} else {
			vAssert(nA+nB+nS == 0 && err != nil, "C10.late-response-not-delivered-elsewhere")
		}
	default:
		// notification / server request
		switch {
		case jsonMode || rel == 2:
			// out of band: the standalone stream (if attached), never a request's exchange (nor its pending JSON body)
			vAssert(nA == 0 && nB == 0, "C10.out-of-band-never-on-a-request-exchange")
			vAssert(len(sA.pendingJSONMessages) == 0 && (sB == nil || len(sB.pendingJSONMessages) == 0), "C10.out-of-band-never-on-a-request-exchange")
			vReach("out-of-band")
		case rel == 0:
			vAssert(nB == 0 && nS == 0 && nA == 1 && err == nil, "C10.related-message-on-that-requests-stream")
			vReach("related-A")
		case rel == 1 && !bAnswered:
			vAssert(nA == 0 && nS == 0 && nB == 1 && err == nil, "C10.related-message-on-that-requests-stream")
		default:
			// related to an answered request: rejected, not diverted
			vAssert(nA+nB+nS == 0 && err != nil, "C10.message-for-finished-request-rejected")
			vReach("finished-related")
		}
	}
	vReach("end")
}


// ---------------------------------------------------------------- C10/C02: registration of a POST's calls

type zzFailingStore struct{ EventStore }

func (zzFailingStore) Open(context.Context, string, string) error { return nil }
func (zzFailingStore) Append(context.Context, string, string, []byte) error {
	return errors.New("event store: write failed")
}
func (zzFailingStore) SessionClosed(context.Context, string) error { return nil }

type zzOpenStore struct {
	EventStore
}

func (s zzOpenStore) Open(ctx context.Context, sess, stream string) error {
	if zzSrv8.openHook != nil {
		zzSrv8.openHook()
	}
	return nil
}
func (s zzOpenStore) Append(context.Context, string, string, []byte) error { return nil }

func zzC10Register() {
	env := &zzSrvEnv{streamNames: []string{"st1", "st2"}}
	zzSrv8 = env
	c := zzConnect(zzOpenStore{}, false, false)
	// request id 1 may already be in flight on another exchange
	inFlight := vBool("idInFlight")
	wOld := zzNewExch("old")
	if inFlight {
		c.streams["old"] = &stream{id: "old", requests: map[jsonrpc.ID]struct{}{jsonrpc2.Int64ID(1): {}}, lastIdx: -1, w: wOld, done: make(chan struct{})}
		c.requestStreams[jsonrpc2.Int64ID(1)] = "old"
	}
	// ... or be registered by a concurrent POST while this one opens its stream in the event store
	racing := !inFlight && vBool("concurrentPOSTRegistersFirst")
	env.openHook = func() {
		if racing {
			c.mu.Lock()
			c.streams["other"] = &stream{id: "other", requests: map[jsonrpc.ID]struct{}{jsonrpc2.Int64ID(1): {}}, lastIdx: -1, w: wOld, done: make(chan struct{})}
			c.requestStreams[jsonrpc2.Int64ID(1)] = "other"
			c.mu.Unlock()
		}
	}
	published := 0
	env.hangScript = func(c *streamableServerConn, ctx context.Context) {
		// by the time the exchange hangs, the calls are registered and then published, in order
		published = vChanLen(c.incoming)
		vAssert(c.requestStreams[jsonrpc2.Int64ID(1)] == "st1" && c.requestStreams[jsonrpc2.Int64ID(2)] == "st1", "C10.registered-before-publication")
	}
	w := zzNewExch("new")
	env.isBatch = true
	zzPOST(c, w, protocolVersion20250326, zzCall(2, "tools/list"), zzCall(1, "tools/call"))
	if inFlight || racing {
		owner := "old"
		if racing {
			owner = "other"
		}
		vAssert(w.code == http.StatusBadRequest, "C02.duplicate-in-flight-id-400")
		vAssert(c.requestStreams[jsonrpc2.Int64ID(1)] == owner, "C10.duplicate-does-not-rebind-the-original")
		_, partial := c.requestStreams[jsonrpc2.Int64ID(2)]
		vAssert(!partial && vChanLen(c.incoming) == 0 && env.hangs == 0, "C10.registration-all-or-nothing")
		vReach("duplicate")
	} else {
		vAssert(env.hangs == 1 && published == 2, "C10.published-after-registration")
		vReach("registered")
	}
	vReach("end")
}

// ---------------------------------------------------------------- C12: version header vs _meta mirror in servePOST

var zzMetaVersion string
var zzMetaPresent bool

func zzMetaWithVersion(raw []byte) Meta {
	if !zzMetaPresent {
		return nil
	}
	return Meta{MetaKeyProtocolVersion: zzMetaVersion}
}

func zzC12Version() {
	env := &zzSrvEnv{streamNames: []string{"st1", "st2"}}
	zzSrv8 = env
	stateless := vBool("stateless")
	c := zzConnect(nil, stateless, false)
	versions := []string{"", protocolVersion20250618, protocolVersion20251125, protocolVersion20260728, protocolVersion20250326, protocolVersion20241105}
	hv := versions[vChoice("headerVersion", 6)]
	// the request may also arrive wrapped in a JSON-RPC batch (accepted only below 2025-06-18 — a version the *header*
	// decides, absent = 2025-03-26 — while the era of a request is decided by its own _meta): alone or with a ping
	batch := vChoice("batch", 3)
	zzMetaPresent = vBool("metaHasVersion")
	zzMetaVersion = versions[1+vChoice("metaVersion", 3)]
	isDiscover := vBool("isDiscover")
	method := "tools/list"
	if isDiscover {
		method = methodDiscover
	}
	// ... or the initialize call of the legacy handshake: its answer is where the client learns the session id (C11)
	isInit := !isDiscover && !zzMetaPresent && vBool("isInitialize")
	if isInit {
		method = methodInitialize
	}
	w := zzNewExch("post")
	hdr := zzCall(1, method)
	if isInit {
		hdr.Params = vJSON(&InitializeParams{ProtocolVersion: versions[1+vChoice("initializeVersion", 2)]})
	}
	// the Mcp-Method mirror is C12-H2; make it pass here
	ctx := context.Background()
	if hv != "" {
		ctx = context.WithValue(ctx, protocolVersionContextKey{}, hv)
	}
	req := (&http.Request{Method: http.MethodPost, Header: http.Header{}, Body: zzBodyStub{}}).WithContext(ctx)
	if hv != "" {
		req.Header.Set(protocolVersionHeader, hv)
	}
	// the Mcp-Method mirror (C12-H2 decides the function; here that servePOST consults it before anything is handed on):
	// right, wrong or missing
	mirror := vChoice("methodHeader", 3)
	switch mirror {
	case 0:
		req.Header.Set(methodHeader, method)
	case 1:
		req.Header.Set(methodHeader, "resources/list")
	}
	env.incomingBody = []jsonrpc.Message{hdr}
	if batch > 0 {
		env.isBatch = true
		if batch == 2 {
			env.incomingBody = []jsonrpc.Message{hdr, zzCall(2, "ping")}
		}
	}
	c.servePOST(w, req)
	accepted := env.hangs == 1
	// the session id travels on the answer to initialize and on no other
	vAssert((w.hdr.Get(sessionIDHeader) != "") == (accepted && isInit && !stateless), "C11.session-id-handed-out-with-the-initialize-answer-only")
	if w.hdr.Get(sessionIDHeader) != "" {
		vAssert(w.hdr.Get(sessionIDHeader) == c.sessionID, "C11.session-id-handed-out-with-the-initialize-answer-only")
		vReach("id-issued")
	}
	if mirror != 0 && batch == 0 && hv >= minVersionForStandardHeaders && accepted {
		vAssert(false, "C12.post.mirror-headers-checked-before-anything-is-handed-on")
	}
	if mirror != 0 && batch == 0 && hv >= minVersionForStandardHeaders {
		vAssert(w.code == http.StatusBadRequest, "C12.version-mismatch-400")
		vReach("mirror-refused")
		vReach("end")
		return
	}
	if batch > 0 && hv >= protocolVersion20250618 {
		vAssert(!accepted && w.code == http.StatusBadRequest, "C02.batches-refused-from-2025-06-18-on")
		vReach("end")
		return
	}
	metaV := ""
	if zzMetaPresent {
		metaV = zzMetaVersion
	}
	newProto := hv >= protocolVersion20260728 || metaV != ""
	if accepted {
		// handed to the server => either no 2026-07-28 involvement at all, or header and body agree (and the
		// endpoint is stateless, discover excepted)
		vAssert(!newProto || (hv == metaV && (stateless || isDiscover)), "C12.version-header-equals-body-before-dispatch")
		vReach("accepted")
	} else {
		vAssert(w.code == http.StatusBadRequest, "C12.version-mismatch-400")
		vAssert(newProto, "C12.legacy-request-not-rejected-by-version-mirror")
		vReach("rejected")
	}
	vReach("end")
}

// H3: the exchange of an in-flight request drops; a retry that reuses the id is refused while the original is
// still being handled, and the original's late response is never delivered to the retry's exchange.
func zzC10Retry() {
	env := &zzSrvEnv{streamNames: []string{"st1", "st2"}}
	zzSrv8 = env
	var store EventStore
	if vBool("withEventStore") {
		store = NewMemoryEventStore(nil)
	}
	c := zzConnect(store, false, vBool("jsonResponse"))
	wA, wB := zzNewExch("A"), zzNewExch("B")
	zzPOST(c, wA, protocolVersion20250618, zzCall(1, "tools/call")) // hangs, then the HTTP exchange drops
	vAssert(env.hangs == 1, "C10.retry.first-post-hangs")
	lateWritten := false
	env.hangScript = func(c *streamableServerConn, ctx context.Context) {
		// the original handler finishes while the retry's exchange is attached
		wctx := context.WithValue(context.Background(), idContextKey{}, jsonrpc2.Int64ID(1))
		c.Write(wctx, &jsonrpc.Response{ID: jsonrpc2.Int64ID(1), Result: vJSON("result-for-A")})
		lateWritten = true
	}
	zzPOST(c, wB, protocolVersion20250618, zzCall(1, "tools/call"))
	vAssert(wB.code == http.StatusBadRequest && env.hangs == 1, "C02.duplicate-in-flight-id-400")
	if !lateWritten {
		wctx := context.WithValue(context.Background(), idContextKey{}, jsonrpc2.Int64ID(1))
		c.Write(wctx, &jsonrpc.Response{ID: jsonrpc2.Int64ID(1), Result: vJSON("result-for-A")})
	}
	vAssert(len(wB.events) == 0 && len(wB.raw) <= 1, "C10.response-never-on-another-requests-exchange")
	vReach("end")
}

// ---------------------------------------------------------------- C02-H4 / C03-H4: what servePOST does before the session sees anything

// A POST without calls (notifications and responses only): 202 Accepted is committed only after every message has
// been handed to the session, in order; a closing session answers 404 and never 202.
func zzC03Accepted() {
	env := &zzSrvEnv{streamNames: []string{"st1"}}
	zzSrv8 = env
	c := zzConnect(nil, false, false)
	n := 1 + vChoice("extraMessage", 2)
	mk := func(tag string) jsonrpc.Message {
		if vBool(tag + "IsResponse") {
			return &jsonrpc.Response{ID: jsonrpc2.Int64ID(77), Result: vJSON("r")} // the client's answer to a server request
		}
		return &jsonrpc.Request{Method: notificationInitialized, Params: vJSON(&InitializedParams{})}
	}
	msgs := []jsonrpc.Message{mk("m0")}
	version := protocolVersion20251125
	if n == 2 {
		msgs = append(msgs, mk("m1"))
		env.isBatch = true
		version = protocolVersion20250326 // batches exist only there
	}
	closing := vBool("sessionClosing")
	if closing {
		close(c.done)
		for i := 0; i < cap(c.incoming); i++ { // and nobody drains the queue any more
			c.incoming <- &jsonrpc.Request{Method: "notifications/filler"}
		}
	}
	w := zzNewExch("post")
	seenAtStatus := -1
	w.onStatus = func(code int) { seenAtStatus = vChanLen(c.incoming) }
	// the client may be gone by the time its POST is processed (it sent its answer and hung up without waiting for the
	// empty 202): the request's context is done, which is no reason to throw away a message that was received whole
	departed := vBool("clientGoneBeforeThePostIsProcessed")
	zzPOSTWith(c, w, version, func(req *http.Request) {
		if departed {
			ctx, cancel := context.WithCancel(req.Context())
			cancel()
			*req = *req.WithContext(ctx)
		}
	}, msgs...)
	if closing {
		vAssert(w.code == http.StatusNotFound, "C03.closing-session-not-accepted")
		vReach("closing")
	} else {
		vAssert(w.code == http.StatusAccepted, "C03.no-call-post-accepted")
		vAssert(seenAtStatus == n, "C03.accepted-only-after-every-message-was-handed-over")
		for i := 0; i < n; i++ {
			got := <-c.incoming
			vAssert(got == msgs[i], "C03.handed-over-in-order")
		}
		vReach("accepted")
	}
	vAssert(env.hangs == 0 && len(c.streams) == 1, "C03.no-stream-for-a-post-without-calls")
	vReach("end")
}

// Invalid requests are refused at the HTTP level and never reach the session.
func zzC02Prevalidation() {
	env := &zzSrvEnv{streamNames: []string{"st1"}}
	zzSrv8 = env
	c := zzConnect(nil, false, false)
	modern := vBool("version20260728")
	version := protocolVersion20251125
	if modern {
		version = protocolVersion20260728
		c = zzConnect(nil, true, false) // the new protocol is served by stateless endpoints
	}
	var bad *jsonrpc.Request
	kind := vChoice("defect", 10)
	good0 := zzCall(8, "ping")
	switch kind {
	case 4, 5, 6, 7: // the body cannot be read, is over the size limit, is empty, is not JSON-RPC
		env.bodyDefect = kind - 3
		bad = good0
	case 8: // a POST may not carry Last-Event-ID
		bad = good0
	case 9: // batching is gone from 2025-06-18 on
		bad = good0
	case 0: // unknown method, as a call
		bad = &jsonrpc.Request{ID: jsonrpc2.Int64ID(5), Method: "no/such-method", Params: vJSON(&PingParams{})}
	case 1: // unknown method, as a notification
		bad = &jsonrpc.Request{Method: "notifications/no-such", Params: vJSON(&PingParams{})}
	case 2: // a call method without an id
		bad = &jsonrpc.Request{Method: "tools/list", Params: vJSON(&ListToolsParams{})}
	case 3: // a notification method with an id
		bad = &jsonrpc.Request{ID: jsonrpc2.Int64ID(6), Method: notificationInitialized, Params: vJSON(&InitializedParams{})}
	}
	first := vBool("badMessageFirst")
	good := zzCall(9, "ping")
	msgs := []jsonrpc.Message{bad}
	if vBool("inBatch") && !modern {
		version = protocolVersion20250326
		env.isBatch = true
		if first {
			msgs = []jsonrpc.Message{bad, good}
		} else {
			msgs = []jsonrpc.Message{good, bad}
		}
	}
	w := zzNewExch("post")
	switch kind {
	case 8:
		zzPOSTWith(c, w, version, func(r *http.Request) { r.Header.Set(lastEventIDHeader, "st1_0") }, msgs...)
	case 9:
		if !env.isBatch {
			env.isBatch = true
			msgs = []jsonrpc.Message{good0, zzCall(9, "ping")}
		}
		if version < protocolVersion20250618 {
			version = protocolVersion20250618
		}
		zzPOSTWith(c, w, version, nil, msgs...)
	default:
		zzPOST(c, w, version, msgs...)
	}
	vAssert(w.code >= 400 && w.code < 500, "C02.invalid-request-refused-with-4xx")
	if kind == 5 {
		vAssert(w.code == http.StatusRequestEntityTooLarge, "C12.body-over-the-limit-413")
	}
	if modern && kind == 0 {
		vAssert(w.code == http.StatusNotFound, "C02.unknown-method-404-under-2026-07-28")
	}
	vAssert(vChanLen(c.incoming) == 0, "C02.invalid-request-never-reaches-the-session")
	vAssert(env.hangs == 0 && len(c.requestStreams) == 0, "C02.invalid-request-registers-nothing")
	vReach("end")
}

// ---------------------------------------------------------------- C08: the server closes a request's SSE stream (polling mode)
//
// CloseSSEStream ends the current exchange so that the client reconnects. The client may reconnect at once — before the
// handler of the old exchange has returned and released the stream — or later. Either way: once a resume is accepted,
// everything written afterwards reaches that exchange, in order, with consecutive ids, up to the final response; a
// resume that comes too early may be refused (409) and succeeds when retried after the release.
func zzC08ServerClose() {
	env := &zzSrvEnv{streamNames: []string{"st1"}}
	zzSrv8 = env
	store := &zzAtomicStore{EventStore: NewMemoryEventStore(nil)}
	c := zzConnect(store, false, false)
	store.c = c
	version := protocolVersion20250618
	if vBool("priming") {
		version = protocolVersion20251125
	}
	call := zzCall(1, "tools/call")
	post := zzNewExch("post")
	st := &stream{id: "st1", requests: map[jsonrpc.ID]struct{}{call.ID: {}}, lastIdx: -1, w: post, done: make(chan struct{}), protocolVersion: version}
	c.streams["st1"] = st
	c.requestStreams[call.ID] = "st1"
	wctx := context.WithValue(context.WithValue(context.Background(), idContextKey{}, call.ID), protocolVersionContextKey{}, version)
	var written []jsonrpc.Message
	write := func(final bool) {
		var m jsonrpc.Message = &jsonrpc.Request{Method: "notifications/progress", Params: vJSON(len(written))}
		if final {
			m = &jsonrpc.Response{ID: call.ID, Result: vJSON("result")}
		}
		env.inWrite = true
		err := c.Write(wctx, m)
		env.inWrite = false
		vAssert(err == nil, "C08.write-accepted")
		written = append(written, m)
	}
	write(false) // delivered on the POST exchange as st1_0
	vAssert(len(post.events) == 1 && post.events[0].id == formatEventID("st1", 0), "C08.live-delivery-with-stable-id")

	st.close(0) // the server ends the exchange; the old handler has not returned yet

	var attached *zzExch
	if vBool("clientResumesBeforeTheOldHandlerReturned") {
		early := zzNewExch("early")
		if s2, _ := c.acquireStream(context.Background(), early, "st1", 0, version); s2 != nil {
			attached = early
			vReach("early-accepted")
		} else {
			vAssert(early.code == http.StatusConflict, "C08.early-resume-refused-with-409")
			vReach("early-refused")
		}
	}
	st.release() // the old handler returns
	if attached == nil {
		get := zzNewExch("get")
		s2, _ := c.acquireStream(context.Background(), get, "st1", 0, version)
		vAssert(s2 != nil, "C08.resume-after-release-accepted")
		attached = get
	}
	write(false)
	write(true)
	// the accepted exchange receives exactly what was written after the cursor, in order, ids consecutive
	vAssert(len(attached.events) == 2, "C08.resumed-exchange-receives-everything-after-the-cursor")
	for i, e := range attached.events {
		vAssert(e.id == formatEventID("st1", 1+i), "C08.stable-consecutive-ids")
		vAssert(zzSameMsg(e.data, written[1+i]), "C08.resumed-exchange-receives-everything-after-the-cursor")
	}
	vReach("end")
}

// ---------------------------------------------------------------- C08: the standalone stream (GET without a request)
//
// Messages that belong to no request — and, in JSON-response mode, the notifications and server-to-client calls of
// every request — travel on the session's standalone SSE stream. It is a logical stream like any other: with an event
// store, what a client receives from any resume point is exactly what was written after it, with consecutive, stable
// ids, also for messages written while no GET was attached. The response mode of POST exchanges (SSE or JSON) has no
// bearing on it.
func zzC08Standalone() {
	env := &zzSrvEnv{streamNames: []string{"st1", "st2"}}
	zzSrv8 = env
	store := &zzAtomicStore{EventStore: NewMemoryEventStore(nil)}
	c := zzConnect(store, false, vBool("jsonResponse"))
	store.c = c
	version := protocolVersion20250618
	total := vParam("writes")
	n1 := vChoice("attachedWrites", total)
	n2 := vChoice("detachedWrites", total-n1+1)
	var written []jsonrpc.Message
	write := func() {
		m := &jsonrpc.Request{Method: "notifications/message", Params: vJSON(len(written))}
		env.inWrite = true
		err := c.Write(context.WithValue(context.Background(), protocolVersionContextKey{}, version), m)
		env.inWrite = false
		vAssert(err == nil, "C08.standalone.write-accepted")
		written = append(written, m)
	}
	env.hangScript = func(*streamableServerConn, context.Context) {
		for i := 0; i < n1; i++ {
			write()
		}
	}
	first := zzNewExch("get")
	zzGET(c, first, version, "")
	vAssert(first.code == 200 || first.code == 0, "C08.standalone.attach-accepted")
	for i := 0; i < n2; i++ {
		write() // nobody attached: stored for the resume
	}
	check := func(x *zzExch, from int, label string) int {
		k := 0
		for _, e := range x.events {
			if e.name == "prime" {
				continue
			}
			idx := from + k
			vAssert(idx < len(written), label+".no-phantom")
			vAssert(e.id == formatEventID("", idx), label+".ids-consecutive-and-stable")
			vAssert(zzSameMsg(e.data, written[idx]), label+".payload-is-that-message")
			k++
		}
		return k
	}
	got1 := check(first, 0, "C08.standalone.live")
	vAssert(got1 == n1, "C08.standalone.live.receives-attached-writes")
	if got1 == 0 {
		vReach("no-cursor")
		return
	}
	resumeAfter := vChoice("resumeAfter", got1)
	n3 := total - n1 - n2
	if n3 < 0 {
		n3 = 0
	}
	env.hangScript = func(*streamableServerConn, context.Context) {
		for i := 0; i < n3; i++ {
			write()
		}
	}
	get := zzNewExch("resume")
	zzGET(c, get, version, formatEventID("", resumeAfter))
	vAssert(get.code == 200 || get.code == 0, "C08.standalone.resume-accepted")
	got2 := check(get, resumeAfter+1, "C08.standalone.resume")
	vAssert(got2 == len(written)-(resumeAfter+1), "C08.standalone.resume.everything-after-the-cursor-exactly-once")
	vReach("resumed")
	vReach("end")
}

func zzEmptyNonNil[T any](p *[]T) { *p = []T{} }

// ---------------------------------------------------------------- C02/C19: a batch answered in JSON-response mode
//
// A pre-2025-06-18 batch of two calls POSTed to a JSON-mode endpoint is answered with one application/json body: an
// array holding exactly the two responses, each decodable as the JSON-RPC response it is (ids intact), written once
// both handlers have answered and not before.
func zzC02JSONBatch() {
	env := &zzSrvEnv{streamNames: []string{"st1", "st2"}}
	zzSrv8 = env
	c := zzConnect(nil, false, true)
	a, b := zzCall(1, "tools/call"), &jsonrpc.Request{ID: jsonrpc2.StringID("b"), Method: "tools/call", Params: vJSON(&PingParams{})}
	env.isBatch = true
	first, second := jsonrpc.ID(a.ID), jsonrpc.ID(b.ID)
	if vBool("answeredInReverseOrder") {
		first, second = second, first
	}
	w := zzNewExch("post")
	var r1, r2 *jsonrpc.Response
	env.hangScript = func(c *streamableServerConn, ctx context.Context) {
		r1 = &jsonrpc.Response{ID: first, Result: vJSON("first result")}
		vAssert(c.Write(context.WithValue(context.Background(), idContextKey{}, first), r1) == nil, "C02.jsonbatch.write-accepted")
		vAssert(len(w.raw) == 0 && len(w.events) == 0, "C02.jsonbatch.nothing-sent-before-the-batch-is-complete")
		r2 = &jsonrpc.Response{ID: second, Result: vJSON("second result")}
		vAssert(c.Write(context.WithValue(context.Background(), idContextKey{}, second), r2) == nil, "C02.jsonbatch.write-accepted")
	}
	zzPOST(c, w, protocolVersion20250326, a, b)
	vAssert(env.hangs == 1 && len(w.events) == 0 && len(w.raw) == 1, "C02.jsonbatch.one-json-body")
	var elems []json.RawMessage
	vAssert(json.Unmarshal(w.raw[0], &elems) == nil && len(elems) == 2, "C19.jsonbatch.body-is-an-array-of-two-messages")
	g1, _ := vJSONOf(elems[0]).(jsonrpc.Message)
	g2, _ := vJSONOf(elems[1]).(jsonrpc.Message)
	vAssert(g1 == jsonrpc.Message(r1) && g2 == jsonrpc.Message(r2), "C19.jsonbatch.each-element-is-the-response-it-carries")
	vReach("end")
}

// zzC02ErrorAnswer: the answer to a call that ends in a JSON-RPC error, on the exchange of that call (SSE mode), for
// every error code, protocol era and for handlers that did or did not send a related notification first. Whatever the
// code, the answer reaches the client in a form it can read: as the whole body with the mandated status (2026-07-28
// protocol-level errors) only while nothing has been written to that response; once an event has gone out — status
// and content type are committed — as one more event. (D14: the raw body used to land unframed in the event stream.)
func zzC02ErrorAnswer() {
	env := &zzSrvEnv{streamNames: []string{"st1", "st2"}}
	zzSrv8 = env
	stateless := vBool("stateless")
	c := zzConnect(nil, stateless, false)
	wA := zzNewExch("A")
	idA := jsonrpc2.Int64ID(1)
	s := &stream{id: "stA", requests: map[jsonrpc.ID]struct{}{idA: {}}, lastIdx: -1, w: wA, done: make(chan struct{})}
	c.streams["stA"] = s
	c.requestStreams[idA] = "stA"
	version := []string{protocolVersion20250618, protocolVersion20251125, protocolVersion20260728}[vChoice("version", 3)]
	ctx := context.WithValue(context.Background(), idContextKey{}, idA)
	ctx = context.WithValue(ctx, protocolVersionContextKey{}, version)
	notified := vBool("handlerSentANotificationFirst")
	if notified {
		err := c.Write(ctx, &jsonrpc.Request{Method: "notifications/progress", Params: vJSON("p")})
		vAssert(err == nil && len(wA.events) == 1 && len(wA.raw) == 0, "C10.related-message-on-that-requests-stream")
	}
	code := []int64{jsonrpc.CodeMethodNotFound, jsonrpc.CodeInvalidParams, CodeUnsupportedProtocolVersion, CodeMissingRequiredClientCapabilities, jsonrpc.CodeInternalError, -32000}[vChoice("code", 6)]
	werr := c.Write(ctx, &jsonrpc.Response{ID: idA, Error: &jsonrpc.Error{Code: code, Message: "no"}})
	vAssert(werr == nil, "C02.error-answer-written")
	before := 0
	if notified {
		before = 1
	}
	if len(wA.raw) > 0 {
		// a raw body: only as the first and only thing on this response, with its status
		vAssert(!notified && len(wA.events) == 0 && len(wA.raw) == 1, "C02.error-answer-readable-by-the-client")
		vAssert(version >= protocolVersion20260728 && wA.code >= 400, "C02.error-answer-readable-by-the-client")
		vReach("as-body")
	} else {
		vAssert(len(wA.events) == before+1, "C02.error-answer-readable-by-the-client")
		vReach("as-event")
	}
	_, still := c.requestStreams[idA]
	vAssert(!still, "C10.answered-request-unrouted")
	vReach("end")
}
