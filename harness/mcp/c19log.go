package mcp

import (
	"bytes"
	"context"
	"encoding/json"
	"log/slog"
	"sync"
)

// LoggingHandler.handle: every record becomes one notifications/message whose data is the JSON of THAT record — also
// when the same handler (one shared encode buffer) has formatted other records since: the params handed to the session
// stay what they were (they are encoded for the wire only later, by jsonrpc2, outside the handler's lock).
type zzSlogStub struct {
	buf *bytes.Buffer
	n   int
}

func (s *zzSlogStub) Enabled(context.Context, slog.Level) bool { return true }
func (s *zzSlogStub) Handle(ctx context.Context, r slog.Record) error {
	// what slog.NewJSONHandler does: the record's JSON object and a newline, appended to the writer
	s.n++
	s.buf.Write(vJSON(map[string]any{"msg": r.Message, "seq": float64(s.n)}))
	s.buf.WriteByte('\n')
	return nil
}
func (s *zzSlogStub) WithAttrs([]slog.Attr) slog.Handler { return s }
func (s *zzSlogStub) WithGroup(string) slog.Handler      { return s }

var zzLogged []*LoggingMessageParams

func zzSessionLog(ss *ServerSession, ctx context.Context, params *LoggingMessageParams) error {
	zzLogged = append(zzLogged, params)
	return nil
}

func zzC19Logging() {
	zzLogged = nil
	h := &LoggingHandler{opts: LoggingHandlerOptions{LoggerName: "l"}, ss: &ServerSession{}, mu: new(sync.Mutex), buf: new(bytes.Buffer)}
	stub := &zzSlogStub{buf: h.buf}
	h.handler = stub
	n := 2 + vChoice("moreRecords", 2)
	var first []byte
	for i := 0; i < n; i++ {
		err := h.handle(context.Background(), slog.Record{Message: string([]byte{'m', byte('0' + i)}), Level: slog.LevelInfo})
		vAssert(err == nil && len(zzLogged) == i+1, "C19.log.one-notification-per-record")
		doc, _ := vJSONOf(zzLogData(i)).(map[string]any)
		vAssert(doc != nil && doc["seq"] == any(float64(i+1)), "C19.log.data-is-the-json-of-that-record")
		if i == 0 {
			first = append([]byte(nil), zzLogData(0)...)
		}
	}
	// the first record's params, encoded only now (as jsonrpc2 does, after other records went through the handler)
	vAssert(string(zzLogData(0)) == string(first), "C19.log.params-of-an-earlier-record-untouched-by-later-ones")
	doc, _ := vJSONOf(zzLogData(0)).(map[string]any)
	vAssert(doc != nil && doc["seq"] == any(1.0), "C19.log.params-of-an-earlier-record-untouched-by-later-ones")
	vReach("end")
}

func zzLogData(i int) []byte {
	d, _ := zzLogged[i].Data.(json.RawMessage)
	// (read now; the record's trailing newline is not part of the JSON value — the wire encoder compacts it away)
	return bytes.TrimRight(append([]byte(nil), d...), "\n")
}
