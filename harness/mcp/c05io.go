package mcp

import (
	"context"
	"errors"
	"sync"

	"github.com/modelcontextprotocol/go-sdk/jsonrpc"
)

// The closers of the io-based transports (IOTransport / StdioTransport: rwc and ioConn). Closing the transport
// releases BOTH halves whatever either of them reports — the peer only sees end of input when the write half is
// closed, so a Close that stops after a failing read half leaves the peer's Wait hanging — reports every failure,
// closes each half once however often it is called, and after it Read and Write fail.
type zzHalf struct {
	closes int
	err    error
}

func (h *zzHalf) Read(p []byte) (int, error)  { return 0, errors.New("zzHalf.Read: not part of this harness") }
func (h *zzHalf) Write(p []byte) (int, error) {
	if h.closes > 0 {
		return 0, errors.New("write on closed file")
	}
	return len(p), nil
}
func (h *zzHalf) Close() error                { h.closes++; return h.err }

func zzC05IOClose() {
	r, w := &zzHalf{}, &zzHalf{}
	eR, eW := errors.New("read half: input/output error"), errors.New("write half: broken pipe")
	if vBool("readHalfCloseFails") {
		r.err = eR
	}
	if vBool("writeHalfCloseFails") {
		w.err = eW
	}
	pair := rwc{rc: r, wc: w}
	noWriter := vBool("noWriter")
	if noWriter {
		pair.wc = nil
	}
	c := &ioConn{rwc: pair, closed: make(chan struct{}), incoming: make(chan msgOrErr)}
	c.closeOnce = sync.Once{}
	n := 1 + vChoice("extraCloses", 2)
	var errs []error
	for i := 0; i < n; i++ {
		errs = append(errs, c.Close())
	}
	vAssert(r.closes == 1, "C05.io.read-half-closed-exactly-once")
	if !noWriter {
		vAssert(w.closes == 1, "C05.io.write-half-closed-exactly-once-whatever-the-read-half-said")
	}
	for _, err := range errs {
		vAssert((err != nil) == (r.err != nil || (!noWriter && w.err != nil)), "C05.io.close-reports-failures")
		if r.err != nil {
			vAssert(errors.Is(err, eR), "C05.io.close-reports-every-failure")
		}
		if !noWriter && w.err != nil {
			vAssert(errors.Is(err, eW), "C05.io.close-reports-every-failure")
		}
	}
	// afterwards nothing is read or written
	_, rerr := c.Read(context.Background())
	vAssert(rerr != nil, "C05.io.read-after-close-fails")
	if !noWriter {
		werr := c.Write(context.Background(), &jsonrpc.Request{Method: "notifications/x"})
		vAssert(werr != nil, "C05.io.write-after-close-fails")
	}
	vReach("end")
}
