package mcp

import (
	"encoding/json"
	"context"
	"errors"
	"fmt"
	"io"
	"net/http"

	"github.com/modelcontextprotocol/go-sdk/internal/jsonrpc2"
	"github.com/modelcontextprotocol/go-sdk/jsonrpc"
	"golang.org/x/oauth2"
)

// The streamable client's POST path: streamableClientConn.Write with every kind of message against every kind of
// answer (transport error, transient / JSON-RPC-error / session-gone / other statuses, 2xx with JSON, SSE, no body or
// an unexpected content type, session ids, an OAuth handler that may be asked to authorize and retry).
//
// C01: a call whose Write returned nil is in the hands of exactly one response handler; a call whose Write failed is
//      in nobody's hands (the caller completes it with the error); a failed Write breaks the connection only for
//      causes that are not per-request. C09/C11: 404 = session gone. C11/C12: what the request carries.

type zzPostBody struct{ closes int }

func (b *zzPostBody) Read(p []byte) (int, error) { return 0, io.EOF }
func (b *zzPostBody) Close() error               { b.closes++; return nil }

type zzPostAnswer struct {
	doErr       bool
	status      int
	rpcErrBody  bool // a non-2xx body that decodes to a JSON-RPC error response
	media       string
	sessionID   string
	body        *zzPostBody
	bodyBad     int // JSON answer: 0 fine, 1 unreadable, 2 undecodable
}

type zzPostEnv struct {
	answers  []*zzPostAnswer
	reqs     []*http.Request
	meta     Meta
	cur      *zzPostAnswer // the answer whose body is being read
	sse      []*jsonrpc.Request
	sseCtx   []context.Context
	sseResp  []*http.Response
	authz    int
	authzErr bool
	authzCancels func()
	tokenKind int // 0 no source, 1 token, 2 invalid_grant, 3 other error, 4 source error
	sentCallID bool // the message being written is a call (its id is echoed by error answers)
}

var zzPost *zzPostEnv

func zzPostNewRequest(ctx context.Context, method, url string, body io.Reader) (*http.Request, error) {
	return (&http.Request{Method: method, Header: http.Header{}}).WithContext(ctx), nil
}
func zzPostDo(_ *http.Client, req *http.Request) (*http.Response, error) {
	e := zzPost
	if len(e.reqs) >= 2 {
		vUnsupported("more than two requests for one message")
	}
	// the answer is drawn when the request arrives: only requests that are sent multiply the exploration
	a := zzPostAnswerAny(string([]byte{'a', byte('1' + len(e.reqs))}))
	e.answers = append(e.answers, a)
	e.reqs = append(e.reqs, req)
	if a.doErr {
		return nil, errors.New("dial tcp: connection refused")
	}
	h := http.Header{}
	if a.sessionID != "" {
		h.Set(sessionIDHeader, a.sessionID)
	}
	h.Set("Content-Type", a.media)
	a.body = &zzPostBody{}
	// resp.Request is the request that produced THIS response — after net/http followed a redirect, the last one of the
	// chain, addressed to wherever the endpoint pointed, not the one the client built for the configured endpoint
	via := req
	if (a.status == 401 || a.status == 403) && vBool("answerCameAfterARedirect") {
		via = (&http.Request{Method: req.Method, Header: http.Header{}}).WithContext(req.Context())
	}
	return &http.Response{StatusCode: a.status, Header: h, Body: a.body, Request: via}, nil
}
func zzPostMedia(v string) string { return v }
func zzPostEncode(msg jsonrpc.Message) ([]byte, error) { return vJSON(msg), nil }
func zzPostMeta(raw []byte) Meta  { return zzPost.meta }
// The body of an answer, as JSON text (a token of a struct with the envelope's member names, decoded by the real
// DecodeMessage and by whatever else the client applies to it): a 2xx JSON answer holds the call's response; a
// non-2xx answer may hold a JSON-RPC error response — which echoes the request's id only if the request had one: the
// error answer to a notification or to a response carries no id.
type zzPostWire struct {
	VersionTag string          `json:"jsonrpc"`
	ID         any             `json:"id,omitempty"`
	Result     json.RawMessage `json:"result,omitempty"`
	Error      *jsonrpc.Error  `json:"error,omitempty"`
}

func zzPostReadAll(r io.Reader) ([]byte, error) {
	b, _ := r.(*zzPostBody)
	var a *zzPostAnswer
	for _, x := range zzPost.answers {
		if x.body == b {
			a = x
		}
	}
	if a == nil {
		return nil, errors.New("no body")
	}
	zzPost.cur = a
	if a.status >= 200 && a.status < 300 {
		switch a.bodyBad {
		case 1:
			return nil, errors.New("unexpected EOF")
		case 2:
			return vJSON("not a JSON-RPC message"), nil
		}
		return vJSON(zzPostWire{VersionTag: "2.0", ID: int64(7), Result: vJSON("the result")}), nil
	}
	if a.rpcErrBody {
		w := zzPostWire{VersionTag: "2.0", Error: &jsonrpc.Error{Code: -32603, Message: "overloaded"}}
		if zzPost.sentCallID {
			w.ID = int64(7)
		}
		return vJSON(w), nil
	}
	return vJSON("plain text"), nil
}
func zzPostHandleSSE(c *streamableClientConn, ctx context.Context, summary string, resp *http.Response, forCall *jsonrpc2.Request) {
	zzPost.sse = append(zzPost.sse, forCall)
	zzPost.sseCtx = append(zzPost.sseCtx, ctx)
	zzPost.sseResp = append(zzPost.sseResp, resp)
}

type zzPostTS struct{}

func (zzPostTS) Token() (*oauth2.Token, error) {
	switch zzPost.tokenKind {
	case 1:
		return &oauth2.Token{AccessToken: "tok"}, nil
	case 2:
		return nil, &oauth2.RetrieveError{ErrorCode: "invalid_grant"}
	}
	return nil, errors.New("token endpoint down")
}

type zzPostOAuth struct{}

func (zzPostOAuth) TokenSource(context.Context) (oauth2.TokenSource, error) {
	switch zzPost.tokenKind {
	case 0:
		return nil, nil
	case 4:
		return nil, errors.New("no token source")
	}
	return zzPostTS{}, nil
}
func (zzPostOAuth) Authorize(ctx context.Context, req *http.Request, resp *http.Response) error {
	zzPost.authz++
	// (C15) the handler derives the resource it asks a token for from req: it is the request for the configured
	// endpoint, whatever chain of redirects produced the challenge
	vAssert(len(zzPost.reqs) > 0 && req == zzPost.reqs[len(zzPost.reqs)-1], "C15.post.authorize-is-asked-about-the-configured-endpoint")
	resp.Body.Close()
	if zzPost.authzCancels != nil {
		zzPost.authzCancels()
	}
	if zzPost.authzErr {
		return errors.New("user declined")
	}
	return nil
}

func zzPostAnswerAny(tag string) *zzPostAnswer {
	a := &zzPostAnswer{media: "application/json"}
	if vParam("focus") == 0 { // headers harness: the answer is plain
		a.status = 202
		if vBool(tag + ".wantsAuthorization") {
			a.status = 401
		}
		return a
	}
	statuses := []int{200, 202, 204, 400, 401, 403, 404, 405, 429, 500, 502, 503, 504}
	switch vChoice(tag+".kind", 3) {
	case 0:
		a.doErr = true
	case 1:
		a.status = statuses[vChoice(tag+".status", len(statuses))]
		a.rpcErrBody = vBool(tag + ".rpcErrorBody")
	case 2:
		a.status = 200
		medias := []string{"application/json", "text/event-stream", "text/html", ""}
		a.media = medias[vChoice(tag+".media", 4)]
		a.bodyBad = vChoice(tag+".body", 3)
	}
	switch vChoice(tag+".sid", 3) {
	case 1:
		a.sessionID = "S1"
	case 2:
		a.sessionID = "S2"
	}
	return a
}

func zzC09ClientPOST() {
	env := &zzPostEnv{}
	zzPost = env
	c := zzNewClientConn()
	c.url = "http://srv.example/mcp"
	c.client = &http.Client{}
	headersFocus := vParam("focus") == 0
	c.strict = vBool("strict") // symbolic: forks only where the code looks at it
	hadSID := ""
	if vBool("haveSession") {
		hadSID = "S1"
		c.sessionID = hadSID
	}
	if headersFocus && vBool("initialized") {
		c.initializedResult = &InitializeResult{ProtocolVersion: protocolVersion20250618}
	}
	ctxVersion := headersFocus && vBool("versionInContext")
	base := context.Background()
	if ctxVersion {
		base = context.WithValue(base, protocolVersionContextKey{}, protocolVersion20251125)
	}
	ctx, cancel := context.WithCancel(base)
	defer cancel()
	metaVersion := headersFocus && vBool("versionInMeta")
	if metaVersion {
		env.meta = Meta{MetaKeyProtocolVersion: protocolVersion20260728}
	}
	useOAuth := vBool("oauthHandler")
	if useOAuth {
		c.oauthHandler = zzPostOAuth{}
		if headersFocus {
			env.tokenKind = vChoice("tokenSource", 5)
		} else {
			env.tokenKind = 1
			env.authzErr = vBool("authorizeFails")
			if vBool("callerGoneDuringAuthorize") {
				env.authzCancels = cancel
			}
		}
	}
	preFailed := !headersFocus && vBool("connectionAlreadyFailed")
	eOld := errors.New("stream broke earlier")
	if preFailed {
		c.fail(eOld)
	}

	// the message
	var msg jsonrpc.Message
	var call *jsonrpc.Request
	method := ""
	switch vChoice("message", 4) {
	case 0:
		method = methodCallTool
		call = &jsonrpc.Request{ID: jsonrpc2.Int64ID(7), Method: method, Params: vJSON(&CallToolParams{Name: "t"})}
		msg = call
	case 1:
		method = methodDiscover
		call = &jsonrpc.Request{ID: jsonrpc2.Int64ID(7), Method: method, Params: vJSON(&DiscoverParams{})}
		msg = call
	case 2:
		method = notificationInitialized
		msg = &jsonrpc.Request{Method: method, Params: vJSON(&InitializedParams{})}
	case 3:
		msg = &jsonrpc.Response{ID: jsonrpc2.Int64ID(3), Result: vJSON("r")}
	}

	env.sentCallID = call != nil
	err := c.Write(ctx, msg)

	failure := c.failure()
	if preFailed {
		vAssert(err == eOld && len(env.reqs) == 0, "C09.post.failed-connection-sends-nothing")
		vReach("end")
		return
	}
	tokenBlocks := useOAuth && (env.tokenKind == 3 || env.tokenKind == 4)
	if tokenBlocks {
		// the request could not be prepared: nothing is sent, the failure is per-request
		vAssert(len(env.reqs) == 0 && err != nil && errors.Is(err, jsonrpc2.ErrRejected) && failure == nil, "C01.post.unsendable-request-is-a-per-request-failure")
		vReach("end")
		return
	}
	vAssert(len(env.reqs) >= 1, "C09.post.request-sent")
	// ---- what every request carries (C11 client side, C12 client side)
	for _, r := range env.reqs {
		vAssert(r.Method == http.MethodPost, "C12.post.method")
		vAssert(r.Header.Get("Content-Type") == "application/json", "C12.post.content-type-json")
		vAssert(r.Header.Get("Accept") == "application/json, text/event-stream", "C12.post.accepts-both-response-types")
		vAssert(r.Header.Get(sessionIDHeader) == hadSID, "C11.post.carries-exactly-the-session-id-it-holds")
		wantV := ""
		switch {
		case metaVersion && (call != nil || method != ""):
			if _, isReq := msg.(*jsonrpc.Request); isReq {
				wantV = protocolVersion20260728
			}
		}
		if wantV == "" {
			if c.initializedResult != nil {
				wantV = protocolVersion20250618
			} else if ctxVersion {
				wantV = protocolVersion20251125
			}
		}
		vAssert(r.Header.Get(protocolVersionHeader) == wantV, "C12.post.version-header-mirrors-the-request")
		wantAuth := ""
		if useOAuth && env.tokenKind == 1 {
			wantAuth = "Bearer tok"
		}
		vAssert(r.Header.Get("Authorization") == wantAuth, "C15.post.bearer-token-iff-a-token-is-held")
		if _, isReq := msg.(*jsonrpc.Request); isReq && wantV >= protocolVersion20260728 {
			vAssert(r.Header.Get(methodHeader) == method, "C12.post.method-header-mirrors-the-body")
		} else {
			vAssert(r.Header.Get(methodHeader) == "", "C12.post.no-mirror-headers-before-2026-07-28")
		}
	}
	// ---- which answer decides
	a := env.answers[0]
	retried := false
	if !a.doErr && (a.status == 401 || a.status == 403) && useOAuth {
		vAssert(env.authz == 1, "C15.post.authorize-asked-once")
		if env.authzErr {
			vAssert(len(env.reqs) == 1 && err != nil && errors.Is(err, jsonrpc2.ErrRejected), "C15.post.refused-authorization-is-a-per-request-failure")
			vAssert((failure != nil) == (ctx.Err() != nil), "C15.post.abandoned-authorization-fails-the-connection")
			vAssert(len(env.sse) == 0 && vNumSpawned() == 0, "C01.post.failed-write-hands-the-call-to-nobody")
			vReach("authz-refused")
			vReach("end")
			return
		}
		vAssert(len(env.reqs) == 2, "C15.post.retried-exactly-once-after-authorization")
		a = env.answers[1]
		retried = true
		vReach("retried")
	} else {
		vAssert(len(env.reqs) == 1 && env.authz == 0, "C09.post.one-request")
	}
	_ = retried
	handlers := vNumSpawned()
	switch {
	case a.doErr:
		vAssert(err != nil && errors.Is(err, jsonrpc2.ErrRejected) && failure == nil, "C01.post.transport-error-is-a-per-request-failure")
		vReach("do-error")
	case a.status == 429 || a.status == 500 || a.status == 502 || a.status == 503 || a.status == 504:
		vAssert(err != nil && errors.Is(err, jsonrpc2.ErrRejected) && failure == nil, "C01.post.transient-status-is-a-per-request-failure")
		vAssert(a.body.closes >= 1, "C05.post.body-closed")
		vReach("transient")
	case (a.status < 200 || a.status >= 300) && a.rpcErrBody:
		vAssert(err != nil && errors.Is(err, jsonrpc2.ErrRejected) && failure == nil, "C01.post.jsonrpc-error-answer-is-a-per-request-failure")
		var we *jsonrpc.Error
		vAssert(errors.As(err, &we) && we.Code == -32603, "C02.post.server-error-code-surfaced")
		vAssert(a.body.closes >= 1, "C05.post.body-closed")
		vReach("rpc-error")
	case a.status == 404:
		vAssert(err != nil && errors.Is(err, ErrSessionMissing), "C11.post.404-means-session-gone")
		if method == methodDiscover {
			vAssert(errors.Is(err, jsonrpc2.ErrRejected) && failure == nil, "C07.post.refused-discover-leaves-the-connection-usable")
		} else {
			vAssert(failure != nil, "C09.post.session-gone-fails-the-connection")
		}
		vReach("gone")
	case a.status < 200 || a.status >= 300:
		vAssert(err != nil, "C09.post.error-status-is-an-error")
		if method == methodDiscover {
			vAssert(errors.Is(err, jsonrpc2.ErrRejected) && failure == nil, "C07.post.refused-discover-leaves-the-connection-usable")
		} else {
			vAssert(failure != nil && !errors.Is(err, jsonrpc2.ErrRejected), "C09.post.hard-error-fails-the-connection")
		}
		vAssert(a.body.closes >= 1, "C05.post.body-closed")
		vReach("hard-error")
	default: // 2xx
		mismatch := hadSID != "" && a.sessionID != "" && a.sessionID != hadSID
		if mismatch {
			vAssert(err != nil && handlers == 0 && len(env.sse) == 0, "C11.post.answer-for-another-session-refused")
			vAssert(c.sessionID == hadSID, "C11.post.session-id-never-replaced")
			vAssert(a.body.closes >= 1, "C05.post.body-closed")
			vReach("mismatch")
			break
		}
		if hadSID == "" && a.sessionID != "" {
			vAssert(c.sessionID == a.sessionID, "C11.post.first-session-id-adopted")
		} else {
			vAssert(c.sessionID == hadSID, "C11.post.session-id-never-replaced")
		}
		if call == nil {
			vAssert(a.body.closes >= 1 && handlers == 0, "C05.post.body-closed")
			if a.status == 202 || a.status == 204 || !c.strict {
				vAssert(err == nil, "C02.post.accepted-notification")
			} else {
				vAssert(err != nil, "C02.post.strict-mode-wants-202")
			}
			vAssert(failure == nil, "C09.post.non-call-never-fails-the-connection")
			vReach("non-call")
			break
		}
		switch a.media {
		case "application/json":
			vAssert(err == nil && handlers == 1 && len(env.sse) == 0, "C01.post.json-answer-handled-once")
			// (C04) the caller may give up while the body is still in transit: the request — and with it the body — is
			// bound to the call's context, so reading then fails; that is this call's business, not the connection's
			gaveUp := a.bodyBad == 1 && vBool("callerGaveUpWhileTheBodyWasInTransit")
			if gaveUp {
				cancel()
			}
			vRunSpawned(0)
			if gaveUp {
				vAssert(vChanLen(c.incoming) == 0 && c.failure() == nil, "C04.post.abandoned-call-leaves-the-connection-usable")
				vReach("json-abandoned")
			} else if a.bodyBad == 0 {
				vAssert(vChanLen(c.incoming) == 1 && c.failure() == nil, "C01.post.json-answer-delivered-exactly-once")
				m := (<-c.incoming).(*jsonrpc.Response)
				vAssert(m.ID == call.ID, "C01.post.answer-bears-the-calls-id")
				vReach("json")
			} else {
				// (a body that cannot be read under a context that has ended is attributed to the call, see above)
				vAssert(vChanLen(c.incoming) == 0 && (c.failure() != nil || (a.bodyBad == 1 && ctx.Err() != nil)), "C01.post.unusable-answer-fails-the-connection")
				vReach("json-bad")
			}
			vAssert(a.body.closes >= 1, "C05.post.body-closed")
		case "text/event-stream":
			vAssert(err == nil && handlers == 1, "C01.post.sse-answer-handled-once")
			vRunSpawned(0)
			vAssert(len(env.sse) == 1 && env.sse[0] == call && env.sseResp[0].Body == io.ReadCloser(a.body), "C01.post.sse-handler-owns-the-call")
			vReach("sse")
		default:
			vAssert(err != nil && handlers == 0 && len(env.sse) == 0, "C01.post.unusable-content-type-is-an-error")
			vAssert(a.body.closes >= 1, "C05.post.body-closed")
			vReach("bad-media")
		}
	}
	// C01, whatever happened: a call is either in exactly one handler's hands (Write said nil) or in nobody's
	if call != nil {
		owners := vNumSpawned()
		if err == nil {
			vAssert(owners == 1, "C01.post.sent-call-has-exactly-one-response-handler")
		} else {
			vAssert(owners == 0, "C01.post.failed-write-hands-the-call-to-nobody")
		}
	} else {
		vAssert(vNumSpawned() == 0, "C01.post.non-call-starts-no-handler")
	}
	vReach("end")
}

// ---------------------------------------------------------------- streamableClientConn.Close (C05/C11)
//
// Closing the client side of a streamable session tells the server: a DELETE carrying the session id is sent exactly
// once — unless no session id was ever assigned, or the server has already said the session is gone (404) — whatever
// else has failed on the connection meanwhile; then the connection's context is cancelled and done is closed. A second
// Close does nothing more and reports the same result.
func zzC05ClientConnClose() {
	env := &zzPostEnv{}
	zzPost = env
	c := zzNewClientConn()
	c.url = "http://srv.example/mcp"
	c.client = &http.Client{}
	cancelled := 0
	c.cancel = func() { cancelled++ }
	hasSID := vBool("haveSession")
	if hasSID {
		c.sessionID = "S1"
	}
	var failure error
	switch vChoice("earlierFailure", 4) {
	case 1:
		failure = errors.New("sending \"tools/list\": Bad Request")
	case 2:
		failure = fmt.Errorf("sending %q: failed to connect (session ID: %v): %w", "ping", "S1", ErrSessionMissing)
	case 3:
		failure = errors.New("failed to decode event: unexpected EOF")
	}
	if failure != nil {
		c.fail(failure)
	}
	gone := failure != nil && errors.Is(failure, ErrSessionMissing)
	err := c.Close()
	wantDelete := hasSID && !gone
	if wantDelete {
		vAssert(len(env.reqs) == 1 && env.reqs[0].Method == http.MethodDelete, "C05.client-close.session-terminated-on-the-server")
		vAssert(env.reqs[0].Header.Get(sessionIDHeader) == "S1", "C11.client-close.delete-names-the-session")
		a := env.answers[0]
		if a.doErr {
			vAssert(err != nil, "C05.client-close.delete-failure-reported")
		} else {
			vAssert(a.body.closes == 1, "C05.client-close.body-closed")
		}
		vReach("deleted")
	} else {
		vAssert(len(env.reqs) == 0 && err == nil, "C05.client-close.nothing-to-delete")
		vReach("no-delete")
	}
	vAssert(cancelled == 1 && vIsClosed(c.done), "C05.client-close.hanging-requests-released")
	err2 := c.Close()
	vAssert(err2 == err && len(env.reqs) <= 1 && cancelled == 1, "C05.client-close.idempotent")
	vReach("end")
}
