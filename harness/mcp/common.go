package mcp

import (
	"io"
	"net/http"

	"github.com/modelcontextprotocol/go-sdk/internal/jsonrpc2"
	"github.com/modelcontextprotocol/go-sdk/jsonrpc"
)

// Helpers shared by several harness files. They refer to exported or long-lived names only, so that a refactoring of
// the code under test that breaks one harness file does not take the others down with it.

type zzRec struct {
	hdr  http.Header
	code int
	body string
}

func (w *zzRec) Header() http.Header { return w.hdr }
func (w *zzRec) Write(b []byte) (int, error) {
	if w.code == 0 {
		w.code = 200
	}
	w.body += string(b)
	return len(b), nil
}
func (w *zzRec) WriteHeader(c int) {
	if w.code == 0 {
		w.code = c
	}
}


type zzAddr string

func (a zzAddr) Network() string { return "tcp" }
func (a zzAddr) String() string  { return string(a) }


type zzRawBody struct{}

func (zzRawBody) Read(p []byte) (int, error) { return 0, io.EOF }
func (zzRawBody) Close() error               { return nil }


func zzCall(id int64, method string) *jsonrpc.Request {
	return &jsonrpc.Request{ID: jsonrpc2.Int64ID(id), Method: method, Params: vJSON(&PingParams{})}
}


func zzIsSupported(v string) bool {
	return v == protocolVersion20260728 || v == protocolVersion20251125 || v == protocolVersion20250618 || v == protocolVersion20250326 || v == protocolVersion20241105
}

