package mcp

import (
	"context"
	"encoding/json"
	"errors"
	"reflect"

	"github.com/google/jsonschema-go/jsonschema"
	"github.com/modelcontextprotocol/go-sdk/jsonrpc"
)

// C16 — the typed-tool wrapper built by toolForErr: orchestration of decode / defaults / validate / handler /
// output validation relative to the contracts of the JSON and JSON-schema libraries, which are stubs here:
//   ApplyDefaults(v) adds the schema's defaults to v in place (at top level or inside a nested object),
//   Validate(v) gives an arbitrary verdict, recorded together with what it was shown.

type zzSchemaEnv struct {
	in, out       *jsonschema.Resolved
	events        []string
	inValid       bool // verdict of the input schema
	outValid      bool
	nestedDefault bool // the input default lands inside a nested object instead of at top level
	outRootType   string
	validatedIn   map[string]any // what the input validator saw
	validatedOut  any
	setSchemaCalls int
}

var zzS *zzSchemaEnv

func zzHasDefaults(m map[string]any) bool {
	if _, ok := m["__default"]; ok {
		return true
	}
	if n, ok := m["nested"].(map[string]any); ok {
		_, ok2 := n["__default"]
		return ok2
	}
	return false
}

func zzApplyDefaults(r *jsonschema.Resolved, instance any) error {
	p := instance.(*any)
	m, _ := (*p).(map[string]any)
	if r == zzS.in {
		zzS.events = append(zzS.events, "in.defaults")
		if n, ok := m["nested"].(map[string]any); ok && zzS.nestedDefault {
			n["__default"] = true
		} else {
			m["__default"] = true
		}
	} else {
		zzS.events = append(zzS.events, "out.defaults")
		m["__default"] = true
	}
	return nil
}

func zzValidate(r *jsonschema.Resolved, instance any) error {
	p := instance.(*any)
	if r == zzS.in {
		zzS.events = append(zzS.events, "in.validate")
		zzS.validatedIn, _ = (*p).(map[string]any)
		if !zzS.inValid {
			return errors.New("input does not match schema")
		}
		return nil
	}
	zzS.events = append(zzS.events, "out.validate")
	zzS.validatedOut = *p
	if !zzS.outValid {
		return errors.New("output does not match schema")
	}
	return nil
}

func zzResolvedSchema(r *jsonschema.Resolved) *jsonschema.Schema {
	if r == zzS.out {
		return &jsonschema.Schema{Type: zzS.outRootType}
	}
	return &jsonschema.Schema{Type: "object"}
}

// toolForErr resolves the input schema first, then the output schema.
func zzSetSchema(sfield *any, rfield **jsonschema.Resolved, cache *SchemaCache) (any, error) {
	zzS.setSchemaCalls++
	if zzS.setSchemaCalls == 1 {
		*rfield = zzS.in
	} else {
		*rfield = zzS.out
	}
	return nil, nil
}
func zzTypeFor() reflect.Type { return nil }

func zzC16Wrapper() {
	env := &zzSchemaEnv{in: &jsonschema.Resolved{}, out: &jsonschema.Resolved{}}
	zzS = env
	env.inValid = vBool("inputValid")
	env.outValid = vBool("outputValid")
	env.nestedDefault = vBool("defaultIsNested")
	env.outRootType = "object"
	calls := 0
	var gotIn map[string]any
	outcome := vChoice("handlerOutcome", 5)
	ownContent := vBool("handlerSuppliesContent")
	handlerOut := map[string]any{"answer": 42.0}
	presets := vBool("handlerPresetsStructuredContent")
	h := func(ctx context.Context, req *CallToolRequest, in map[string]any) (*CallToolResult, map[string]any, error) {
		calls++
		gotIn = in
		switch outcome {
		case 0, 1:
			if ownContent {
				return &CallToolResult{Content: []Content{&TextContent{Text: "mine"}}}, handlerOut, nil
			}
			if outcome == 1 {
				if presets {
					// the handler also filled StructuredContent by hand, with something no schema ever saw: what the
					// client gets is still the typed output, defaulted and validated
					return &CallToolResult{StructuredContent: map[string]any{"answer": 7.0, "unvalidated": true}}, handlerOut, nil
				}
				return &CallToolResult{}, handlerOut, nil
			}
			return nil, handlerOut, nil
		case 2:
			return nil, nil, errors.New("tool failed")
		case 3:
			return nil, nil, &jsonrpc.Error{Code: -32000, Message: "protocol-level"}
		}
		return &CallToolResult{InputRequests: InputRequestMap{}}, nil, nil
	}
	tool := &Tool{Name: "t", InputSchema: &jsonschema.Schema{Type: "object"}, OutputSchema: &jsonschema.Schema{Type: "object"}}
	_, th, err := toolForErr(tool, h, nil)
	vAssert(err == nil && th != nil, "C16.wrapper-built")

	// the arguments document, as a generic JSON object; optionally absent altogether
	args := map[string]any{"q": "go", "nested": map[string]any{}}
	req := &CallToolRequest{Params: &CallToolParamsRaw{Name: "t"}}
	argsAbsent := vBool("argumentsAbsent")
	if !argsAbsent {
		req.Params.Arguments = vJSON(args)
	} else if vBool("argumentsAreJSONNull") {
		// "arguments": null — for the wrapper the same as no arguments at all (D12: it used to leave a nil map behind,
		// into which the defaults were then written: a panic in the handler goroutine)
		req.Params.Arguments = json.RawMessage("null")
	}
	if vBool("laterRoundOfMultiRoundTripCall") {
		// a later round of a multi round-trip call (or a client that simply sends the member): input responses are the
		// client's data — they say nothing about what the server validated; every round is validated and defaulted alike
		req.Params.InputResponses = InputResponseMap{}
	}
	nonObject := !argsAbsent && vBool("argumentsAreNoObject")
	if nonObject {
		// an array, a string, a number where the object is expected: invalid under every input schema (type object)
		req.Params.Arguments = [][]byte{vJSON([]any{"go"}), vJSON("go"), vJSON(42.0), vJSON(true)}[vChoice("nonObjectKind", 4)]
	}
	res, herr := th(context.Background(), req)
	if nonObject {
		vAssert(calls == 0, "C16.handler-not-run-on-invalid-input")
		vAssert(herr == nil && res != nil && res.IsError, "C16.invalid-input-is-a-tool-level-error")
		vReach("non-object")
		return
	}

	// ---- input side
	if len(env.events) >= 2 {
		vAssert(env.events[0] == "in.defaults" && env.events[1] == "in.validate", "C16.defaults-applied-before-validation")
	}
	if !env.inValid {
		vAssert(calls == 0, "C16.handler-not-run-on-invalid-input")
		vAssert(herr == nil && res != nil && res.IsError, "C16.invalid-input-is-a-tool-level-error")
		vReach("invalid-input")
		return
	}
	vAssert(calls == 1, "C16.handler-runs-once-on-valid-input")
	vAssert(zzHasDefaults(env.validatedIn), "C16.validated-value-includes-defaults")
	vAssert(gotIn != nil && zzHasDefaults(gotIn), "C16.handler-receives-the-defaulted-value")
	vAssert(len(gotIn) == len(env.validatedIn), "C16.handler-receives-exactly-the-validated-value")
	if !argsAbsent {
		vAssert(gotIn["q"] == any("go"), "C16.handler-receives-exactly-the-validated-value")
	}
	// ---- output side
	switch outcome {
	case 2:
		vAssert(herr == nil && res != nil && res.IsError, "C16.tool-error-embedded")
	case 3:
		vAssert(res == nil && herr != nil, "C16.protocol-error-passed-through")
	case 4:
		vAssert(herr == nil && res.StructuredContent == nil, "C16.input-requests-carry-no-structured-content")
	default:
		if !env.outValid {
			vAssert(res == nil && herr != nil, "C16.invalid-output-reported-as-error")
			vReach("invalid-output")
			return
		}
		vAssert(herr == nil && res != nil && !res.IsError, "C16.valid-output-returned")
		sc, _ := res.StructuredContent.(json.RawMessage)
		doc, _ := vJSONOf(sc).(map[string]any)
		vAssert(doc != nil && doc["answer"] == any(42.0), "C16.structured-content-is-the-handlers-output")
		_, hasDef := doc["__default"]
		vAssert(hasDef, "C16.structured-content-includes-output-defaults")
		vo, _ := env.validatedOut.(map[string]any)
		_, voDef := vo["__default"]
		vAssert(vo != nil && voDef && vo["answer"] == any(42.0), "C16.output-validated-after-defaults")
		if ownContent {
			vAssert(len(res.Content) == 1, "C16.own-content-kept")
		} else {
			vAssert(len(res.Content) == 1, "C16.text-fallback-added")
			tc, ok := res.Content[0].(*TextContent)
			vAssert(ok && tc.Text == string(sc), "C16.text-fallback-renders-the-structured-content")
		}
		vReach("structured")
	}
	vReach("end")
}

// isObjectJSON inspects JSON text; over uninterpreted JSON documents it is answered from the document's value.
func zzIsObjectJSON(data json.RawMessage) bool {
	_, isMap := vJSONOf(data).(map[string]any)
	return isMap
}

// The handler's typed input is decoded from exactly the validated document, member names matched exactly: a member
// whose name differs from a field's JSON name only in letter case is not that field (it passed validation as some
// unconstrained extra property), so it must not reach the handler as the field's value — nor override the validated one.
type zzTypedIn struct {
	UserID string `json:"userID"`
	Limit  string `json:"limit"`
}

func zzSetSchemaTyped(sfield *any, rfield **jsonschema.Resolved, cache *SchemaCache) (any, error) {
	return zzSetSchema(sfield, rfield, cache)
}
func zzTypeForTyped() reflect.Type { return nil }

func zzC16TypedInput() {
	env := &zzSchemaEnv{in: &jsonschema.Resolved{}, out: &jsonschema.Resolved{}}
	zzS = env
	env.inValid = true
	env.outValid = true
	env.outRootType = "object"
	var got zzTypedIn
	calls := 0
	h := func(ctx context.Context, req *CallToolRequest, in zzTypedIn) (*CallToolResult, map[string]any, error) {
		calls++
		got = in
		return nil, map[string]any{"ok": true}, nil
	}
	tool := &Tool{Name: "t", InputSchema: &jsonschema.Schema{Type: "object"}, OutputSchema: &jsonschema.Schema{Type: "object"}}
	_, th, err := toolForErr(tool, h, nil)
	vAssert(err == nil && th != nil, "C16.wrapper-built")
	user := vStringN("user", 2)
	args := map[string]any{}
	exact := vBool("exactMember")
	variant := vBool("caseVariantMember")
	if exact {
		args["userID"] = user
	}
	if variant {
		args["userid"] = "mallory" // validated only as an unconstrained extra property
		args["LIMIT"] = "1000"
	}
	req := &CallToolRequest{Params: &CallToolParamsRaw{Name: "t", Arguments: vJSON(args)}}
	_, herr := th(context.Background(), req)
	vAssert(herr == nil && calls == 1, "C16.handler-runs-once-on-valid-input")
	if exact {
		vAssert(got.UserID == user, "C16.typed-input-carries-the-validated-member")
	} else {
		vAssert(got.UserID == "", "C16.case-variant-member-is-not-the-field")
	}
	vAssert(got.Limit == "", "C16.case-variant-member-is-not-the-field")
	if variant {
		vReach("variant")
	}
	vReach("end")
}

// ---------------------------------------------------------------- C16: schema derivation and caching (setSchema)
//
// The resolved schema a tool's arguments (or output) are checked against is the resolution of that tool's own schema:
// the one derived from its Go type when it declared none, the *Schema it supplied, or the schema its raw/map form
// denotes — whatever the shared SchemaCache already holds for the same Go type or for other schemas. When the schema is
// derived from a pointer type, a usable (non-nil) zero value is returned on every path. The reflection-based inference
// and the resolver are stubs: ForType yields a fresh schema per call, Resolve a fresh Resolved remembering its schema,
// remarshal a fresh schema standing for the raw text.
type zzSetSchemaEnv struct {
	derived    []*jsonschema.Schema
	resolvedOf map[*jsonschema.Resolved]*jsonschema.Schema
	fromRaw    []*jsonschema.Schema
}

var zzSS *zzSetSchemaEnv

func zzForType(t reflect.Type, opts *jsonschema.ForOptions) (*jsonschema.Schema, error) {
	s := &jsonschema.Schema{Type: "object"}
	zzSS.derived = append(zzSS.derived, s)
	return s, nil
}
func zzResolve(s *jsonschema.Schema, opts *jsonschema.ResolveOptions) (*jsonschema.Resolved, error) {
	r := &jsonschema.Resolved{}
	zzSS.resolvedOf[r] = s
	return r, nil
}
func zzRemarshalSchema(from, to any) error {
	s := &jsonschema.Schema{Type: "object"}
	zzSS.fromRaw = append(zzSS.fromRaw, s)
	*(to.(**jsonschema.Schema)) = s
	return nil
}

// zzOneSetSchema runs setSchema once for a tool whose schema field is of the given kind and checks the outcome.
// kind: 0 none declared, 1 a *Schema (shared = the pointer an earlier tool also used), 2 raw/map form.
func zzOneSetSchema(cache *SchemaCache, pointerType bool, kind int, shared *jsonschema.Schema, label string) {
	var sfield any
	var own *jsonschema.Schema
	switch kind {
	case 1:
		own = shared
		if own == nil {
			own = &jsonschema.Schema{Type: "object"}
		}
		sfield = own
	case 2:
		sfield = map[string]any{"type": "object"}
	}
	var rfield *jsonschema.Resolved
	nRaw, nDerived := len(zzSS.fromRaw), len(zzSS.derived)
	var zero any
	var err error
	if pointerType {
		zero, err = setSchema[*zzTypedIn](&sfield, &rfield, cache)
	} else {
		zero, err = setSchema[map[string]any](&sfield, &rfield, cache)
	}
	vAssert(err == nil && rfield != nil, label+".schema-set")
	against := zzSS.resolvedOf[rfield]
	switch kind {
	case 0:
		s, ok := sfield.(*jsonschema.Schema)
		vAssert(ok && s != nil && against == s, label+".checked-against-the-schema-it-publishes")
		isDerived := false
		for _, d := range zzSS.derived {
			if d == s {
				isDerived = true
			}
		}
		vAssert(isDerived, label+".undeclared-schema-is-derived-from-the-type")
		if cache == nil {
			vAssert(len(zzSS.derived) == nDerived+1, label+".derived-afresh-without-a-cache")
		}
	case 1:
		vAssert(sfield == any(own) && against == own, label+".checked-against-its-own-schema")
	case 2:
		vAssert(len(zzSS.fromRaw) == nRaw+1 && against == zzSS.fromRaw[nRaw], label+".checked-against-its-own-raw-schema")
	}
	if pointerType && kind == 0 {
		vAssert(zero != nil, label+".pointer-type-gets-a-usable-zero-value")
	}
	if !pointerType {
		vAssert(zero == nil, label+".no-zero-substitute-for-value-types")
	}
}

func zzC16SetSchema() {
	zzSS = &zzSetSchemaEnv{resolvedOf: map[*jsonschema.Resolved]*jsonschema.Schema{}}
	var cache *SchemaCache
	if vBool("sharedCache") {
		cache = NewSchemaCache()
	}
	shared := &jsonschema.Schema{Type: "object"}
	pick := func(tag string) (bool, int, *jsonschema.Schema) {
		ptr := vBool(tag + ".pointerType")
		kind := vChoice(tag+".schemaKind", 3)
		var sh *jsonschema.Schema
		if kind == 1 && vBool(tag+".sameSchemaPointerAsOthers") {
			sh = shared
		}
		return ptr, kind, sh
	}
	// earlier tools registered against the same cache (other tools of this server, or earlier servers sharing it)
	n := vChoice("earlierTools", 3)
	for i := 0; i < n; i++ {
		p, k, sh := pick(string([]byte{'e', byte('0' + i)}))
		zzOneSetSchema(cache, p, k, sh, "C16.schema.earlier")
	}
	p, k, sh := pick("t")
	zzOneSetSchema(cache, p, k, sh, "C16.schema")
	if cache != nil && n > 0 {
		vReach("warm-cache")
	}
	vReach("end")
}

// zzC16TypedNumber: "it receives exactly those values" for numbers — a typed handler with an int64 argument, any int64
// the client may send (the argument document is JSON text: every int64 is written exactly).
type zzTypedNum struct {
	ID int64 `json:"id"`
}

func zzC16TypedNumber() {
	env := &zzSchemaEnv{in: &jsonschema.Resolved{}, out: &jsonschema.Resolved{}}
	zzS = env
	env.inValid = true
	env.outValid = true
	env.outRootType = "object"
	var got zzTypedNum
	calls := 0
	h := func(ctx context.Context, req *CallToolRequest, in zzTypedNum) (*CallToolResult, map[string]any, error) {
		calls++
		got = in
		return nil, map[string]any{"ok": true}, nil
	}
	tool := &Tool{Name: "t", InputSchema: &jsonschema.Schema{Type: "object"}, OutputSchema: &jsonschema.Schema{Type: "object"}}
	_, th, err := toolForErr(tool, h, nil)
	vAssert(err == nil && th != nil, "C16.wrapper-built")
	id := vInt("id")
	req := &CallToolRequest{Params: &CallToolParamsRaw{Name: "t", Arguments: vJSON(map[string]any{"id": int64(id)})}}
	_, herr := th(context.Background(), req)
	vAssert(herr == nil && calls == 1, "C16.handler-runs-once-on-valid-input")
	vAssert(got.ID == int64(id), "C16.typed-input-carries-the-number-the-client-sent")
	vReach("end")
}

// C16 for the documented special case In == any without an InputSchema: the tool advertises {"type":"object"} and its
// arguments are validated against that like any other tool's — an array, a string, a number never reach the handler;
// absent or null arguments reach it as the empty object.
func zzC16AnyInput() {
	env := &zzSchemaEnv{in: &jsonschema.Resolved{}, out: &jsonschema.Resolved{}}
	zzS = env
	env.inValid, env.outValid, env.outRootType = true, true, "object"
	zzSS = &zzSetSchemaEnv{resolvedOf: map[*jsonschema.Resolved]*jsonschema.Schema{}}
	calls := 0
	var gotIn any
	h := func(ctx context.Context, req *CallToolRequest, in any) (*CallToolResult, any, error) {
		calls++
		gotIn = in
		return &CallToolResult{}, nil, nil
	}
	tool := &Tool{Name: "t"}
	_, th, err := toolForErr[any, any](tool, h, nil)
	vAssert(err == nil && th != nil, "C16.any.wrapper-built")
	req := &CallToolRequest{Params: &CallToolParamsRaw{Name: "t"}}
	kind := vChoice("arguments", 4)
	switch kind {
	case 1:
		req.Params.Arguments = json.RawMessage("null")
	case 2:
		req.Params.Arguments = vJSON(map[string]any{"q": "go"})
	case 3:
		req.Params.Arguments = [][]byte{vJSON([]any{"go"}), vJSON("go"), vJSON(42.0), vJSON(true)}[vChoice("nonObjectKind", 4)]
	}
	res, herr := th(context.Background(), req)
	if kind == 3 {
		vAssert(calls == 0, "C16.handler-not-run-on-invalid-input")
		vAssert(herr == nil && res != nil && res.IsError, "C16.invalid-input-is-a-tool-level-error")
		vReach("non-object")
	} else {
		vAssert(calls == 1 && herr == nil && res != nil && !res.IsError, "C16.any.valid-input-runs-the-handler")
		m, isMap := gotIn.(map[string]any)
		vAssert(isMap && m != nil, "C16.any.handler-receives-an-object")
		if kind == 2 {
			vAssert(m["q"] == "go", "C16.any.handler-receives-exactly-the-arguments")
		}
		// (absent or null arguments: an object holding whatever defaults the schema stub applies — never nil)
		vReach("served")
	}
	vReach("end")
}
