package mcp

import (
	"github.com/google/jsonschema-go/jsonschema"
	"errors"
	"context"
	"log/slog"
	"time"

	"github.com/modelcontextprotocol/go-sdk/jsonrpc"
)

// C18 — change notifications: debounce timer (history harness with a ghost timer), fan-out sets, and the
// client-side result cache under concurrency (bounded interleaving search over the real cache code).

type zzC18Env struct {
	legacy      [][]*ServerSession
	subscribed  []map[*ServerSession]jsonrpc.ID
	methods     []string
	clientNotified [][]*ClientSession
}

var zzC18 *zzC18Env

func zzNotifyLegacy(sessions []*ServerSession, method string, params Params, logger *slog.Logger) {
	zzC18.legacy = append(zzC18.legacy, sessions)
	zzC18.methods = append(zzC18.methods, method)
}
func zzNotifySubscribed(s *Server, subscribers map[*ServerSession]jsonrpc.ID, method string, makeParams func() Params) {
	zzC18.subscribed = append(zzC18.subscribed, subscribers)
}

func zzLegacySession(srv *Server) *ServerSession {
	ss := &ServerSession{server: srv}
	ss.state.InitializeParams = &InitializeParams{ProtocolVersion: protocolVersion20250618}
	return ss
}
func zzNewProtoSession(srv *Server) *ServerSession {
	ss := &ServerSession{server: srv}
	ss.state.InitializeParams = &InitializeParams{ProtocolVersion: protocolVersion20260728}
	return ss
}

// H1: a history of feature changes, sessions coming and going and the debounce timer firing; the timer is a
// ghost object (armed flag). Invariant: a notification is owed (a change happened while a session was
// connected and no delivery round has started since) only while the timer is armed.
func zzC18Debounce() {
	tenv := &zzC11Env{timers: map[*time.Timer]*zzTimer{}}
	zzC11 = tenv
	env := &zzC18Env{}
	zzC18 = env
	srv := NewServer(&Implementation{Name: "s", Version: "v"}, nil)
	capOff := vBool("listChangedDisabled")
	if capOff {
		srv.opts.Capabilities = &ServerCapabilities{Tools: &ToolCapabilities{ListChanged: false}}
	}
	legacy := zzLegacySession(srv)
	modernSub := zzNewProtoSession(srv)   // 2026-07-28 session with a tools subscription
	modernNoSub := zzNewProtoSession(srv) // 2026-07-28 session without one
	connected := false
	owed := false
	steps := vParam("steps")
	armedTimer := func() *zzTimer {
		for _, t := range tenv.timers {
			if t.armed {
				return t
			}
		}
		return nil
	}
	for i := 0; i < steps; i++ {
		switch vChoice("step", 5) {
		case 0: // a feature change that really changes something
			srv.changeAndNotify(notificationToolListChanged, func() bool { return true })
			if connected && !capOff {
				owed = true
			}
		case 1: // a no-op change
			srv.changeAndNotify(notificationToolListChanged, func() bool { return false })
		case 2: // sessions connect
			if !connected {
				srv.sessions = []*ServerSession{legacy, modernSub, modernNoSub}
				srv.toolChangeSubscriptions[modernSub] = jsonrpc.ID{}
				connected = true
			}
		case 3: // all sessions leave
			if connected {
				srv.disconnect(legacy)
				srv.disconnect(modernSub)
				srv.disconnect(modernNoSub)
				connected = false
				owed = false // nobody left to owe anything to
			}
		case 4: // the debounce timer fires
			if t := armedTimer(); t != nil {
				t.armed = false
				n := len(env.legacy)
				t.f()
				vAssert(len(env.legacy) == n+1 && len(env.subscribed) == n+1, "C18.timer-fires-one-delivery-round")
				// the round reaches every legacy session connected now and exactly the subscribed modern ones
				gotLegacy, gotSub := env.legacy[n], env.subscribed[n]
				if connected {
					vAssert(len(gotLegacy) == 1 && gotLegacy[0] == legacy, "C18.legacy-sessions-all-notified")
					_, subIn := gotSub[modernSub]
					_, noSubIn := gotSub[modernNoSub]
					vAssert(subIn && !noSubIn && len(gotSub) == 1, "C18.modern-sessions-notified-iff-subscribed")
					vReach("delivered")
				} else {
					vAssert(len(gotLegacy) == 0 && len(gotSub) == 0, "C18.no-delivery-to-departed-sessions")
				}
				owed = false
			}
		}
		vAssert(!capOff || armedTimer() == nil, "C18.capability-disabled-never-arms")
		vAssert(!owed || armedTimer() != nil, "C18.owed-notification-has-an-armed-timer")
		nArmed := 0
		for _, t := range tenv.timers {
			if t.armed {
				nArmed++
			}
		}
		vAssert(nArmed <= 1, "C18.at-most-one-armed-timer-per-kind")
	}
	vReach("end")
}

// H2: resource-updated notifications reach exactly the sessions subscribed to that URI.
func zzC18ResourceUpdated() {
	env := &zzC18Env{}
	zzC18 = env
	srv := NewServer(&Implementation{Name: "s", Version: "v"}, nil)
	a, b, c := zzLegacySession(srv), zzNewProtoSession(srv), zzLegacySession(srv)
	srv.sessions = []*ServerSession{a, b, c}
	sub := func(uri string, ss *ServerSession, on bool) {
		if !on {
			return
		}
		if srv.resourceSubscriptions[uri] == nil {
			srv.resourceSubscriptions[uri] = map[*ServerSession]jsonrpc.ID{}
		}
		srv.resourceSubscriptions[uri][ss] = jsonrpc.ID{}
	}
	aX, bX, cX := vBool("aOnX"), vBool("bOnX"), vBool("cOnX")
	sub("file:///x", a, aX)
	sub("file:///x", b, bX)
	sub("file:///x", c, cX)
	sub("file:///y", a, vBool("aOnY"))
	sub("file:///y", b, vBool("bOnY"))
	err := srv.ResourceUpdated(context.Background(), &ResourceUpdatedNotificationParams{URI: "file:///x"})
	vAssert(err == nil, "C18.updated.no-error")
	in := func(ss *ServerSession) bool {
		for _, l := range env.legacy {
			for _, s := range l {
				if s == ss {
					return true
				}
			}
		}
		for _, m := range env.subscribed {
			if _, ok := m[ss]; ok {
				return true
			}
		}
		return false
	}
	vAssert(in(a) == aX && in(b) == bX && in(c) == cX, "C18.updated.exactly-the-subscribers-of-that-uri")
	vReach("end")
}

// H2': the subscription table driven by the real subscribe/unsubscribe handlers over a short symbolic history, then
// one ResourceUpdated: the recipients are exactly the sessions whose last action on that URI was a subscribe.
func zzC18SubscribeHistory() {
	env := &zzC18Env{}
	zzC18 = env
	opts := &ServerOptions{
		SubscribeHandler:   func(context.Context, *SubscribeRequest) error { return nil },
		UnsubscribeHandler: func(context.Context, *UnsubscribeRequest) error { return nil },
	}
	srv := NewServer(&Implementation{Name: "s", Version: "v"}, opts)
	a, b := zzLegacySession(srv), zzNewProtoSession(srv)
	srv.sessions = []*ServerSession{a, b}
	sess := []*ServerSession{a, b}
	uris := []string{"file:///x", "file:///y"}
	var onX, gone [2]bool
	ctx := context.WithValue(context.Background(), idContextKey{}, jsonrpc.ID(zzID7()))
	steps := vParam("steps")
	for i := 0; i < steps; i++ {
		si, ui := vChoice("session", 2), vChoice("uri", 2)
		vAssume(!gone[si])
		act := vChoice("action", 3)
		if act == 2 {
			// the session ends: whatever it was subscribed to, it is no subscriber of anything from here on
			srv.disconnect(sess[si])
			gone[si] = true
			onX[si] = false
			continue
		}
		if act == 0 {
			_, err := srv.subscribe(ctx, &SubscribeRequest{Session: sess[si], Params: &SubscribeParams{URI: uris[ui]}})
			vAssert(err == nil, "C18.subscribe.ok")
			if ui == 0 {
				onX[si] = true
			}
		} else {
			_, err := srv.unsubscribe(ctx, &UnsubscribeRequest{Session: sess[si], Params: &UnsubscribeParams{URI: uris[ui]}})
			vAssert(err == nil, "C18.unsubscribe.ok")
			if ui == 0 {
				onX[si] = false
			}
		}
	}
	err := srv.ResourceUpdated(context.Background(), &ResourceUpdatedNotificationParams{URI: "file:///x"})
	vAssert(err == nil, "C18.updated.no-error")
	in := func(ss *ServerSession) bool {
		for _, l := range env.legacy {
			for _, s := range l {
				if s == ss {
					return true
				}
			}
		}
		for _, m := range env.subscribed {
			if _, ok := m[ss]; ok {
				return true
			}
		}
		return false
	}
	vAssert(in(a) == onX[0] && in(b) == onX[1], "C18.updated.exactly-the-current-subscribers")
	if !onX[0] && !onX[1] && !gone[0] && !gone[1] {
		// (unsubscribe drops a URI's entry with its last subscriber; disconnect leaves an empty one behind, which
		// notifies nobody and is not part of the property)
		_, stale := srv.resourceSubscriptions["file:///x"]
		vAssert(!stale, "C18.unsubscribe.empty-uri-entry-dropped")
	}
	vReach("end")
}

// H3: client cache vs list_changed, as a bounded interleaving search over the real ListTools,
// callToolChangedHandler and methodCache code. The "server" is a version counter; a list RPC returns the
// version current when the server answered.
var zzSrvVersion int

func zzListRPC(ctx context.Context, method string, req Request) (Result, error) {
	v := zzSrvVersion // the server answers with its current state ...
	vYield()          // ... and the answer travels back while other things happen
	return &ListToolsResult{Tools: []*Tool{{Name: string([]byte{'v', byte('0' + v)})}}, Cacheable: Cacheable{TTLMs: 60000}}, nil
}
func zzFilterTools(logger *slog.Logger, tools []*Tool) []*Tool { return tools }

func zzC18Cache() {
	c := &Client{}
	c.sendingMethodHandler_ = zzListRPC
	cs := &ClientSession{client: c}
	cs.state.InitializeResult = &InitializeResult{ProtocolVersion: protocolVersion20260728}
	zzSrvVersion = 1
	handled := 0
	listerDone, overlapped := false, false
	inHandlerName := ""
	c.opts.ToolListChangedHandler = func(ctx context.Context, _ *ToolListChangedRequest) {
		handled = zzSrvVersion
		// the usual reaction: re-list from inside the handler
		if res, err := cs.ListTools(ctx, &ListToolsParams{}); err == nil && len(res.Tools) == 1 {
			inHandlerName = res.Tools[0].Name
		}
	}
	vGo(func() { // an application goroutine listing tools
		cs.ListTools(context.Background(), &ListToolsParams{})
		listerDone = true
	})
	vGo(func() { // the server changes its tool set and the client handles the notification
		overlapped = !listerDone // the application's list call was still in flight when the change happened
		zzSrvVersion = 2
		c.callToolChangedHandler(context.Background(), &ToolListChangedRequest{Session: cs, Params: &ToolListChangedParams{}})
	})
	vJoin()
	vAssert(handled == 2, "C18.cache.handler-ran")
	vAssert(inHandlerName == "v2", "C18.cache.list-inside-handler-is-fresh")
	// a list issued after the notification has been handled reflects state at least as new as the change
	res, err := cs.ListTools(context.Background(), &ListToolsParams{})
	vAssert(err == nil && len(res.Tools) == 1, "C18.cache.list-ok")
	vAssert(res.Tools[0].Name == "v2", "C18.cache.list-after-handled-change-is-fresh")
	if !overlapped {
		vReach("sequential")
	} else {
		vReach("overlapped")
	}
	vReach("end")
}

func zzNotifyLegacyRU(sessions []*ServerSession, method string, params *ResourceUpdatedNotificationParams, logger *slog.Logger) {
	zzC18.legacy = append(zzC18.legacy, sessions)
	zzC18.methods = append(zzC18.methods, method)
}

func zzID7() jsonrpc.ID {
	id, _ := jsonrpc.MakeID(float64(7))
	return id
}

// H4: the 2026-07-28 subscriptions/listen handler. While a listen is open its subscriptions are registered (so the
// notifications reach it); however it ends — a URI refused by the SubscribeHandler, the acknowledgement undeliverable,
// cancellation — nothing of it stays behind in the server's subscription tables.
var zzAckSeen func()
var zzAckFails bool

func zzNotifySubscriptionAcked(ss *ServerSession, ctx context.Context, params *SubscriptionsAcknowledgedParams) error {
	if zzAckSeen != nil {
		zzAckSeen()
	}
	if zzAckFails {
		return errors.New("write: connection reset")
	}
	return nil
}

func zzAllCapabilities(s *Server) *ServerCapabilities {
	return &ServerCapabilities{
		Tools:     &ToolCapabilities{ListChanged: true},
		Prompts:   &PromptCapabilities{ListChanged: true},
		Resources: &ResourceCapabilities{ListChanged: true, Subscribe: true},
	}
}

func zzC18Listen() {
	nURIs := vChoice("uris", 3)
	refuse := vChoice("refusedURI", 3) // 0: none, k: the k-th URI is refused by the application's SubscribeHandler
	uris := []string{"file:///x", "file:///y"}[:nURIs]
	opts := &ServerOptions{
		SubscribeHandler: func(ctx context.Context, req *SubscribeRequest) error {
			if refuse > 0 && refuse <= nURIs && req.Params.URI == uris[refuse-1] {
				return errors.New("not allowed to watch this resource")
			}
			return nil
		},
		UnsubscribeHandler: func(context.Context, *UnsubscribeRequest) error { return nil },
	}
	srv := NewServer(&Implementation{Name: "s", Version: "v"}, opts)
	ss := zzNewProtoSession(srv)
	other := zzNewProtoSession(srv)
	srv.sessions = []*ServerSession{ss, other}
	// another session's subscriptions must survive whatever happens to this listen
	srv.toolChangeSubscriptions[other] = zzID7()
	srv.resourceSubscriptions["file:///x"] = map[*ServerSession]jsonrpc.ID{other: zzID7()}
	want := &NotificationSubscriptions{ToolsListChanged: vBool("tools"), PromptsListChanged: vBool("prompts"), ResourcesListChanged: vBool("resources"), ResourceSubscriptions: uris}
	// the session may hold another listen already (the one opened at connect for list-changed notifications; this one
	// being a later Subscribe): what that one registered is not this one's to remove (defect D23, fixed)
	elder := vBool("sessionHoldsAnotherListen")
	if elder {
		id9, _ := jsonrpc.MakeID(float64(9))
		srv.toolChangeSubscriptions[ss] = id9
		srv.promptChangeSubscriptions[ss] = id9
		srv.resourceChangeSubscriptions[ss] = id9
	}
	zzAckFails = vBool("ackUndeliverable")
	acked := false
	zzAckSeen = func() {
		acked = true
		// when the acknowledgement goes out, everything acknowledged is in place
		_, t := srv.toolChangeSubscriptions[ss]
		vAssert(t == (want.ToolsListChanged || elder), "C18.listen.registered-before-acknowledged")
		for _, u := range uris {
			_, in := srv.resourceSubscriptions[u][ss]
			vAssert(in, "C18.listen.registered-before-acknowledged")
		}
	}
	ctx, cancel := context.WithCancel(context.WithValue(context.Background(), idContextKey{}, zzID7()))
	cancel() // the listen is cancelled as soon as it parks (Close, or the peer's notifications/cancelled)
	_, err := srv.subscriptionsListen(ctx, &SubscriptionsListenRequest{Session: ss, Params: &SubscriptionsListenParams{Notifications: want}})
	refused := refuse > 0 && refuse <= nURIs
	vAssert((err != nil) == (refused || zzAckFails), "C18.listen.fails-iff-refused-or-unacknowledged")
	vAssert(acked == !refused, "C18.listen.acknowledged-iff-accepted")
	// nothing of this listen stays behind
	_, t := srv.toolChangeSubscriptions[ss]
	_, p := srv.promptChangeSubscriptions[ss]
	_, r := srv.resourceChangeSubscriptions[ss]
	if elder {
		// kinds this listen did not ask for still belong to the other listen
		vAssert((t || want.ToolsListChanged) && (p || want.PromptsListChanged) && (r || want.ResourcesListChanged), "C18.listen.ended-listen-leaves-the-sessions-other-listen-alone")
		vReach("elder-listen")
	} else {
		vAssert(!t && !p && !r, "C18.listen.ended-listen-leaves-no-subscription")
	}
	for _, m := range srv.resourceSubscriptions {
		_, in := m[ss]
		vAssert(!in, "C18.listen.ended-listen-leaves-no-subscription")
	}
	_, ot := srv.toolChangeSubscriptions[other]
	_, ox := srv.resourceSubscriptions["file:///x"][other]
	vAssert(ot && ox, "C18.listen.other-sessions-untouched")
	if refused {
		vReach("refused")
	}
	vReach("end")
}

// C10 (and C18): a fan-out issued from inside a request handler. The handler's context names the request being
// served in session A; what is sent to OTHER sessions must not travel with that context — the streamable server
// routes a message by the request id found in its context, so session B would put the notification on the exchange
// of its own request with the same id (or drop it), instead of its standalone stream.
type zzFanRec struct {
	to      []*ServerSession
	related []bool // the context the message was sent with names a request
	methods []string
}

var zzFan *zzFanRec

func zzFanSend(ctx context.Context, method string, req Request) (Result, error) {
	id, ok := ctx.Value(idContextKey{}).(jsonrpc.ID)
	zzFan.to = append(zzFan.to, req.GetSession().(*ServerSession))
	zzFan.related = append(zzFan.related, ok && id.IsValid())
	zzFan.methods = append(zzFan.methods, method)
	return nil, nil
}

func zzC10FanOut() {
	rec := &zzFanRec{}
	zzFan = rec
	srv := NewServer(&Implementation{Name: "s", Version: "v"}, nil)
	srv.sendingMethodHandler_ = zzFanSend
	legacy, modern, bystander := zzLegacySession(srv), zzNewProtoSession(srv), zzLegacySession(srv)
	srv.sessions = []*ServerSession{legacy, modern, bystander}
	srv.resourceSubscriptions["file:///x"] = map[*ServerSession]jsonrpc.ID{legacy: jsonrpc.ID{}, modern: zzID7()}
	// the caller is a request handler of some session: its context carries that request's id (and may be cancelled
	// as soon as the handler returns)
	ctx := context.Background()
	fromHandler := vBool("calledFromARequestHandler")
	if fromHandler {
		ctx = context.WithValue(ctx, idContextKey{}, zzID7())
	}
	err := srv.ResourceUpdated(ctx, &ResourceUpdatedNotificationParams{URI: "file:///x"})
	vAssert(err == nil, "C18.updated.no-error")
	vAssert(len(rec.to) == 2, "C18.updated.exactly-the-subscribers-of-that-uri")
	for i, s := range rec.to {
		vAssert(s == legacy || s == modern, "C18.updated.exactly-the-subscribers-of-that-uri")
		vAssert(rec.methods[i] == notificationResourceUpdated, "C18.updated.exactly-the-subscribers-of-that-uri")
		vAssert(!rec.related[i], "C10.fan-out-not-tied-to-the-callers-request")
	}
	vReach("end")
}

// H3': the same interleaving search for the other cached methods: prompts/list, resources/list,
// resources/templates/list (both invalidated by resources/list_changed) and resources/read (invalidated per URI by
// resources/updated). A version counter stands for the server's state; every answer names the version current when
// the server produced it.
var zzKindOfCache int

func zzVersionName() string { return string([]byte{'v', byte('0' + zzSrvVersion)}) }

func zzKindsRPC(ctx context.Context, method string, req Request) (Result, error) {
	name := zzVersionName()
	vYield()
	c := Cacheable{TTLMs: 60000}
	switch method {
	case methodListPrompts:
		return &ListPromptsResult{Prompts: []*Prompt{{Name: name}}, Cacheable: c}, nil
	case methodListResources:
		return &ListResourcesResult{Resources: []*Resource{{URI: name}}, Cacheable: c}, nil
	case methodListResourceTemplates:
		return &ListResourceTemplatesResult{ResourceTemplates: []*ResourceTemplate{{URITemplate: name}}, Cacheable: c}, nil
	case methodReadResource:
		return &ReadResourceResult{Contents: []*ResourceContents{{URI: "file:///x", Text: name}}, Cacheable: c}, nil
	}
	vUnsupported("unexpected method")
	return nil, nil
}

// zzFetch issues the list/read of the chosen kind through the real session method and returns the version it names.
func zzFetch(cs *ClientSession, ctx context.Context) string {
	switch zzKindOfCache {
	case 0:
		if r, err := cs.ListPrompts(ctx, &ListPromptsParams{}); err == nil && len(r.Prompts) == 1 {
			return r.Prompts[0].Name
		}
	case 1:
		if r, err := cs.ListResources(ctx, &ListResourcesParams{}); err == nil && len(r.Resources) == 1 {
			return r.Resources[0].URI
		}
	case 2:
		if r, err := cs.ListResourceTemplates(ctx, &ListResourceTemplatesParams{}); err == nil && len(r.ResourceTemplates) == 1 {
			return r.ResourceTemplates[0].URITemplate
		}
	case 3:
		if r, err := cs.ReadResource(ctx, &ReadResourceParams{URI: "file:///x"}); err == nil && len(r.Contents) == 1 {
			return r.Contents[0].Text
		}
	}
	return ""
}

func zzC18CacheKinds() {
	c := &Client{}
	c.sendingMethodHandler_ = zzKindsRPC
	cs := &ClientSession{client: c}
	cs.state.InitializeResult = &InitializeResult{ProtocolVersion: protocolVersion20260728}
	zzSrvVersion = 1
	zzKindOfCache = vChoice("kind", 4)
	handled := 0
	inHandler := ""
	listerDone, overlapped := false, false
	react := func(ctx context.Context) {
		handled = zzSrvVersion
		inHandler = zzFetch(cs, ctx) // the usual reaction: re-fetch from inside the handler
	}
	c.opts.PromptListChangedHandler = func(ctx context.Context, _ *PromptListChangedRequest) { react(ctx) }
	c.opts.ResourceListChangedHandler = func(ctx context.Context, _ *ResourceListChangedRequest) { react(ctx) }
	c.opts.ResourceUpdatedHandler = func(ctx context.Context, _ *ResourceUpdatedNotificationRequest) { react(ctx) }
	if vBool("cacheWarm") {
		vAssert(zzFetch(cs, context.Background()) == "v1", "C18.kinds.first-fetch")
		vAssert(zzFetch(cs, context.Background()) == "v1", "C18.kinds.second-fetch")
	}
	vGo(func() { // an application goroutine fetching
		zzFetch(cs, context.Background())
		listerDone = true
	})
	vGo(func() { // the server changes and the client handles the notification
		overlapped = !listerDone
		zzSrvVersion = 2
		ctx := context.Background()
		switch zzKindOfCache {
		case 0:
			c.callPromptChangedHandler(ctx, &PromptListChangedRequest{Session: cs, Params: &PromptListChangedParams{}})
		case 1, 2:
			c.callResourceChangedHandler(ctx, &ResourceListChangedRequest{Session: cs, Params: &ResourceListChangedParams{}})
		case 3:
			c.callResourceUpdatedHandler(ctx, &ResourceUpdatedNotificationRequest{Session: cs, Params: &ResourceUpdatedNotificationParams{URI: "file:///x"}})
		}
	})
	vJoin()
	vAssert(handled == 2, "C18.kinds.handler-ran")
	vAssert(inHandler == "v2", "C18.kinds.fetch-inside-handler-is-fresh")
	vAssert(zzFetch(cs, context.Background()) == "v2", "C18.kinds.fetch-after-handled-change-is-fresh")
	if overlapped {
		vReach("overlapped")
	} else {
		vReach("sequential")
	}
	vReach("end")
}

// ---------------------------------------------------------------- C18: the capability gates
//
// "...and none when the capability is disabled": for every list-changed notification kind and every way the
// capability can be configured (no capabilities given, the section absent, listChanged true or false; on the client the
// deprecated Roots value and RootsV2, RootsV2 taking precedence), shouldSendListChangedNotification says yes exactly
// when the notification is not explicitly disabled — and a feature change then reaches the sessions, or nobody.
func zzC18CapabilityGates() {
	if vBool("serverSide") {
		srv := NewServer(&Implementation{Name: "s", Version: "v"}, nil)
		kinds := []string{notificationToolListChanged, notificationPromptListChanged, notificationResourceListChanged}
		k := vChoice("notification", 3)
		cfg := vChoice("capabilities", 4) // 0 none given, 1 section absent, 2 listChanged false, 3 listChanged true
		on := vBool("otherSectionsEnabled")
		if cfg > 0 {
			caps := &ServerCapabilities{}
			// the other two sections are configured independently and must not matter
			if k != 0 {
				caps.Tools = &ToolCapabilities{ListChanged: on}
			}
			if k != 1 {
				caps.Prompts = &PromptCapabilities{ListChanged: on}
			}
			if k != 2 {
				caps.Resources = &ResourceCapabilities{ListChanged: on}
			}
			if cfg >= 2 {
				switch k {
				case 0:
					caps.Tools = &ToolCapabilities{ListChanged: cfg == 3}
				case 1:
					caps.Prompts = &PromptCapabilities{ListChanged: cfg == 3}
				case 2:
					caps.Resources = &ResourceCapabilities{ListChanged: cfg == 3}
				}
			}
			srv.opts.Capabilities = caps
		}
		got := srv.shouldSendListChangedNotification(kinds[k])
		vAssert(got == (cfg != 2), "C18.gate.server-notifies-unless-explicitly-disabled")
		if cfg == 2 {
			vReach("disabled")
		}
		vReach("end")
		return
	}
	c := NewClient(&Implementation{Name: "c", Version: "v"}, nil)
	cfg := vChoice("capabilities", 5) // 0 none given, 1 only deprecated Roots false, 2 deprecated Roots true, 3 RootsV2 false (Roots true), 4 RootsV2 true (Roots false)
	switch cfg {
	case 1:
		c.opts.Capabilities = &ClientCapabilities{}
	case 2:
		caps := &ClientCapabilities{}
		caps.Roots.ListChanged = true
		c.opts.Capabilities = caps
	case 3:
		caps := &ClientCapabilities{RootsV2: &RootCapabilities{ListChanged: false}}
		caps.Roots.ListChanged = true
		c.opts.Capabilities = caps
	case 4:
		c.opts.Capabilities = &ClientCapabilities{RootsV2: &RootCapabilities{ListChanged: true}}
	}
	want := cfg == 0 || cfg == 2 || cfg == 4
	vAssert(c.shouldSendListChangedNotification(notificationRootsListChanged) == want, "C18.gate.client-notifies-unless-explicitly-disabled")
	// and the change itself: AddRoots notifies the connected sessions iff the gate says so
	cs := &ClientSession{client: c}
	c.sessions = []*ClientSession{cs}
	zzC18 = &zzC18Env{}
	c.AddRoots(&Root{URI: "file:///r"})
	if want {
		vAssert(len(zzC18.clientNotified) == 1 && len(zzC18.clientNotified[0]) == 1 && zzC18.clientNotified[0][0] == cs, "C18.gate.roots-change-notifies-every-session")
	} else {
		n := 0
		for _, s := range zzC18.clientNotified {
			n += len(s)
		}
		vAssert(n == 0, "C18.gate.disabled-capability-notifies-nobody")
		vReach("disabled")
	}
	vReach("end")
}

func zzNotifyClientSessions(sessions []*ClientSession, method string, params Params, logger *slog.Logger) {
	zzC18.clientNotified = append(zzC18.clientNotified, sessions)
}

// zzC18HandshakeEra (D11): a session that went through the initialize handshake is a legacy session whatever revision
// the client asked for — the handshake answers 2026-07-28 and anything newer or unknown with the latest legacy
// version — and is treated as one: it is among the recipients of list-changed and resource-updated notifications
// without subscriptions/listen, and the server may send it requests.
func zzC18HandshakeEra() {
	env := &zzC18Env{}
	zzC18 = env
	srv := NewServer(&Implementation{Name: "s", Version: "v"}, &ServerOptions{SubscribeHandler: func(context.Context, *SubscribeRequest) error { return nil }, UnsubscribeHandler: func(context.Context, *UnsubscribeRequest) error { return nil }})
	ss := &ServerSession{server: srv}
	asked := vStringAmong("asked", "", "1999-01-01", protocolVersion20241105, protocolVersion20250326, protocolVersion20250618, protocolVersion20251125, protocolVersion20260728, "2026-07-29", "2099-01-01")
	res, err := ss.initialize(context.Background(), &InitializeParams{ProtocolVersion: asked})
	vAssert(err == nil && res != nil, "C07.handshake-answers")
	vAssert(res.ProtocolVersion < protocolVersion20260728 && zzIsSupported(res.ProtocolVersion), "C07.handshake-yields-a-supported-legacy-version")
	srv.sessions = []*ServerSession{ss}
	ctx := context.WithValue(context.Background(), idContextKey{}, jsonrpc.ID(zzID7()))
	_, err = srv.subscribe(ctx, &SubscribeRequest{Session: ss, Params: &SubscribeParams{URI: "file:///x"}})
	vAssert(err == nil, "C18.subscribe.ok")
	in := func() bool {
		for _, l := range env.legacy {
			for _, s := range l {
				if s == ss {
					return true
				}
			}
		}
		return false
	}
	srv.notifySessions(notificationToolListChanged)
	vAssert(in(), "C18.a-handshake-session-is-a-legacy-session-whatever-version-it-asked-for")
	env.legacy = nil
	srv.ResourceUpdated(context.Background(), &ResourceUpdatedNotificationParams{URI: "file:///x"})
	vAssert(in(), "C18.a-handshake-session-is-a-legacy-session-whatever-version-it-asked-for")
	vAssert(ss.assertServerInitiatedRequestAllowed(methodCreateMessage) == nil, "C18.a-handshake-session-is-a-legacy-session-whatever-version-it-asked-for")
	vReach("end")
}

// zzC18Mutators: the public mutators (AddTool/RemoveTools, AddPrompt/RemovePrompts, AddResource/RemoveResources) over a
// short history, with a legacy session connected. Every operation after which a list answer differs from before — a new
// name, a REPLACED definition under an existing name, a removal of something served — leaves a notification owed: the
// debounce timer of that kind is armed (or has fired since the change). Removing what is not there owes nothing.
func zzC18Mutators() {
	tenv := &zzC11Env{timers: map[*time.Timer]*zzTimer{}}
	zzC11 = tenv
	env := &zzC18Env{}
	zzC18 = env
	srv := NewServer(&Implementation{Name: "s", Version: "v"}, nil)
	legacy := zzLegacySession(srv)
	srv.sessions = []*ServerSession{legacy}
	th := func(context.Context, *CallToolRequest) (*CallToolResult, error) { return nil, nil }
	ph := func(context.Context, *GetPromptRequest) (*GetPromptResult, error) { return nil, nil }
	rh := func(context.Context, *ReadResourceRequest) (*ReadResourceResult, error) { return nil, nil }
	names := []string{"a", "b"}
	uris := []string{"file:///a", "file:///b"}
	var has [3][2]bool
	notif := []string{notificationToolListChanged, notificationPromptListChanged, notificationResourceListChanged}
	steps := vParam("steps")
	for i := 0; i < steps; i++ {
		kind, which := vChoice("kind", 3), vChoice("which", 2)
		add := vBool("add")
		version := string([]byte{'v', byte('0' + i)}) // a re-added feature comes with a new description
		before := len(env.methods)
		armedBefore := srv.pendingNotifications[notif[kind]] != nil && tenv.timers[srv.pendingNotifications[notif[kind]]].armed
		switch {
		case kind == 0 && add:
			srv.AddTool(&Tool{Name: names[which], Description: version, InputSchema: &jsonschema.Schema{Type: "object"}}, th)
		case kind == 0:
			srv.RemoveTools(names[which])
		case kind == 1 && add:
			srv.AddPrompt(&Prompt{Name: names[which], Description: version}, ph)
		case kind == 1:
			srv.RemovePrompts(names[which])
		case kind == 2 && add:
			srv.AddResource(&Resource{URI: uris[which], Name: version}, rh)
		default:
			srv.RemoveResources(uris[which])
		}
		changed := add || has[kind][which]
		has[kind][which] = add
		t := srv.pendingNotifications[notif[kind]]
		armed := t != nil && tenv.timers[t] != nil && tenv.timers[t].armed
		if changed {
			vAssert(armed, "C18.every-change-of-the-served-set-or-of-a-definition-leaves-a-notification-owed")
			vReach("owed")
		} else {
			vAssert(armed == armedBefore, "C18.removing-what-is-not-there-owes-nothing")
		}
		vAssert(len(env.methods) == before, "C18.notifications-go-out-when-the-timer-fires-not-inline")
		// the timer may fire between operations
		if armed && vBool("timerFires") {
			tenv.timers[t].armed = false
			tenv.timers[t].f()
			vAssert(len(env.methods) == before+1 && env.methods[before] == notif[kind], "C18.timer-fires-one-delivery-round")
			vAssert(len(env.legacy[len(env.legacy)-1]) == 1, "C18.legacy-sessions-all-notified")
		}
	}
	vReach("end")
}

func zzNoAnnotationProblem(t *Tool) error { return nil }
