package mcp

import (
	"context"
	"errors"

	"github.com/modelcontextprotocol/go-sdk/internal/jsonrpc2"
	"github.com/modelcontextprotocol/go-sdk/jsonrpc"
)

// C02 (mcp layer): JSON-RPC batches on the newline-delimited transports, and the standard error codes.

var (
	zzBatchMsgs []jsonrpc.Message
	zzFrames    int
	zzFlushed   []*jsonrpc.Response
	zzSingles   []jsonrpc.Message
)

func zzReadBatchIO(data []byte) ([]jsonrpc.Message, bool, error) { return zzBatchMsgs, true, nil }
func zzMarshalResponses(msgs []*jsonrpc.Response) ([]byte, error) {
	zzFlushed = append([]*jsonrpc.Response(nil), msgs...)
	return []byte{'['}, nil
}
func zzEncodeOne(msg jsonrpc.Message) ([]byte, error) {
	zzSingles = append(zzSingles, msg)
	return []byte{'{'}, nil
}

type zzRWC struct{}

func (zzRWC) Read(p []byte) (int, error)  { return 0, nil }
func (zzRWC) Write(p []byte) (int, error) { zzFrames++; return len(p), nil }
func (zzRWC) Close() error                { return nil }

// One incoming batch of up to N well-formed messages (each a call with an arbitrary int64 or string id, or a
// notification), answered in an arbitrary order; then a second batch reusing an id that has been answered.
func zzC02Batch() {
	zzFrames, zzFlushed, zzSingles = 0, nil, nil
	ctx := context.Background()
	in := make(chan msgOrErr, 2)
	in <- msgOrErr{msg: []byte{'['}}
	t := &ioConn{rwc: zzRWC{}, incoming: in, closed: make(chan struct{}), protocolVersion: protocolVersion20250326}
	n := 1 + vChoice("batchLen", vParam("batch"))
	var calls []jsonrpc.ID
	zzBatchMsgs = nil
	for i := 0; i < n; i++ {
		r := &jsonrpc.Request{Method: "ping"}
		if vBool("isCall") {
			if vBool("stringID") {
				r.ID = jsonrpc2.StringID("s" + vStringLen("sid", 1))
			} else {
				r.ID = jsonrpc2.Int64ID(int64(vIntRange("id", -3, 3)))
			}
			for _, o := range calls {
				vAssume(o != r.ID) // ids within a batch are distinct (well-formed)
			}
			calls = append(calls, r.ID)
		} else {
			r.Method = "notifications/initialized"
		}
		zzBatchMsgs = append(zzBatchMsgs, r)
	}
	// Read hands out the messages one by one, in order
	for i := 0; i < n; i++ {
		m, err := t.Read(ctx)
		vAssert(err == nil, "C02.batch.well-formed-batch-read-without-error")
		vAssert(m == zzBatchMsgs[i], "C02.batch.messages-in-order")
	}
	// answer the calls in an arbitrary order
	order := append([]jsonrpc.ID(nil), calls...)
	for i := 0; i+1 < len(order); i++ {
		k := i + vChoice("next", len(order)-i)
		order[i], order[k] = order[k], order[i]
	}
	for i, id := range order {
		werr := t.Write(ctx, &jsonrpc.Response{ID: id, Result: vJSON(i)})
		vAssert(werr == nil, "C02.batch.response-write-succeeds")
		if i < len(order)-1 {
			vAssert(zzFrames == 0, "C02.batch.nothing-sent-before-the-batch-is-complete")
		}
	}
	if len(calls) > 0 {
		vAssert(zzFrames == 1, "C02.batch.one-reply-frame-once-every-call-is-answered")
		vAssert(len(zzFlushed) == len(calls), "C02.batch.one-response-per-call")
		for _, id := range calls {
			cnt := 0
			for _, r := range zzFlushed {
				if r != nil && r.ID == id {
					cnt++
				}
			}
			vAssert(cnt == 1, "C02.batch.each-call-answered-exactly-once-with-its-id")
		}
		vReach("answered")
		// an answered id may be reused: by a plain request ...
		zzFrames, zzSingles = 0, nil
		werr := t.Write(ctx, &jsonrpc.Response{ID: calls[0], Result: vJSON("again")})
		vAssert(werr == nil && zzFrames == 1 && len(zzSingles) == 1, "C02.batch.answered-id-reusable")
		// ... or inside a later batch
		in <- msgOrErr{msg: []byte{'['}}
		zzBatchMsgs = []jsonrpc.Message{&jsonrpc.Request{ID: calls[len(calls)-1], Method: "ping"}}
		_, err := t.Read(ctx)
		vAssert(err == nil, "C02.batch.answered-id-reusable")
	} else {
		vAssert(zzFrames == 0, "C02.batch.notifications-never-answered")
		vReach("only-notifications")
	}
	vReach("end")
}

// ---------------------------------------------------------------- error codes

type zzC02Rec struct{ reached []string }

var zzC02R *zzC02Rec

func zzC02Recorder(ctx context.Context, method string, req Request) (Result, error) {
	zzC02R.reached = append(zzC02R.reached, method)
	return &emptyResult{}, nil
}

// A request with an arbitrary method (every registered name and the gaps between them), id present or absent,
// params absent / JSON null / of the right type / undecodable, goes through the real handleReceive.
func zzC02Codes() {
	zzC02R = &zzC02Rec{}
	zzC06 = &zzC06Env{}
	srv := NewServer(&Implementation{Name: "s", Version: "v"}, nil)
	srv.receivingMethodHandler_ = zzC02Recorder
	ss := &ServerSession{server: srv}
	method := vStringAmong("method", zzC06Methods()...)
	known := vRankIsMember(method)
	req := &jsonrpc.Request{Method: method}
	isCall := vBool("hasID")
	if isCall {
		req.ID = jsonrpc2.Int64ID(7)
	}
	pkind := vChoice("params", 4)
	switch pkind {
	case 0: // absent
	case 1: // JSON null
		req.Params = []byte("null")
	case 2: // well typed
		if known {
			req.Params = zzParamsFor(method)
			if req.Params == nil {
				req.Params = zzEmptyParamsFor(method)
			}
		}
	case 3: // undecodable for every parameter type
		req.Params = vJSON("a JSON string where an object is expected")
	}
	_, err := handleReceive(context.Background(), ss, req)
	reached := len(zzC02R.reached) > 0
	var werr *jsonrpc.Error
	hasCode := errors.As(err, &werr)
	code := int64(0)
	if hasCode {
		code = werr.Code
	}
	if !known {
		vAssert(!reached && errors.Is(err, jsonrpc2.ErrNotHandled), "C02.codes.unknown-method-not-handled")
		vReach("unknown")
		return
	}
	info := serverMethodInfos[method]
	notifOnly := info.flags&notification != 0
	needParams := info.flags&missingParamsOK == 0
	switch {
	case notifOnly && isCall, !notifOnly && !isCall:
		vAssert(!reached && hasCode && code == jsonrpc.CodeInvalidRequest, "C02.codes.id-vs-method-kind-invalid-request")
		vReach("id-mismatch")
	case needParams && pkind <= 1:
		vAssert(!reached && hasCode && (code == jsonrpc.CodeInvalidRequest || code == jsonrpc.CodeInvalidParams), "C02.codes.missing-required-params")
		vReach("missing-params")
	case pkind == 3:
		vAssert(!reached && hasCode && code == jsonrpc.CodeInvalidParams, "C02.codes.undecodable-params-invalid-params")
		vReach("undecodable")
	default:
		vAssert(reached && err == nil, "C02.codes.well-formed-request-served")
		vReach("served")
	}
	vReach("end")
}


// zzEmptyParamsFor: a well-typed (empty) params document for methods whose params are optional.
func zzEmptyParamsFor(method string) []byte {
	switch method {
	case methodDiscover:
		return vJSON(&DiscoverParams{})
	case methodListPrompts:
		return vJSON(&ListPromptsParams{})
	case methodListTools:
		return vJSON(&ListToolsParams{})
	case methodListResources:
		return vJSON(&ListResourcesParams{})
	case methodListResourceTemplates:
		return vJSON(&ListResourceTemplatesParams{})
	case notificationCancelled:
		return vJSON(&CancelledParams{})
	case notificationRootsListChanged:
		return vJSON(&RootsListChangedParams{})
	}
	return nil
}
