package mcp

// C19-H4: content wire-struct round trips. Each content kind is built with symbolic field values, encoded by its real
// MarshalJSON (which fills an anonymous or shared wire struct and hands it to the JSON encoder) and decoded by the
// real unmarshalContent/contentFromWire. The JSON text in between is the engine's tag-directed struct conversion:
// members are matched by JSON name, omitempty members that are empty are not transmitted.

func zzSymMeta(tag string) Meta {
	switch vChoice(tag, 3) {
	case 0:
		return nil
	case 1:
		return Meta{"k": vStringN(tag+".v", 1)}
	}
	return Meta{"a": "1", "b": vStringN(tag+".v", 1)}
}

func zzSymAnn(tag string) *Annotations {
	if vBool(tag + ".present") {
		return &Annotations{LastModified: vStringN(tag+".lm", 1), Audience: []Role{"user"}}
	}
	return nil
}

func zzMetaEq(a, b Meta) bool {
	if len(a) != len(b) {
		return false
	}
	for k, v := range a {
		w, ok := b[k]
		if !ok || w != v {
			return false
		}
	}
	return true
}

func zzAnnEq(a, b *Annotations) bool {
	if a == nil || b == nil {
		return a == nil && b == nil
	}
	return a.LastModified == b.LastModified && len(a.Audience) == len(b.Audience) && (len(a.Audience) == 0 || a.Audience[0] == b.Audience[0])
}

func zzBytesEq(a, b []byte) bool {
	if len(a) != len(b) {
		return false
	}
	for i := range a {
		if a[i] != b[i] {
			return false
		}
	}
	return true
}

func zzRoundTrip(c Content) Content {
	data, err := c.MarshalJSON()
	vAssert(err == nil, "C19.content.marshal-ok")
	got, err := unmarshalContent(data, nil)
	vAssert(err == nil && len(got) == 1, "C19.content.unmarshal-ok")
	return got[0]
}

func zzSymBytes(tag string) []byte {
	switch vChoice(tag, 3) {
	case 0:
		return nil
	case 1:
		return []byte{}
	}
	return []byte{vByte(tag + ".0"), vByte(tag + ".1")}
}

func zzC19Content() {
	switch vChoice("kind", 7) {
	case 0:
		c := &TextContent{Text: vStringN("text", 2), Meta: zzSymMeta("meta"), Annotations: zzSymAnn("ann")}
		g, ok := zzRoundTrip(c).(*TextContent)
		vAssert(ok && g.Text == c.Text && zzMetaEq(g.Meta, c.Meta) && zzAnnEq(g.Annotations, c.Annotations), "C19.content.text-roundtrip")
	case 1:
		c := &ImageContent{Data: zzSymBytes("data"), MIMEType: vStringN("mime", 1), Meta: zzSymMeta("meta"), Annotations: zzSymAnn("ann")}
		g, ok := zzRoundTrip(c).(*ImageContent)
		vAssert(ok && zzBytesEq(g.Data, c.Data) && g.MIMEType == c.MIMEType && zzMetaEq(g.Meta, c.Meta) && zzAnnEq(g.Annotations, c.Annotations), "C19.content.image-roundtrip")
	case 2:
		c := &AudioContent{Data: zzSymBytes("data"), MIMEType: vStringN("mime", 1), Meta: zzSymMeta("meta"), Annotations: zzSymAnn("ann")}
		g, ok := zzRoundTrip(c).(*AudioContent)
		vAssert(ok && zzBytesEq(g.Data, c.Data) && g.MIMEType == c.MIMEType && zzMetaEq(g.Meta, c.Meta) && zzAnnEq(g.Annotations, c.Annotations), "C19.content.audio-roundtrip")
	case 3:
		c := &ResourceLink{URI: vStringN("uri", 1), Name: vStringN("name", 1), Title: vStringN("title", 1), Description: vStringN("desc", 1), MIMEType: vStringN("mime", 1),
			Meta: zzSymMeta("meta"), Annotations: zzSymAnn("ann")}
		if vBool("size") {
			n := int64(vInt("sizeval"))
			c.Size = &n
		}
		if vBool("icons") {
			c.Icons = []Icon{{Source: vStringN("icon", 1), MIMEType: "image/png", Sizes: []string{"48x48"}}}
		}
		g, ok := zzRoundTrip(c).(*ResourceLink)
		vAssert(ok && g.URI == c.URI && g.Name == c.Name && g.Title == c.Title && g.Description == c.Description && g.MIMEType == c.MIMEType, "C19.content.link-roundtrip")
		vAssert(zzMetaEq(g.Meta, c.Meta) && zzAnnEq(g.Annotations, c.Annotations), "C19.content.link-roundtrip")
		vAssert((g.Size == nil) == (c.Size == nil) && (c.Size == nil || *g.Size == *c.Size), "C19.content.link-size-roundtrip")
		vAssert(len(g.Icons) == len(c.Icons) && (len(c.Icons) == 0 || (g.Icons[0].Source == c.Icons[0].Source && g.Icons[0].MIMEType == "image/png" && len(g.Icons[0].Sizes) == 1)), "C19.content.link-icons-roundtrip")
	case 4:
		c := &EmbeddedResource{Resource: &ResourceContents{URI: vStringN("uri", 1), MIMEType: vStringN("mime", 1), Text: vStringN("text", 1), Blob: zzSymBytes("blob"), Meta: zzSymMeta("rmeta")},
			Meta: zzSymMeta("meta"), Annotations: zzSymAnn("ann")}
		g, ok := zzRoundTrip(c).(*EmbeddedResource)
		vAssert(ok && g.Resource != nil && g.Resource.URI == c.Resource.URI && g.Resource.MIMEType == c.Resource.MIMEType && g.Resource.Text == c.Resource.Text, "C19.content.embedded-roundtrip")
		vAssert(zzBytesEq(g.Resource.Blob, c.Resource.Blob) && zzMetaEq(g.Resource.Meta, c.Resource.Meta) && zzMetaEq(g.Meta, c.Meta) && zzAnnEq(g.Annotations, c.Annotations), "C19.content.embedded-roundtrip")
	case 5:
		c := &ToolUseContent{ID: vStringN("id", 1), Name: vStringN("name", 1), Meta: zzSymMeta("meta")}
		if vBool("input") {
			c.Input = map[string]any{"q": vStringN("arg", 1)}
		}
		g, ok := zzRoundTrip(c).(*ToolUseContent)
		vAssert(ok && g.ID == c.ID && g.Name == c.Name && zzMetaEq(g.Meta, c.Meta), "C19.content.tooluse-roundtrip")
		vAssert(len(g.Input) == len(c.Input) && (len(c.Input) == 0 || g.Input["q"] == c.Input["q"]), "C19.content.tooluse-input-roundtrip")
	case 6:
		c := &ToolResultContent{ToolUseID: vStringN("id", 1), IsError: vBool("isError"), Meta: zzSymMeta("meta")}
		n := vChoice("nested", 3)
		texts := []string{vStringN("t0", 1), vStringN("t1", 1)}
		for i := 0; i < n; i++ {
			c.Content = append(c.Content, &TextContent{Text: texts[i]})
		}
		if vBool("structured") {
			c.StructuredContent = map[string]any{"k": "v"}
		}
		g, ok := zzRoundTrip(c).(*ToolResultContent)
		vAssert(ok && g.ToolUseID == c.ToolUseID && g.IsError == c.IsError && zzMetaEq(g.Meta, c.Meta), "C19.content.toolresult-roundtrip")
		vAssert((g.StructuredContent == nil) == (c.StructuredContent == nil), "C19.content.toolresult-structured-roundtrip")
		vAssert(len(g.Content) == n, "C19.content.toolresult-nested-roundtrip")
		for i := 0; i < n && i < len(g.Content); i++ {
			t, isText := g.Content[i].(*TextContent)
			vAssert(isText && t.Text == texts[i], "C19.content.toolresult-nested-roundtrip")
		}
	}
	vReach("end")
}
