package mcp

import (
	"context"
	"errors"
	"fmt"

	"github.com/modelcontextprotocol/go-sdk/internal/jsonrpc2"
	"github.com/modelcontextprotocol/go-sdk/jsonrpc"
)

// C04/C05 at the mcp layer: call / cancelCall / canceller.Preempt and ServerSession.Close / Server.disconnect,
// with the jsonrpc2.Connection behind recorders (its own behaviour is decided in internal/jsonrpc2).

type zzConnRec struct {
	theCall   *jsonrpc2.AsyncCall
	retires   []error
	retiredAt int // number of Notify calls that had happened when Retire ran
	notifies  []zzNotifyRec
	cancels   []jsonrpc2.ID
	closes    int
	events    []string
	awaitKind int
	cancelCtx func()
	notifyErr error
	byDeadline, awaitOwnError bool
}

type zzNotifyRec struct {
	ctx    context.Context
	method string
	params any
	live   bool // the context was not cancelled when the notification was handed to the connection
}

var zzCR *zzConnRec

type zzCtxKey struct{}

func zzConnCallStub(c *jsonrpc2.Connection, ctx context.Context, method string, params any) *jsonrpc2.AsyncCall {
	zzCR.events = append(zzCR.events, "call")
	return zzCR.theCall
}
func zzAsyncCallID(ac *jsonrpc2.AsyncCall) jsonrpc2.ID { return jsonrpc2.Int64ID(9) }
func zzAwaitStub(ac *jsonrpc2.AsyncCall, ctx context.Context, result any) error {
	switch zzCR.awaitKind {
	case 0:
		return nil
	case 1:
		return fmt.Errorf("%w: shutting down", jsonrpc2.ErrClientClosing)
	case 2:
		return errors.New("peer said no")
	case 3:
		return fmt.Errorf("%w: EOF", jsonrpc2.ErrServerClosing)
	}
	// the caller's context ends while waiting (the peer never answers): by cancellation or because its deadline passes;
	// Await reports the context's error, or whatever error the interruption produced
	if zzCR.byDeadline {
		vCtxCancel(ctx, context.DeadlineExceeded)
	} else {
		zzCR.cancelCtx()
	}
	if zzCR.awaitOwnError {
		return errors.New("await interrupted")
	}
	return ctx.Err()
}
func zzRetireStub(c *jsonrpc2.Connection, ac *jsonrpc2.AsyncCall, err error) {
	zzCR.events = append(zzCR.events, "retire")
	zzCR.retires = append(zzCR.retires, err)
	zzCR.retiredAt = len(zzCR.notifies)
}
func zzNotifyStub(c *jsonrpc2.Connection, ctx context.Context, method string, params any) error {
	zzCR.events = append(zzCR.events, "notify")
	zzCR.notifies = append(zzCR.notifies, zzNotifyRec{ctx, method, params, ctx.Err() == nil})
	return zzCR.notifyErr // nil, or the notice could not be delivered
}
func zzCancelStub(c *jsonrpc2.Connection, id jsonrpc2.ID) {
	zzCR.events = append(zzCR.events, "cancel")
	zzCR.cancels = append(zzCR.cancels, id)
}
// Closing the connection may report an error (the transport's closer failed, e.g. an event store that could not
// release the session): the session is closed all the same.
var zzCloseErr error

func zzCloseStub(c *jsonrpc2.Connection) error {
	zzCR.events = append(zzCR.events, "close")
	zzCR.closes++
	return zzCloseErr
}

func zzCheckCancelNotice(n zzNotifyRec, caller context.Context) {
	vAssert(n.method == notificationCancelled, "C04.notice-is-a-cancelled-notification")
	p, ok := n.params.(*CancelledParams)
	vAssert(ok && p.RequestID == any(int64(9)), "C04.notice-names-the-cancelled-request")
	vAssert(n.live, "C04.notice-context-not-already-cancelled")
	vAssert(vCtxDetached(n.ctx, caller), "C04.notice-survives-the-callers-cancellation")
	vAssert(vCtxHasDeadline(n.ctx), "C04.notice-delivery-is-bounded")
	vAssert(n.ctx.Value(zzCtxKey{}) == any("routing"), "C04.notice-keeps-the-callers-context-values")
}

// call(): every Await outcome, including the caller's context ending while the peer stays silent.
func zzC04Call() {
	rec := &zzConnRec{theCall: &jsonrpc2.AsyncCall{}, awaitKind: vChoice("await", 5)}
	zzCR = rec
	rec.byDeadline, rec.awaitOwnError = vBool("endsByDeadline"), vBool("awaitReportsItsOwnError")
	if vBool("noticeUndeliverable") {
		rec.notifyErr = errors.New("write blocked forever")
	}
	base := context.WithValue(context.Background(), zzCtxKey{}, "routing")
	ctx, cancel := context.WithCancel(base)
	rec.cancelCtx = cancel
	err := call(ctx, &jsonrpc2.Connection{}, "tools/call", &CallToolParams{Name: "t"}, &CallToolResult{})
	switch rec.awaitKind {
	case 0:
		vAssert(err == nil && len(rec.retires) == 0 && vNumSpawned() == 0, "C04.successful-call-untouched")
	case 1, 3:
		vAssert(errors.Is(err, ErrConnectionClosed), "C01.closed-connection-identified")
		vReach("closed")
	case 2:
		vAssert(err != nil && !errors.Is(err, ErrConnectionClosed) && len(rec.retires) == 0, "C04.peer-error-passed-through")
	case 4:
		// cancelled: returns the context's error at once, having retired the call itself and without having
		// waited for the notice (which travels on its own goroutine)
		want := error(context.Canceled)
		if rec.byDeadline {
			want = context.DeadlineExceeded
		}
		vAssert(err == want, "C04.cancelled-call-returns-ctx-error")
		vAssert(len(rec.retires) == 1 && rec.retires[0] == want, "C04.cancelled-call-retired-eagerly")
		vAssert(len(rec.notifies) == 0, "C04.notice-not-sent-on-the-callers-path")
		vAssert(vNumSpawned() == 1, "C04.notice-sent-from-its-own-goroutine")
		vRunSpawned(0)
		vAssert(len(rec.notifies) == 1, "C04.notice-sent-exactly-once")
		zzCheckCancelNotice(rec.notifies[0], ctx)
		vAssert(len(rec.retires) == 1, "C04.retired-exactly-once")
		vReach("cancelled")
	}
	vReach("end")
}

// cancelCall(): the call is retired whether or not the notice could be delivered.
func zzC04CancelCall() {
	rec := &zzConnRec{theCall: &jsonrpc2.AsyncCall{}}
	zzCR = rec
	if vBool("noticeUndeliverable") {
		rec.notifyErr = errors.New("transport write failed")
	}
	base := context.WithValue(context.Background(), zzCtxKey{}, "routing")
	ctx, cancel := context.WithCancel(base)
	cancel()
	err := cancelCall(ctx, &jsonrpc2.Connection{}, rec.theCall)
	vAssert(len(rec.retires) == 1 && rec.retires[0] == context.Canceled, "C05.cancelled-call-always-retired")
	vAssert(len(rec.notifies) == 1, "C04.notice-sent-exactly-once")
	zzCheckCancelNotice(rec.notifies[0], ctx)
	vAssert((err != nil) == (rec.notifyErr != nil), "C04.cancelCall-reports-delivery-error")
	vReach("end")
}

// canceller.Preempt: a cancelled notification cancels exactly the request it names (same JSON type and value);
// every other message — whatever its method, call or notification — is passed on untouched, so it takes its place in
// the dispatch order (C03: nothing overtakes a running notification handler by being served from the read loop).
func zzAllMethodNames() []string {
	seen := map[string]bool{}
	var ms []string
	for m := range serverMethodInfos {
		if !seen[m] {
			seen[m] = true
			ms = append(ms, m)
		}
	}
	for m := range clientMethodInfos {
		if !seen[m] {
			seen[m] = true
			ms = append(ms, m)
		}
	}
	return ms
}

func zzC04Preempt() {
	rec := &zzConnRec{}
	zzCR = rec
	cn := &canceller{conn: &jsonrpc2.Connection{}}
	var req *jsonrpc.Request
	var want jsonrpc2.ID
	kind := vChoice("kind", 3)
	switch kind {
	case 0:
		// any int64 id: the peer names the request by the id it used, and ids are not confined to 2^53 (C19/C02 echo
		// every int64 exactly); the JSON text in between is the engine's token (an integer decoded into `any` would
		// arrive as the nearest float64)
		i := vInt("id")
		req = &jsonrpc.Request{Method: notificationCancelled, Params: vJSON(CancelledParams{RequestID: int64(i)})}
		want = jsonrpc2.Int64ID(int64(i))
	case 1:
		s := vStringN("sid", 2)
		req = &jsonrpc.Request{Method: notificationCancelled, Params: vJSON(CancelledParams{RequestID: s})}
		want = jsonrpc2.StringID(s)
	default:
		// any other message: every known method name and the unknown names between them, as a call or a notification
		method := vStringAmong("method", zzAllMethodNames()...)
		vAssume(method != notificationCancelled)
		req = &jsonrpc.Request{Method: method, Params: vJSON(&PingParams{})}
		if vBool("isCall") {
			req.ID = jsonrpc2.Int64ID(3)
		}
	}
	res, err := cn.Preempt(context.Background(), req)
	vAssert(res == nil && errors.Is(err, jsonrpc2.ErrNotHandled), "C04.preempt-passes-the-message-on")
	for i := 0; i < vNumSpawned(); i++ {
		vRunSpawned(i)
	}
	if kind <= 1 {
		vAssert(len(rec.cancels) == 1 && rec.cancels[0] == want, "C04.cancels-exactly-the-named-request")
		vReach("cancel")
	} else {
		vAssert(len(rec.cancels) == 0, "C04.only-cancelled-notifications-cancel")
		vReach("other")
	}
	vReach("end")
}

// ---------------------------------------------------------------- C05: session Close and disconnect

func zzC05SessionClose() {
	rec := &zzConnRec{}
	zzCR = rec
	srv := &Server{}
	onClose, kaCancelled := 0, 0
	ss := &ServerSession{server: srv, conn: &jsonrpc2.Connection{}, onClose: func() { onClose++ }}
	if vBool("keepalive") {
		ss.keepaliveCancel = func() { kaCancelled++; rec.events = append(rec.events, "keepalive-cancel") }
	}
	nl := vChoice("listens", 3)
	ids := []jsonrpc2.ID{jsonrpc2.Int64ID(5), jsonrpc2.StringID("L")}
	ss.listenIDs = append([]jsonrpc2.ID(nil), ids[:nl]...)
	zzCloseErr = nil
	if vBool("closerFails") {
		zzCloseErr = errors.New("event store: session could not be released")
	}
	err := ss.Close()
	vAssert(err == zzCloseErr && rec.closes == 1, "C05.close-closes-the-connection")
	vAssert(onClose == 1, "C05.onClose-runs") // also C11: onClose is what makes the HTTP handler forget the session id
	vAssert(ss.keepaliveCancel == nil || kaCancelled == 1, "C05.close-stops-keepalive")
	vAssert(len(rec.cancels) == nl, "C05.close-cancels-parked-listen-handlers")
	for i := 0; i < nl; i++ {
		vAssert(rec.cancels[i] == ids[i], "C05.close-cancels-parked-listen-handlers")
	}
	// order: keep-alive stopped and listen handlers cancelled before the connection drains
	sawClose := false
	for _, e := range rec.events {
		if e == "close" {
			sawClose = true
		} else {
			vAssert(!sawClose, "C05.cancellations-precede-connection-close")
		}
	}
	// Close again (e.g. keep-alive and the user racing): idempotent, onClose exactly once
	ss.Close()
	vAssert(onClose == 1, "C05.onClose-runs-exactly-once")
	vAssert(len(rec.cancels) == nl, "C05.second-close-cancels-nothing-new")
	vReach("end")
}

func zzC05Disconnect() {
	srv := NewServer(&Implementation{Name: "s", Version: "v"}, nil)
	a, b := &ServerSession{server: srv}, &ServerSession{server: srv}
	srv.sessions = []*ServerSession{a, b}
	put := func(ss *ServerSession) {
		srv.toolChangeSubscriptions[ss] = jsonrpc2.Int64ID(1)
		srv.promptChangeSubscriptions[ss] = jsonrpc2.Int64ID(1)
		srv.resourceChangeSubscriptions[ss] = jsonrpc2.Int64ID(1)
		for _, uri := range []string{"file:///x", "file:///y"} {
			if srv.resourceSubscriptions[uri] == nil {
				srv.resourceSubscriptions[uri] = map[*ServerSession]jsonrpc.ID{}
			}
			srv.resourceSubscriptions[uri][ss] = jsonrpc2.Int64ID(2)
		}
	}
	if vBool("aSubscribed") {
		put(a)
	}
	put(b)
	srv.disconnect(a)
	vAssert(len(srv.sessions) == 1 && srv.sessions[0] == b, "C05.session-removed-from-server")
	_, t := srv.toolChangeSubscriptions[a]
	_, p := srv.promptChangeSubscriptions[a]
	_, r := srv.resourceChangeSubscriptions[a]
	vAssert(!t && !p && !r, "C18.subscriptions-of-closed-session-forgotten")
	for _, m := range srv.resourceSubscriptions {
		_, in := m[a]
		vAssert(!in, "C18.subscriptions-of-closed-session-forgotten")
		_, bin := m[b]
		vAssert(bin, "C05.other-sessions-untouched")
	}
	_, tb := srv.toolChangeSubscriptions[b]
	vAssert(tb, "C05.other-sessions-untouched")
	vReach("end")
}

// ---------------------------------------------------------------- C05/C13/C18: ClientSession.Close and Client.disconnect

func zzC05ClientClose() {
	rec := &zzConnRec{}
	zzCR = rec
	onClose, kaCancelled, listenCancelled := 0, 0, 0
	cs := &ClientSession{client: &Client{}, conn: &jsonrpc2.Connection{}, onClose: func() { onClose++ }}
	hasKA, hasListen := vBool("keepalive"), vBool("listenStream")
	if hasKA {
		cs.keepaliveCancel = func() { kaCancelled++; rec.events = append(rec.events, "keepalive-cancel") }
	}
	if hasListen {
		cs.listenCancel = func() { listenCancelled++; rec.events = append(rec.events, "listen-cancel") }
	}
	nsub := vChoice("resourceSubscriptions", 3)
	subCancelled := []int{0, 0}
	uris := []string{"file:///x", "file:///y"}
	if nsub > 0 {
		cs.resourceSubs = map[string]context.CancelFunc{}
		for i := 0; i < nsub; i++ {
			i := i
			cs.resourceSubs[uris[i]] = func() { subCancelled[i]++; rec.events = append(rec.events, "sub-cancel") }
		}
	}
	zzCloseErr = nil
	if vBool("closerFails") {
		zzCloseErr = errors.New("DELETE failed")
	}
	err := cs.Close()
	vAssert(err == zzCloseErr && rec.closes == 1, "C05.client.close-closes-the-connection")
	vAssert(onClose == 1, "C05.client.onClose-runs")
	vAssert(!hasKA || kaCancelled == 1, "C13.client.close-stops-keepalive")
	vAssert(!hasListen || listenCancelled == 1, "C05.client.close-ends-the-listen-stream")
	for i := 0; i < nsub; i++ {
		vAssert(subCancelled[i] == 1, "C18.client.close-cancels-every-resource-subscription")
	}
	vAssert(len(cs.resourceSubs) == 0, "C18.client.subscriptions-of-closed-session-forgotten")
	// whatever parks on this session is released before the connection drains (conn.Close waits for it)
	sawClose := false
	for _, e := range rec.events {
		if e == "close" {
			sawClose = true
		} else {
			vAssert(!sawClose, "C05.client.cancellations-precede-connection-close")
		}
	}
	cs.Close()
	vAssert(onClose == 1, "C05.client.onClose-runs-exactly-once")
	vAssert(rec.closes == 2 || rec.closes == 1, "C05.client.second-close-harmless")
	for i := 0; i < nsub; i++ {
		vAssert(subCancelled[i] == 1, "C05.client.second-close-cancels-nothing-new")
	}
	vReach("end")
}

func zzC05ClientDisconnect() {
	c := NewClient(&Implementation{Name: "c", Version: "v"}, nil)
	a, b, d := &ClientSession{client: c}, &ClientSession{client: c}, &ClientSession{client: c}
	switch vChoice("position", 3) {
	case 0:
		c.sessions = []*ClientSession{a, b, d}
	case 1:
		c.sessions = []*ClientSession{b, a, d}
	case 2:
		c.sessions = []*ClientSession{b, d, a}
	}
	c.disconnect(a)
	vAssert(len(c.sessions) == 2 && c.sessions[0] == b && c.sessions[1] == d, "C05.client.session-removed-others-kept-in-order")
	c.disconnect(a) // a second notice (Close and the reader racing) changes nothing
	vAssert(len(c.sessions) == 2, "C05.client.disconnect-idempotent")
	vReach("end")
}

// callSubscriptionsListen: the one call that is issued and not awaited (its lifetime is the stream of notifications
// that follows). It is issued exactly once; as long as the caller's context lives nothing else happens; when it ends,
// the peer is told with one cancelled notice naming that call and the call is retired — never before, never twice.
func zzC04Listen() {
	rec := &zzConnRec{theCall: &jsonrpc2.AsyncCall{}}
	zzCR = rec
	if vBool("noticeUndeliverable") {
		rec.notifyErr = errors.New("transport write failed")
	}
	base := context.WithValue(context.Background(), zzCtxKey{}, "routing")
	ctx, cancel := context.WithCancel(base)
	callSubscriptionsListen(ctx, &jsonrpc2.Connection{}, methodSubscriptionsListen, &SubscriptionsListenParams{})
	vAssert(len(rec.events) == 1 && rec.events[0] == "call", "C04.listen.issued-exactly-once-and-not-awaited")
	vAssert(vNumSpawned() == 1, "C04.listen.teardown-waits-on-its-own-goroutine")
	vAssert(len(rec.notifies) == 0 && len(rec.retires) == 0, "C04.listen.nothing-cancelled-while-the-caller-lives")
	cancel()
	vRunSpawned(0)
	vAssert(len(rec.retires) == 1 && rec.retires[0] == context.Canceled, "C05.cancelled-call-always-retired")
	vAssert(len(rec.notifies) == 1, "C04.notice-sent-exactly-once")
	zzCheckCancelNotice(rec.notifies[0], ctx)
	vReach("end")
}
