package mcp

import (
	"log/slog"
	"context"
	"strings"
	"encoding/json"
	"net/http"

	"github.com/modelcontextprotocol/go-sdk/internal/jsonrpc2"
	"github.com/modelcontextprotocol/go-sdk/jsonrpc"
)

// C12 — client/server agreement on the 2026-07-28 HTTP headers.

// Schema annotations are supplied directly (the JSON-schema walk is outside): one top-level parameter and
// one nested parameter.
func zzC12Annotations(tool *Tool) []paramHeaderBinding {
	return []paramHeaderBinding{{Path: []string{"p"}, Header: "X-P"}, {Path: []string{"o", "q"}, Header: "X-Q"}}
}

type zzArgsDoc = struct {
	Arguments map[string]json.RawMessage `json:"arguments"`
}

// zzValue returns an arbitrary schema-valid primitive argument as (JSON value as decoded by a JSON parser,
// description for the oracle).
func zzValue(tag string) any {
	switch vChoice(tag+"_kind", vParam("kinds")) {
	case 0: // arbitrary string up to N bytes, any bytes
		return vStringN(tag+"_s", vParam("strlen"))
	case 1: // sentinel-looking string
		return base64Prefix + vStringN(tag+"_sent", 2) + base64Suffix
	case 2: // blank-padded string
		pad := " "
		if vBool(tag + "_tab") {
			pad = "\t"
		}
		if vBool(tag + "_lead") {
			return pad + vStringN(tag+"_pl", 2)
		}
		return vStringN(tag+"_pt", 2) + pad
	case 3:
		return vBool(tag + "_b")
	default: // integer in the interoperable range, as a JSON parser delivers it (float64)
		i := vIntRange(tag+"_i", minSafeInteger, maxSafeInteger) // the property quantifies over the interoperable range only (beyond it client and server do disagree: the client omits the header, the server demands it — outside the property as stated)
		return float64(i)
	}
}

// H1: for every schema-valid argument value the headers produced by the client-side code are accepted by the
// server-side validation of the same request.
func zzC12Agreement() {
	tool := &Tool{Name: "t"}
	args := map[string]json.RawMessage{}
	switch vChoice("pPresence", 3) {
	case 0:
		args["p"] = vJSON(zzValue("p"))
	case 1:
		args["p"] = json.RawMessage("null")
	}
	if vBool("haveNested") {
		args["o"] = vJSON(map[string]json.RawMessage{"q": vJSON(zzValue("q"))})
	}
	params := vJSONMulti(zzArgsDoc{Arguments: args}, CallToolParams{Name: "t"})
	req := &jsonrpc.Request{ID: jsonrpc2.Int64ID(1), Method: "tools/call", Params: params}

	// client side
	hdr := http.Header{}
	hdr.Set(protocolVersionHeader, protocolVersion20260728)
	ctx := context.WithValue(context.Background(), toolContextKey, tool)
	setStandardHeaders(ctx, hdr, req)

	// transit: a field value holds no control characters (net/http refuses to send one that does: CTLs other than
	// HTAB, and DEL), and HTTP strips optional whitespace (SP / HTAB) around it
	for k, vs := range hdr {
		for i, v := range vs {
			for j := 0; j < len(v); j++ {
				c := v[j]
				vAssert((c >= 0x20 && c != 0x7F) || c == '\t', "C12.client-headers-are-transmittable")
			}
			vs[i] = strings.Trim(v, " \t")
		}
		hdr[k] = vs
	}

	// server side, same tool definition
	lookup := func(name string) (*serverTool, bool) {
		if name == "t" {
			return &serverTool{tool: tool}, true
		}
		return nil, false
	}
	err := validateMcpHeaders(hdr, req, lookup)
	vAssert(err == nil, "C12.client-request-accepted")
	vAssert(hdr.Get(methodHeader) == "tools/call" && hdr.Get(nameHeader) == "t", "C12.standard-headers-set")
	vReach("end")
}

// H1': soundness for strings and booleans: whatever Mcp-Param header the server accepts denotes the body
// value; a missing or unexpected header is rejected.
func zzC12ParamSoundness() {
	tool := &Tool{Name: "t"}
	var body any
	isStr := vBool("bodyIsString")
	var bs string
	var bb bool
	if isStr {
		bs = vStringN("body_s", vParam("strlen"))
		body = bs
	} else {
		bb = vBool("body_b")
		body = bb
	}
	args := map[string]json.RawMessage{"p": vJSON(body)}
	absent := vBool("argAbsent")
	if absent {
		args = map[string]json.RawMessage{}
	}
	req := &jsonrpc.Request{ID: jsonrpc2.Int64ID(1), Method: "tools/call", Params: vJSONMulti(zzArgsDoc{Arguments: args}, CallToolParams{Name: "t"})}
	hdr := http.Header{}
	hv := ""
	hkind := vChoice("headerKind", 4)
	switch hkind {
	case 0: // no header
	case 1: // plain text
		hv = vStringN("hdr_plain", vParam("strlen"))
		hdr.Set(paramHeaderPrefix+"X-P", hv)
	case 2: // base64 wrapper around an encoder-produced token of arbitrary content
		enc := vStringN("hdr_b64src", vParam("strlen"))
		hv = encodeBase64(enc)
		hdr.Set(paramHeaderPrefix+"X-P", hv)
		vReach("b64-header")
	case 3: // wrapper around text that is not valid base64 (decoder rejects or yields arbitrary bytes)
		hv = base64Prefix + vStringN("hdr_junk", 2) + base64Suffix
		hdr.Set(paramHeaderPrefix+"X-P", hv)
	}
	err := validateParamHeaders(hdr, req, tool)
	if err == nil {
		if absent {
			vAssert(hkind == 0, "C12.sound.unexpected-header-rejected")
		} else {
			dec, ok := decodeHeaderValue(hv)
			vAssert(ok, "C12.sound.decodable")
			if isStr {
				vAssert(dec == bs, "C12.sound.header-denotes-body")
				vAssert(hkind != 0, "C12.sound.missing-header-rejected")
			} else {
				want := "false"
				if bb {
					want = "true"
				}
				vAssert(dec == want, "C12.sound.header-denotes-body")
			}
			vReach("accepted")
		}
	} else {
		vReach("rejected")
	}
	vReach("end")
}

// H2: mirror checks of Mcp-Method / Mcp-Name: accepted => equal to the body; every mismatch is rejected.
func zzC12Mirror() {
	methods := []string{"tools/call", "resources/read", "prompts/get", "tools/list", "ping"}
	method := methods[vChoice("method", len(methods))]
	bodyName := "n" + vStringN("bodyName", 2)
	var params json.RawMessage
	switch method {
	case "tools/call":
		params = vJSONMulti(CallToolParams{Name: bodyName}, zzArgsDoc{})
	case "resources/read":
		params = vJSON(ReadResourceParams{URI: bodyName})
	case "prompts/get":
		params = vJSON(GetPromptParams{Name: bodyName})
	}
	req := &jsonrpc.Request{ID: jsonrpc2.Int64ID(1), Method: method, Params: params}
	hdr := http.Header{}
	version := vStringAmong("version", protocolVersion20250326, protocolVersion20250618, protocolVersion20251125, protocolVersion20260728)
	haveVersion := vBool("haveVersion")
	if haveVersion {
		hdr.Set(protocolVersionHeader, version)
	}
	hm, haveHM := "", vBool("haveMethodHeader")
	if haveHM {
		hm = methods[vChoice("hm", len(methods))]
		hdr.Set(methodHeader, hm)
	}
	hn, haveHN := "", vBool("haveNameHeader")
	if haveHN {
		hn = "n" + vStringN("hdrName", 2)
		hdr.Set(nameHeader, hn)
	}
	err := validateMcpHeaders(hdr, req, nil)
	enforced := haveVersion && version >= protocolVersion20260728
	needsName := method == "tools/call" || method == "resources/read" || method == "prompts/get"
	if !enforced {
		vAssert(err == nil, "C12.mirror.legacy-versions-not-checked")
	} else {
		ok := haveHM && hm == method && (!needsName || (haveHN && hn == bodyName))
		vAssert((err == nil) == ok, "C12.mirror.accepted-iff-headers-equal-body")
		if err == nil {
			vReach("accepted")
		} else {
			vReach("rejected")
		}
	}
	vReach("end")
}

// H3: Accept header negotiation.
func zzC12Accept() {
	toks := []string{"application/json", "text/event-stream", "*/*", "application/*", "text/*", "text/html", "APPLICATION/JSON ;q=0.5", " text/event-stream;charset=utf-8", ""}
	nv := vIntRange("nvalues", 0, 2)
	var values []string
	wantJSON, wantStream := false, false
	for i := 0; i < nv; i++ {
		nt := vIntRange("ntokens", 1, 2)
		v := ""
		for j := 0; j < nt; j++ {
			k := vChoice("tok", len(toks))
			if j > 0 {
				v += ","
			}
			v += toks[k]
			switch k {
			case 0, 3, 6:
				wantJSON = true
			case 1, 4, 7:
				wantStream = true
			case 2:
				wantJSON, wantStream = true, true
			}
		}
		values = append(values, v)
	}
	j, s := streamableAccepts(values)
	vAssert(j == wantJSON && s == wantStream, "C12.accept.negotiation")
	vReach("end")
}

// H4: the schema walk binds every x-mcp-header annotation to the path of its own property, at any depth and
// for every iteration order of the property maps (depth 4 with siblings exercises slice aliasing).
var zzC12Props map[string]headerSchemaProperty

func zzSchemaProps(schema any) map[string]headerSchemaProperty { return zzC12Props }

func zzC12Annotate() {
	leaf := func(h string) headerSchemaProperty {
		return headerSchemaProperty{XMCPHeader: vJSON(h)}
	}
	zzC12Props = map[string]headerSchemaProperty{
		"p": leaf("Hp"),
		"o1": {Properties: map[string]headerSchemaProperty{
			"o2": {Properties: map[string]headerSchemaProperty{
				"o3": {Properties: map[string]headerSchemaProperty{
					"a": leaf("Ha"),
					"b": leaf("Hb"),
				}},
				"c": leaf("Hc"),
			}},
		}},
	}
	want := map[string][]string{"Hp": {"p"}, "Ha": {"o1", "o2", "o3", "a"}, "Hb": {"o1", "o2", "o3", "b"}, "Hc": {"o1", "o2", "c"}}
	got := extractParamHeaderAnnotations(&Tool{Name: "t"})
	vAssert(len(got) == len(want), "C12.annotate.count")
	for _, b := range got {
		w := want[b.Header]
		vAssert(len(b.Path) == len(w), "C12.annotate.path-of-own-property")
		for i := range w {
			vAssert(i < len(b.Path) && b.Path[i] == w[i], "C12.annotate.path-of-own-property")
		}
	}
	vReach("end")
}

// ---------------------------------------------------------------- C12 (client side): the tool definition behind the mirror headers
//
// The streamable client can mirror a tools/call argument into an Mcp-Param header only if CallTool hands the transport
// the tool's definition (toolContextKey). Once the client has listed a tool — and until a list_changed notification
// tells it the list is stale — every CallTool for that name carries that definition, however long ago the list was
// fetched and whatever caching hint (ttlMs) came with it: the hint governs re-use of the *list result*, not whether
// the client knows the schema of the tool it is calling.
var zzLookupTool *Tool
var zzLookupTTL int
var zzLookupSeen []*Tool
var zzLookupCalls int

func zzLookupRPC(ctx context.Context, method string, req Request) (Result, error) {
	switch method {
	case methodListTools:
		return &ListToolsResult{Tools: []*Tool{zzLookupTool, {Name: "other", InputSchema: map[string]any{"type": "object"}}}, Cacheable: Cacheable{TTLMs: zzLookupTTL}}, nil
	case methodCallTool:
		zzLookupCalls++
		t, _ := ctx.Value(toolContextKey).(*Tool)
		zzLookupSeen = append(zzLookupSeen, t)
		return &CallToolResult{}, nil
	}
	vUnsupported("unexpected method")
	return nil, nil
}

func zzC12ToolLookup() {
	c := &Client{}
	c.sendingMethodHandler_ = zzLookupRPC
	cs := &ClientSession{client: c}
	cs.state.InitializeResult = &InitializeResult{ProtocolVersion: protocolVersion20260728}
	zzLookupTool = &Tool{Name: "t", InputSchema: map[string]any{"type": "object"}}
	zzLookupTTL = vIntRange("ttlMs", 0, 1<<40)
	zzLookupSeen, zzLookupCalls = nil, 0
	listed := vBool("toolsListedBefore")
	if listed {
		_, err := cs.ListTools(context.Background(), &ListToolsParams{})
		vAssert(err == nil, "C12.lookup.list-ok")
	}
	stale := listed && vBool("listChangedSince")
	if stale {
		c.callToolChangedHandler(context.Background(), &ToolListChangedRequest{Session: cs, Params: &ToolListChangedParams{}})
	}
	// any amount of time passes (time.Now of the model is arbitrary and non-decreasing)
	relisted := listed && vBool("listedAgainLater")
	if relisted {
		_, err := cs.ListTools(context.Background(), &ListToolsParams{})
		vAssert(err == nil, "C12.lookup.list-ok")
	}
	// the params are the caller's: it may already have put something into _meta, and may use the value again for a call
	// on another session (of another era): what this session adds for the wire does not end up in it (D20)
	callerMeta := vBool("callerSuppliedMeta")
	params := &CallToolParams{Name: "t", Arguments: map[string]any{"p": "v"}}
	if callerMeta {
		params.Meta = Meta{"progressToken": "tok"}
	}
	_, err := cs.CallTool(context.Background(), params)
	vAssert(err == nil && zzLookupCalls == 1, "C12.lookup.call-sent")
	if callerMeta {
		_, leaked := params.Meta[MetaKeyProtocolVersion]
		vAssert(len(params.Meta) == 1 && !leaked, "C12.request-metadata-not-written-into-the-callers-params")
	} else {
		vAssert(params.Meta == nil, "C12.request-metadata-not-written-into-the-callers-params")
	}
	if listed && (!stale || relisted) {
		vAssert(zzLookupSeen[0] == zzLookupTool, "C12.client-call-carries-the-definition-of-the-tool-it-listed")
		vReach("known")
	}
	if !listed {
		vAssert(zzLookupSeen[0] == nil, "C12.lookup.unknown-tool-has-no-definition")
	}
	vReach("end")
}
func zzFilterTools12(logger *slog.Logger, tools []*Tool) []*Tool { return tools }

// zzC12Lookup: lookupArgument — the function both sides use to find the body value an Mcp-Param header stands for —
// against plain navigation, on argument documents nested three deep in which every member may be present or absent and
// an enclosing object may hold a member named like the leaf: the value found is the member at exactly that path, and
// "not there" is reported when any step is missing (a value from an enclosing object is not a substitute).
func zzC12Lookup() {
	leafIn, midIn, sibIn := vBool("leafPresent"), vBool("middleObjectPresent"), vBool("enclosingObjectHasAMemberNamedLikeTheLeaf")
	tLeaf, tSib := vJSON("leaf value"), vJSON("enclosing object's value")
	inner := map[string]json.RawMessage{}
	if leafIn {
		inner["q"] = tLeaf
	}
	outer := map[string]json.RawMessage{"other": vJSON("x")}
	if sibIn {
		outer["q"] = tSib
	}
	if midIn {
		outer["m"] = vJSON(inner)
	}
	args := map[string]json.RawMessage{"o": vJSON(outer)}
	switch vChoice("path", 4) {
	case 0:
		got, ok := lookupArgument(args, []string{"o", "m", "q"})
		vAssert(ok == (midIn && leafIn), "C12.lookup.found-iff-every-step-of-the-path-is-there")
		if ok {
			vAssert(string(got) == string(tLeaf), "C12.lookup.the-value-at-exactly-that-path")
		}
		vReach("depth3")
	case 1:
		got, ok := lookupArgument(args, []string{"o", "q"})
		vAssert(ok == sibIn, "C12.lookup.found-iff-every-step-of-the-path-is-there")
		if ok {
			vAssert(string(got) == string(tSib), "C12.lookup.the-value-at-exactly-that-path")
		}
	case 2:
		_, ok := lookupArgument(args, []string{"o", "m", "other"})
		vAssert(!ok, "C12.lookup.found-iff-every-step-of-the-path-is-there")
	case 3:
		_, ok := lookupArgument(args, []string{"absent", "q"})
		vAssert(!ok, "C12.lookup.found-iff-every-step-of-the-path-is-there")
	}
	vReach("end")
}

// zzC12HeaderName: validateHeaderName against RFC 9110's field-name grammar stated independently (token = 1*tchar:
// a visible ASCII character that is not a delimiter), for every name of up to 2 (thorough 3) bytes. A name that passes can be put on
// the wire as "Mcp-Param-<name>" and read back; one that fails is refused when the tool is registered.
func zzC12HeaderName() {
	name := vStringN("name", vParam("len"))
	err := validateHeaderName(name)
	ok := len(name) > 0
	for i := 0; i < len(name); i++ {
		c := name[i]
		visible := c > 0x20 && c < 0x7F
		delimiter := c == '"' || c == '(' || c == ')' || c == ',' || c == '/' || c == ':' || c == ';' || c == '<' || c == '=' || c == '>' || c == '?' || c == '@' || c == '[' || c == '\\' || c == ']' || c == '{' || c == '}'
		if !visible || delimiter {
			ok = false
		}
	}
	vAssert((err == nil) == ok, "C12.header-name-accepted-iff-it-is-an-http-token")
	vReach("end")
}


// H4' (defect D28): the real unmarshalSchemaProperties (marshal the schema, decode the members needed) on schemas whose
// *other* properties spell "type" in any of the forms JSON Schema allows — a name, an array of names (what schema
// inference emits for a pointer field), or nothing: the annotated property keeps its binding, and registration-time
// validation accepts the schema.
func zzC12SchemaForms() {
	var noteType any
	switch vChoice("siblingType", 3) {
	case 0:
		noteType = "string"
	case 1:
		noteType = []any{"null", "string"}
	}
	note := map[string]any{}
	if noteType != nil {
		note["type"] = noteType
	}
	var sibling any = note
	if vBool("siblingIsABooleanSchema") {
		sibling = true // the boolean form of a subschema: what inference emits for an `any` field (defect D29)
	}
	schema := map[string]any{"type": "object", "properties": map[string]any{
		"region": map[string]any{"type": "string", "x-mcp-header": "Region"},
		"note":   sibling,
	}}
	got := extractParamHeaderAnnotations(&Tool{Name: "t", InputSchema: schema})
	vAssert(len(got) == 1, "C12.schema-forms.annotated-property-keeps-its-binding")
	if len(got) == 1 {
		vAssert(got[0].Header == "Region" && len(got[0].Path) == 1 && got[0].Path[0] == "region", "C12.schema-forms.annotated-property-keeps-its-binding")
	}
	vAssert(validateParamHeaderAnnotations(&Tool{Name: "t", InputSchema: schema}) == nil, "C12.schema-forms.schema-accepted-at-registration")
	vReach("end")
}
