package mcp

import (
	"errors"
	"os"
	"os/exec"
	"syscall"
	"time"
)

// pipeRWC.Close (CommandTransport shutdown): close the child's stdin, wait, SIGTERM, wait, SIGKILL, wait. The child is
// a model with every behaviour: exits on EOF, only on SIGTERM, only on SIGKILL, or never; signalling may fail; every
// wait races a timer that may have fired already (the engine's default timer) against the child's exit. Close never
// hangs, escalates in the documented order, and reports success only for a child that is gone.
type zzChild struct {
	behaviour int // 0 exits on EOF, 1 on SIGTERM, 2 on SIGKILL, 3 never
	exited    chan struct{}
	gone      bool
	log       []string
	termFails bool
	killFails bool
	status    error
}

var zzCh *zzChild

func (c *zzChild) exit() {
	if !c.gone {
		c.gone = true
		close(c.exited)
	}
}

type zzStdin struct{ fails bool }

func (s *zzStdin) Write(p []byte) (int, error) { return len(p), nil }
func (s *zzStdin) Close() error {
	zzCh.log = append(zzCh.log, "eof")
	if s.fails {
		return errors.New("pipe already closed")
	}
	if zzCh.behaviour == 0 {
		zzCh.exit()
	}
	vYield() // (the waiter goroutine may or may not get to run before Close looks at its result)
	return nil
}

func zzCmdWait(c *exec.Cmd) error {
	ch := zzCh
	<-ch.exited
	return ch.status
}
func zzProcSignal(p *os.Process, sig os.Signal) error {
	vAssert(sig == syscall.SIGTERM, "C05.cmd.only-sigterm-is-signalled")
	zzCh.log = append(zzCh.log, "term")
	if zzCh.gone {
		return os.ErrProcessDone
	}
	if zzCh.termFails {
		return errors.New("operation not permitted")
	}
	if zzCh.behaviour == 1 {
		zzCh.exit()
	}
	vYield()
	return nil
}
func zzProcKill(p *os.Process) error {
	zzCh.log = append(zzCh.log, "kill")
	if zzCh.gone {
		return os.ErrProcessDone
	}
	if zzCh.killFails {
		return errors.New("operation not permitted")
	}
	if zzCh.behaviour <= 2 {
		zzCh.exit()
	}
	vYield()
	return nil
}

func zzC05CmdClose() {
	ch := &zzChild{behaviour: vChoice("child", 4), exited: make(chan struct{}), termFails: vBool("sigtermFails"), killFails: vBool("killFails")}
	if vBool("exitsNonZero") {
		ch.status = errors.New("exit status 1")
	}
	zzCh = ch
	stdin := &zzStdin{fails: vBool("stdinCloseFails")}
	s := &pipeRWC{cmd: &exec.Cmd{Process: &os.Process{}}, stdin: stdin, terminateDuration: time.Duration(vIntRange("terminateDuration", 1, 1<<40))}
	err := s.Close()
	gone := ch.gone
	ch.exit() // (harness hygiene: let the waiter goroutine finish before the entry returns)
	vJoin()
	// (reaching this line at all is the first half of the property: a BLOCKED or DEADLOCK outcome is a violation)
	if stdin.fails {
		vAssert(err != nil && len(ch.log) == 1, "C05.cmd.stdin-failure-reported")
		vReach("stdin-failed")
		return
	}
	// escalation order: eof, then at most one term, then at most one kill
	vAssert(ch.log[0] == "eof", "C05.cmd.escalation-order")
	terms, kills := 0, 0
	for i, l := range ch.log[1:] {
		switch l {
		case "term":
			terms++
			vAssert(i == 0, "C05.cmd.escalation-order")
		case "kill":
			kills++
			vAssert(i == len(ch.log)-2 && terms == 1, "C05.cmd.escalation-order")
		default:
			vAssert(false, "C05.cmd.escalation-order")
		}
	}
	vAssert(terms <= 1 && kills <= 1, "C05.cmd.escalation-order")
	if err == nil {
		vAssert(gone && ch.status == nil, "C05.cmd.success-means-the-child-is-gone")
		vReach("clean")
	} else if err == ch.status {
		vAssert(gone, "C05.cmd.success-means-the-child-is-gone")
	} else {
		// an error of Close's own: only after everything was tried (SIGKILL sent, or failed)
		vAssert(kills == 1, "C05.cmd.gives-up-only-after-sigkill")
		vReach("gave-up")
	}
	if ch.behaviour == 3 && !gone {
		vReach("unkillable")
	}
	vReach("end")
}
