package mcp

import (
	"errors"
	"net"
	"io"
	"context"
	"net/http"
	"time"

	"github.com/modelcontextprotocol/go-sdk/auth"
	"github.com/modelcontextprotocol/go-sdk/internal/jsonrpc2"
)

// C11 — HTTP session table: one request against an arbitrary table (step harness), the idle-timer reference
// counting (one step from any state satisfying its invariant), and the stateless endpoint.

type zzC11Env struct {
	served      []*StreamableServerTransport // transports whose ServeHTTP was invoked
	connCloses  []*jsonrpc2.Connection
	token       *auth.TokenInfo
	minted      int
	connects    int
	initFails   bool
	media       string
	timers      map[*time.Timer]*zzTimer
	nowPOSTRefs int
	handler     *StreamableHTTPHandler
	closeFails  bool // closing a session's connection reports an error (a failing EventStore.SessionClosed)
	connectFails bool // Server.Connect fails for a new session
	noIDs       bool // ServerOptions.GetSessionID returns "" (session ids suppressed)
	noServer    bool // getServer returns nil for this request
	ephemeralClosed int
	notifOnly   bool // the POST body is a notification: acknowledged with 202, no answer to wait for
	unread      int  // messages acknowledged but not yet taken by the session's reader
	closedWithUnread bool
}

type zzTimer struct {
	armed   bool
	stops   int
	resets  []time.Duration
	f       func()
	created time.Duration
}

var zzC11 *zzC11Env

func zzTransportServe(t *StreamableServerTransport, w http.ResponseWriter, req *http.Request) {
	zzC11.served = append(zzC11.served, t)
	// while the transport serves a POST of a stateful session the idle timer must not be armed
	if req.Method == http.MethodPost && zzC11.handler != nil {
		for _, si := range zzC11.handler.sessions {
			if si.transport == t && si.timer != nil {
				vAssert(!zzC11.timers[si.timer].armed, "C11.idle-timer-not-armed-during-POST")
			}
		}
	}
	if zzC11.notifOnly {
		// servePOST queues the message for the session's reader goroutine and acknowledges; nothing waits for the reader
		zzC11.unread++
		w.WriteHeader(http.StatusAccepted)
		return
	}
	w.WriteHeader(http.StatusOK)
}
func zzConnCloseStub(c *jsonrpc2.Connection) error {
	if zzC11.unread > 0 {
		zzC11.closedWithUnread = true // closing refuses whatever the reader has not admitted yet
	}
	zzC11.connCloses = append(zzC11.connCloses, c)
	if zzC11.closeFails {
		return errors.New("event store: session could not be released")
	}
	return nil
}
func zzConnCancelStub(c *jsonrpc2.Connection, id jsonrpc2.ID) {}
func zzTokenInfoFromContext(ctx context.Context) *auth.TokenInfo { return zzC11.token }
func zzBaseMediaType(v string) string                           { return zzC11.media }

func zzConnectStreamable(ctx context.Context, server *Server, transport *StreamableServerTransport, opts *ServerSessionOptions) (*ServerSession, error) {
	zzC11.connects++
	if zzC11.connectFails {
		return nil, errors.New("connect failed")
	}
	ss := &ServerSession{server: server, conn: &jsonrpc2.Connection{}}
	if opts != nil {
		ss.onClose = opts.onClose
		if opts.State != nil {
			ss.state = *opts.State
		}
	}
	if !zzC11.initFails && ss.state.InitializeParams == nil {
		ss.state.InitializeParams = &InitializeParams{ProtocolVersion: protocolVersion20250618} // the POST carried a valid initialize
	}
	return ss, nil
}

func zzAfterFunc(d time.Duration, f func()) *time.Timer {
	t := &time.Timer{}
	zzC11.timers[t] = &zzTimer{armed: true, f: f, created: d}
	return t
}
func zzTimerStop(t *time.Timer) bool {
	g := zzC11.timers[t]
	if g == nil {
		return false // not one of the handler's idle timers
	}
	was := g.armed
	g.armed = false
	g.stops++
	return was
}
func zzTimerReset(t *time.Timer, d time.Duration) bool {
	g := zzC11.timers[t]
	if g == nil {
		return false
	}
	was := g.armed
	g.armed = true
	g.resets = append(g.resets, d)
	return was
}

func zzC11Session(h *StreamableHTTPHandler, id, user string) *sessionInfo {
	si := &sessionInfo{userID: user, transport: &StreamableServerTransport{SessionID: id}}
	si.session = &ServerSession{conn: &jsonrpc2.Connection{}}
	si.session.onClose = func() {
		h.mu.Lock()
		defer h.mu.Unlock()
		if info, ok := h.sessions[id]; ok {
			info.stopTimer()
			delete(h.sessions, id)
		}
	}
	h.sessions[id] = si
	return si
}


// zzAcceptAndType draws the request's Accept header and Content-Type: the documented preconditions of a POST are a
// JSON body and an Accept header admitting both response types (JSON and SSE), whatever mode the handler runs in.
func zzAcceptAndType(req *http.Request) (ok bool, want int) {
	accepts := []string{"application/json, text/event-stream", "application/json", "text/event-stream", "", "*/*", "text/html"}
	admits := []bool{true, false, false, false, true, false}
	ai := vChoice("accept", len(accepts))
	if accepts[ai] != "" {
		req.Header.Set("Accept", accepts[ai])
	} else {
		req.Header.Del("Accept")
	}
	medias := []string{"application/json", "text/plain", ""}
	mi := vChoice("contentType", 3)
	zzC11.media = medias[mi]
	switch {
	case mi != 0:
		return false, http.StatusUnsupportedMediaType
	case !admits[ai]:
		return false, http.StatusBadRequest
	}
	return true, 0
}

// H1: one request against a table holding session A (owned by an arbitrary user or nobody) and optionally B.
func zzC11Table() {
	env := &zzC11Env{timers: map[*time.Timer]*zzTimer{}, media: "application/json"}
	zzC11 = env
	srv := &Server{}
	srv.opts.GetSessionID = func() string {
		if env.noIDs {
			return ""
		}
		env.minted++
		return "NEW"
	}
	h := NewStreamableHTTPHandler(func(*http.Request) *Server {
		if env.noServer {
			return nil
		}
		return srv
	}, &StreamableHTTPOptions{DisableLocalhostProtection: true})
	ownerA := ""
	if vBool("aOwned") {
		ownerA = "u1"
	}
	env.handler = h
	sA := zzC11Session(h, "A", ownerA)
	// session A has an idle timeout and possibly other POSTs in flight; its timer obeys the invariant
	// (a POST in flight => not armed) when the request arrives
	var gtA *zzTimer
	refsA := 0
	if vBool("aHasIdleTimeout") {
		sA.timeout = time.Duration(vIntRange("timeout", 1, 1<<40))
		sA.timer = zzAfterFunc(sA.timeout, func() {})
		gtA = env.timers[sA.timer]
		refsA = vIntRange("otherPOSTsInFlight", 0, 2)
		sA.refs = refsA
		gtA.armed = refsA == 0
	}
	var sB *sessionInfo
	if vBool("haveB") {
		sB = zzC11Session(h, "B", "")
	}
	// the request
	methods := []string{http.MethodGet, http.MethodPost, http.MethodDelete, http.MethodPut}
	method := methods[vChoice("method", 4)]
	req := &http.Request{Method: method, Header: http.Header{}}
	req.Header.Set("Accept", "application/json, text/event-stream")
	req.Header.Set("Content-Type", "application/json")
	sid := ""
	switch vChoice("sid", 4) {
	case 1:
		sid = "A"
	case 2:
		sid = "B"
	case 3:
		sid = "stale"
	}
	if sid != "" {
		req.Header.Set(sessionIDHeader, sid)
	}
	switch vChoice("user", 3) {
	case 1:
		env.token = &auth.TokenInfo{UserID: "u1"}
	case 2:
		env.token = &auth.TokenInfo{UserID: "u2"}
	}
	env.initFails = vBool("initializeFails")
	env.closeFails = vBool("closingTheConnectionFails")
	gateOK, gateStatus := true, 0
	if method == http.MethodPost {
		gateOK, gateStatus = zzAcceptAndType(req)
	}
	if method == http.MethodPost && sid == "" {
		switch vChoice("creation", 4) {
		case 1:
			env.connectFails = true
		case 2:
			env.noIDs = true
		case 3:
			env.noServer = true
		}
	}
	w := &zzRec{hdr: http.Header{}}
	nBefore := len(h.sessions)
	h.ServeHTTP(w, req)

	var target *sessionInfo
	switch sid {
	case "A":
		target = sA
	case "B":
		target = sB
	}
	userOK := target != nil && (target.userID == "" || (env.token != nil && env.token.UserID == target.userID))
	switch {
	case !gateOK:
		// a POST that does not meet the documented preconditions reaches no session, creates none, changes nothing
		vAssert(w.code == gateStatus && len(env.served) == 0 && env.minted == 0 && env.connects == 0 && len(h.sessions) == nBefore, "C12.precondition-violations-never-reach-a-session")
		vReach("gate-refused")
	case method == http.MethodPut:
		vAssert(w.code == http.StatusMethodNotAllowed && len(env.served) == 0, "C11.unsupported-method-405")
	case sid == "" && method != http.MethodPost:
		vAssert(w.code == http.StatusBadRequest && len(env.served) == 0 && env.minted == 0, "C11.get-delete-need-session-id")
	case sid == "" && (env.connectFails || env.noServer):
		// no session comes into being: nothing is stored, nothing served, no id handed out
		vAssert(w.code >= 400 && len(env.served) == 0 && len(h.sessions) == nBefore, "C11.failed-creation-leaves-no-session")
		vAssert(w.hdr.Get(sessionIDHeader) == "", "C11.no-id-issued-without-a-session")
		vReach("creation-failed")
	case sid == "" && env.noIDs:
		// session ids suppressed: the request is served by a session nobody can address — it is not stored and is closed
		// when the request ends
		vAssert(env.minted == 0 && env.connects == 1 && len(h.sessions) == nBefore, "C11.unaddressable-session-is-not-stored")
		vAssert(len(env.served) == 1 && env.served[0].SessionID == "" && len(env.connCloses) == 1, "C11.unaddressable-session-closed-after-the-request")
		vReach("ephemeral")
	case sid == "":
		// POST without id: the only way a session id is minted
		vAssert(env.minted == 1 && env.connects == 1, "C11.mint-on-post-without-id")
		_, registered := h.sessions["NEW"]
		vAssert(registered == !env.initFails, "C11.failed-initialize-forgets-session")
		vAssert(len(env.served) == 1 && env.served[0].SessionID == "NEW", "C11.new-session-served")
		vReach("minted")
	case target == nil:
		vAssert(w.code == http.StatusNotFound && len(env.served) == 0 && len(env.connCloses) == 0, "C11.unknown-id-404")
		vAssert(env.minted == 0, "C11.no-id-minted-for-unknown-id")
		vReach("404")
	case !userOK:
		vAssert(w.code == http.StatusForbidden && len(env.served) == 0 && len(env.connCloses) == 0, "C11.foreign-user-403-no-effect")
		_, stillA := h.sessions["A"]
		vAssert(stillA, "C11.foreign-user-403-no-effect")
		vReach("403")
	case method == http.MethodDelete:
		vAssert(w.code == http.StatusNoContent && len(env.connCloses) == 1 && env.connCloses[0] == target.session.conn, "C11.delete-closes-that-session")
		_, still := h.sessions[sid]
		vAssert(!still, "C11.deleted-session-forgotten")
		// a later request with the same id is not honoured
		w2 := &zzRec{hdr: http.Header{}}
		req2 := &http.Request{Method: http.MethodPost, Header: req.Header}
		h.ServeHTTP(w2, req2)
		vAssert(w2.code == http.StatusNotFound, "C11.dead-id-404")
		vReach("deleted")
	default:
		vAssert(len(env.served) == 1 && env.served[0] == target.transport, "C11.addresses-exactly-one-session")
		vAssert(env.minted == 0 && env.connects == 0, "C11.no-id-minted-for-existing-session")
		vReach("served")
	}
	if _, live := h.sessions["A"]; live && gtA != nil {
		// whatever the request was (and whoever sent it), it leaves A's idle timer consistent with the POSTs still
		// in flight: never armed under a running POST, armed when idle
		vAssert(sA.refs == refsA, "C11.request-leaves-POST-count-balanced")
		vAssert(gtA.armed == (refsA == 0), "C11.idle-timer-armed-iff-no-POST-in-flight")
		if len(env.served) == 0 || env.served[0] != sA.transport {
			// a request that was not served by session A (refused, unknown, addressed elsewhere) is not activity of A:
			// it neither stops nor re-arms A's idle timer, so it cannot keep A alive past its deadline
			vAssert(len(gtA.resets) == 0 && gtA.stops == 0, "C11.refused-request-is-not-session-activity")
			vReach("not-activity")
		}
		vReach("timer-checked")
	}
	if sB != nil && sid != "B" {
		_, stillB := h.sessions["B"]
		vAssert(stillB && len(env.served) < 2, "C11.other-session-untouched")
	}
	vReach("end")
}

// H2: idle-timer reference counting — one step from any state with refs >= 0 and (refs > 0 => timer not armed).
func zzC11Timer() {
	env := &zzC11Env{timers: map[*time.Timer]*zzTimer{}}
	zzC11 = env
	closes := 0
	si := &sessionInfo{timeout: time.Duration(vIntRange("timeout", 1, 1<<40))}
	stopped := vBool("stoppedForGood")
	var gt *zzTimer
	if !stopped {
		si.timer = zzAfterFunc(si.timeout, func() { closes++ })
		gt = env.timers[si.timer]
	}
	si.refs = vIntRange("refs", 0, 3)
	if gt != nil {
		gt.armed = vBool("armed")
		vAssume(si.refs == 0 || !gt.armed) // invariant
	}
	refs0 := si.refs
	switch vChoice("step", 3) {
	case 0:
		si.startPOST()
		if !stopped {
			vAssert(si.refs == refs0+1, "C11.timer.startPOST-counts")
			vAssert(!gt.armed, "C11.idle-timer-not-armed-during-POST")
		}
	case 1:
		vAssume(si.refs >= 1)
		si.endPOST()
		if !stopped {
			vAssert(si.refs == refs0-1, "C11.timer.endPOST-counts")
			vAssert(gt.armed == (si.refs == 0), "C11.timer.rearmed-iff-last-POST-ended")
			if si.refs == 0 {
				vAssert(len(gt.resets) == 1 && gt.resets[0] == si.timeout, "C11.timer.rearmed-with-full-timeout")
				vReach("rearmed")
			} else {
				vAssert(len(gt.resets) == 0, "C11.idle-timer-not-armed-during-POST")
			}
		}
	case 2:
		si.stopTimer()
		vAssert(si.timer == nil, "C11.timer.stopped-for-good")
		if gt != nil {
			vAssert(!gt.armed, "C11.timer.stopped-for-good")
		}
		// afterwards neither startPOST nor endPOST can re-arm it
		si.startPOST()
		si.endPOST()
		if gt != nil {
			vAssert(!gt.armed && len(gt.resets) == 0, "C11.timer.never-rearmed-after-stop")
		}
	}
	vAssert(si.refs >= 0, "C11.timer.refs-nonnegative")
	vReach("end")
}

// H3: stateless endpoints answer everything but POST with 405 + Allow and never carry a session id.
func zzC11Stateless() {
	env := &zzC11Env{timers: map[*time.Timer]*zzTimer{}, media: "application/json"}
	zzC11 = env
	srv := &Server{}
	srv.opts.GetSessionID = func() string { env.minted++; return "NEW" }
	// every way a stateless endpoint can be configured: with or without an event store, JSON or SSE answers, a
	// session timeout (meaningless here), whatever protocol version the request names
	sopts := &StreamableHTTPOptions{Stateless: true, DisableLocalhostProtection: true, JSONResponse: vBool("jsonResponse")}
	if vBool("eventStore") {
		sopts.EventStore = NewMemoryEventStore(nil)
	}
	if vBool("sessionTimeout") {
		sopts.SessionTimeout = time.Duration(vIntRange("timeout", 1, 1<<40))
	}
	h := NewStreamableHTTPHandler(func(*http.Request) *Server { return srv }, sopts)
	methods := []string{http.MethodGet, http.MethodPost, http.MethodDelete, http.MethodPut}
	method := methods[vChoice("method", 4)]
	req := &http.Request{Method: method, Header: http.Header{}}
	req.Header.Set("Accept", "application/json, text/event-stream")
	req.Header.Set("Content-Type", "application/json")
	// ... including revisions this SDK has never heard of: one from the legacy era (refused by the handler: there is no
	// JSON-RPC answer it could give) and one newer than 2026-07-28, which has to reach the session layer because that is
	// where the unsupported-version answer (-32022 with the supported list) is produced (C06)
	pv := []string{"", protocolVersion20250326, protocolVersion20251125, protocolVersion20260728, "2020-01-01", "2099-12-31"}[vChoice("versionHeader", 6)]
	if pv != "" {
		req.Header.Set(protocolVersionHeader, pv)
	}
	if vBool("sendsSessionID") {
		req.Header.Set(sessionIDHeader, "A")
	}
	gateOK, gateStatus := true, 0
	if method == http.MethodPost {
		gateOK, gateStatus = zzAcceptAndType(req)
	}
	w := &zzRec{hdr: http.Header{}}
	h.ServeHTTP(w, req)
	if pv == "2020-01-01" {
		// checked before anything else, whatever the method
		vAssert(w.code == http.StatusBadRequest && len(env.served) == 0 && env.connects == 0, "C12.precondition-violations-never-reach-a-session")
		vReach("unknown-legacy-version")
	} else if method != http.MethodPost {
		vAssert(w.code == http.StatusMethodNotAllowed && w.hdr.Get("Allow") == "POST" && len(env.served) == 0, "C11.stateless-405")
		vReach("405")
	} else if !gateOK {
		vAssert(w.code == gateStatus && len(env.served) == 0 && env.connects == 0, "C12.precondition-violations-never-reach-a-session")
		vReach("gate-refused")
	} else {
		if pv == "2099-12-31" {
			vAssert(len(env.served) == 1, "C06.unknown-future-version-reaches-the-layer-that-answers-32022")
			vReach("unknown-future-version")
		}
		vAssert(len(env.served) == 1 && env.served[0].SessionID == "" && env.served[0].Stateless, "C11.stateless-no-session-id")
		vAssert(env.minted == 0 && w.hdr.Get(sessionIDHeader) == "", "C11.stateless-no-session-id")
		vReach("post")
	}
	vAssert(len(h.sessions) == 0 && len(env.timers) == 0, "C11.stateless-keeps-no-sessions")
	vReach("end")
}

func zzEphemeralOpts(h *StreamableHTTPHandler, req *http.Request) (*ephemeralConnectInfo, error) {
	return &ephemeralConnectInfo{opts: &ServerSessionOptions{State: &ServerSessionState{InitializeParams: &InitializeParams{ProtocolVersion: protocolVersion20250618}, InitializedParams: &InitializedParams{}}}}, nil
}

// ---------------------------------------------------------------- C12: the request-body size gate
//
// Whatever the framing of the request (declared length, unknown length as with chunked transfer or HTTP/2, or a
// declared length of zero), a body handed on to the session's transport is bounded by MaxRequestBodyBytes — the
// net/http limiter itself (413 on overrun) is the library's; what is decided here is that it is always installed.

type zzLimitedBody struct {
	inner io.ReadCloser
	limit int64
}

func (b *zzLimitedBody) Read(p []byte) (int, error) { return 0, io.EOF }
func (b *zzLimitedBody) Close() error               { return nil }

func zzMaxBytesReader(w http.ResponseWriter, r io.ReadCloser, n int64) io.ReadCloser {
	return &zzLimitedBody{inner: r, limit: n}
}

var zzSeenBody io.ReadCloser

func zzTransportServeBody(t *StreamableServerTransport, w http.ResponseWriter, req *http.Request) {
	zzC11.served = append(zzC11.served, t)
	zzSeenBody = req.Body
	w.WriteHeader(http.StatusOK)
}

func zzC12BodyLimit() {
	env := &zzC11Env{timers: map[*time.Timer]*zzTimer{}, media: "application/json"}
	zzC11 = env
	zzSeenBody = nil
	srv := &Server{}
	srv.opts.GetSessionID = func() string { return "NEW" }
	configured := int64(vIntRange("maxRequestBodyBytes", -1, 1<<40)) // negative: limit disabled; 0: default; else the limit
	stateless := vBool("stateless")
	h := NewStreamableHTTPHandler(func(*http.Request) *Server { return srv }, &StreamableHTTPOptions{DisableLocalhostProtection: true, MaxRequestBodyBytes: configured, Stateless: stateless})
	req := &http.Request{Method: http.MethodPost, Header: http.Header{}, Body: zzRawBody{}}
	req.Header.Set("Accept", "application/json, text/event-stream")
	req.Header.Set("Content-Type", "application/json")
	req.ContentLength = int64(vIntRange("contentLength", -1, 1<<50)) // -1: unknown (chunked / HTTP/2 without length)
	if !stateless && vBool("existingSession") {
		zzC11Session(h, "A", "")
		req.Header.Set(sessionIDHeader, "A")
	}
	w := &zzRec{hdr: http.Header{}}
	h.ServeHTTP(w, req)
	vAssert(len(env.served) == 1, "C12.body-limit.request-served")
	want := configured
	if configured == 0 {
		want = DefaultMaxRequestBodyBytes
	}
	lb, limited := zzSeenBody.(*zzLimitedBody)
	if want > 0 {
		vAssert(limited && lb.limit == want, "C12.body-bounded-whatever-the-framing")
		vReach("bounded")
	} else {
		vAssert(!limited, "C12.body-limit.disabled-by-negative-option")
	}
	vReach("end")
}

// ---------------------------------------------------------------- C12: DNS-rebinding gate (loopback listener requires a loopback Host)
//
// Two consecutive requests on one handler, each arriving on its own local address with its own Host header: each is
// judged on its own address and Host — refused with 403 and kept from the server iff it arrived on a loopback address
// with a Host that is not loopback — whatever the handler has seen before.

func zzC12Loopback() {
	env := &zzC11Env{timers: map[*time.Timer]*zzTimer{}, media: "application/json"}
	zzC11 = env
	srv := &Server{}
	h := NewStreamableHTTPHandler(func(*http.Request) *Server { return srv }, &StreamableHTTPOptions{Stateless: true})
	locals := []string{"127.0.0.1:8080", "[::1]:8080", "192.0.2.10:8080", ""}
	localIsLoopback := []bool{true, true, false, false}
	hosts := []string{"localhost:8080", "127.0.0.1:8080", "evil.example", "evil.example:8080", "[::1]:8080", "notlocalhost:8080", "localhost.evil.example", "127.0.0.1.evil.example:80", "evil.example.mylocalhost", "localhost"}
	hostIsLoopback := []bool{true, true, false, false, true, false, false, false, false, true}
	for i := 0; i < 2; i++ {
		li, hi := vChoice("localAddr", 4), vChoice("host", len(hosts))
		ctx := context.Background()
		if locals[li] != "" {
			ctx = context.WithValue(ctx, http.LocalAddrContextKey, net.Addr(zzAddr(locals[li])))
		}
		req := (&http.Request{Method: http.MethodPost, Header: http.Header{}, Host: hosts[hi], Body: zzRawBody{}}).WithContext(ctx)
		req.Header.Set("Accept", "application/json, text/event-stream")
		req.Header.Set("Content-Type", "application/json")
		w := &zzRec{hdr: http.Header{}}
		before := len(env.served)
		h.ServeHTTP(w, req)
		refused := localIsLoopback[li] && !hostIsLoopback[hi]
		if refused {
			vAssert(w.code == http.StatusForbidden && len(env.served) == before, "C12.loopback-listener-requires-loopback-host")
			vReach("refused")
		} else {
			vAssert(len(env.served) == before+1, "C12.legitimate-host-is-served")
		}
	}
	vReach("end")
}

// zzC03StatelessNotification: a POST that carries only a notification, on a stateless endpoint. It is acknowledged with
// 202 as soon as it is queued for the session's reader; the ephemeral session is closed when the request completes. In
// the schedule where the reader goroutine has not run in between — nothing makes it — the connection is already
// shutting down when the reader gets to the message, and a shutting-down connection admits nothing: the notification
// the client was told had been accepted never reaches its handler (D15, a known finding: measured on the real stack,
// 50 of 50 acknowledged notifications were dropped).
func zzC03StatelessNotification() {
	env := &zzC11Env{timers: map[*time.Timer]*zzTimer{}, media: "application/json", notifOnly: true}
	zzC11 = env
	srv := &Server{}
	srv.opts.GetSessionID = func() string { return "" }
	h := NewStreamableHTTPHandler(func(*http.Request) *Server { return srv }, &StreamableHTTPOptions{Stateless: true, DisableLocalhostProtection: true, JSONResponse: vBool("jsonResponse")})
	req := &http.Request{Method: http.MethodPost, Header: http.Header{}}
	req.Header.Set("Accept", "application/json, text/event-stream")
	req.Header.Set("Content-Type", "application/json")
	w := &zzRec{hdr: http.Header{}}
	h.ServeHTTP(w, req)
	vAssert(w.code == http.StatusAccepted && len(env.served) == 1 && len(env.connCloses) == 1, "C11.stateless-session-closed-when-the-request-completes")
	vKnownRegion("C03.acknowledged-notification-is-dispatched-before-its-session-closes", "stateless-notification-post-dropped", env.closedWithUnread)
	vAssert(!env.closedWithUnread, "C03.acknowledged-notification-is-dispatched-before-its-session-closes")
	vReach("end")
}
