package mcp

import (
	"fmt"
	"context"
	"errors"
	"log/slog"

	"github.com/modelcontextprotocol/go-sdk/internal/jsonrpc2"
	"github.com/modelcontextprotocol/go-sdk/jsonrpc"
)

// C07 — version negotiation: the real Client.Connect/discover run against the real server-side gate
// (ServerSession.handle, validateRequestMeta, Server.discover, ServerSession.initialize, negotiatedVersion,
// filterSupportedVersions and the transports' SupportsProtocolVersion), the RPC carriage being a router.

type zzC07Env struct {
	ss        *ServerSession
	discovers int
	inits     int
	permissive bool
	discoverOutcome int     // the peer is not this SDK: it answers discover with an arbitrary version list
	peerList  []string
}

var zzC07 *zzC07Env

func zzC07Connect(ctx context.Context, t Transport, b binder[*ClientSession, *clientSessionState], s *clientSessionState, onClose func(), logger *slog.Logger) (*ClientSession, error) {
	return &ClientSession{client: b.(*Client)}, nil
}

func zzC07Router(ctx context.Context, method string, req Request) (Result, error) {
	env := zzC07
	var jreq *jsonrpc.Request
	switch method {
	case methodDiscover:
		env.discovers++
		p := req.GetParams().(*DiscoverParams)
		if env.permissive {
			switch env.discoverOutcome {
			case 1: // a server that predates server/discover
				return nil, fmt.Errorf("%w: %q", jsonrpc2.ErrMethodNotFound, method)
			case 2: // discovery unavailable for any other reason
				return nil, errors.New("discover: upstream unavailable")
			case 3: // refuses the version asked for and says which ones it serves
				return nil, &jsonrpc.Error{Code: CodeUnsupportedProtocolVersion, Message: "unsupported protocol version", Data: vJSON(UnsupportedProtocolVersionData{Supported: env.peerList})}
			}
			return &DiscoverResult{SupportedVersions: env.peerList}, nil
		}
		zzC06.meta = p.Meta
		jreq = &jsonrpc.Request{ID: jsonrpc2.Int64ID(1), Method: method, Params: vJSON(p)}
	case methodInitialize:
		env.inits++
		p := req.GetParams().(*InitializeParams)
		zzC06.meta = nil
		jreq = &jsonrpc.Request{ID: jsonrpc2.Int64ID(2), Method: method, Params: vJSON(&initializeParamsV2{InitializeParams: *p})}
	case notificationInitialized:
		zzC06.meta = nil
		jreq = &jsonrpc.Request{Method: method, Params: vJSON(&InitializedParams{})}
	default:
		return nil, errors.New("unexpected RPC " + method)
	}
	res, err := env.ss.handle(context.Background(), jreq)
	if err != nil {
		return nil, err
	}
	r, _ := res.(Result)
	return r, nil
}

func zzConnCloseNop(c *jsonrpc2.Connection) error { return nil }

func zzIsSupported(v string) bool {
	return v == protocolVersion20260728 || v == protocolVersion20251125 || v == protocolVersion20250618 || v == protocolVersion20250326 || v == protocolVersion20241105
}

func zzC07Negotiate() {
	zzC06 = &zzC06Env{}
	env := &zzC07Env{}
	zzC07 = env
	srv := NewServer(&Implementation{Name: "s", Version: "v"}, nil)
	// the server-side transport decides which versions the session may serve
	kind := vChoice("transport", 4)
	var t Transport
	switch kind {
	case 0:
		t = &InMemoryTransport{} // stdio / in-memory: every SDK version
	case 1:
		t = &SSEServerTransport{}
	case 2:
		st := &StreamableServerTransport{Stateless: false, SessionID: "S"}
		if vBool("emptySessionID") {
			st.SessionID = ""
		}
		t = st
	default:
		t = &StreamableServerTransport{Stateless: true}
	}
	modernOK := kind == 0 || kind == 3 // 2026-07-28 is never served over SSE or a stateful HTTP endpoint
	env.ss = &ServerSession{server: srv, supportedVersions: filterSupportedVersions(t)}

	c := NewClient(&Implementation{Name: "c", Version: "v"}, nil)
	c.sendingMethodHandler_ = zzC07Router
	requested := vStringAmong("requested", "", protocolVersion20241105, protocolVersion20250326, protocolVersion20250618, protocolVersion20251125, protocolVersion20260728)
	cs, err := c.Connect(context.Background(), t, &ClientSessionOptions{ProtocolVersion: requested})
	vAssert(env.discovers <= 2, "C07.at-most-two-discover-attempts")
	if err != nil {
		vReach("failed")
		return
	}
	got := cs.state.InitializeResult.ProtocolVersion
	vAssert(zzIsSupported(got), "C07.negotiated-version-supported-by-the-sdk")
	vAssert(got < protocolVersion20260728 || modernOK, "C07.modern-protocol-only-where-the-transport-serves-it")
	want := requested
	if requested == "" {
		want = latestProtocolVersion
	}
	if zzIsSupported(want) && (want < protocolVersion20260728 || modernOK) {
		vAssert(got == want, "C07.requested-version-honoured-when-mutually-supported")
		vReach("honoured")
	}
	// the server side agrees on the version it serves this session with
	sp := env.ss.state.InitializeParams
	vAssert(sp != nil, "C07.server-session-initialized")
	if got >= protocolVersion20260728 {
		vAssert(env.inits == 0 && sp.ProtocolVersion == got, "C07.modern-session-without-handshake")
		vReach("modern")
	} else {
		vAssert(env.inits == 1 && env.ss.state.InitializedParams != nil, "C07.legacy-session-handshaken")
		vReach("legacy")
	}
	vReach("end")
}

// The client half against an arbitrary peer: whatever list a (non-SDK) server advertises, the client only
// ever settles on a version this SDK supports.
func zzC07ArbitraryPeer() {
	zzC06 = &zzC06Env{}
	env := &zzC07Env{permissive: true}
	zzC07 = env
	srv := NewServer(&Implementation{Name: "s", Version: "v"}, nil)
	env.ss = &ServerSession{server: srv, supportedVersions: filterSupportedVersions(&InMemoryTransport{})}
	requested := vStringAmong("requested", "", protocolVersion20241105, protocolVersion20250326, protocolVersion20250618, protocolVersion20251125, protocolVersion20260728)
	// (the peer answers server/discover whatever version it is asked with, listing any subset of real versions;
	// a peer that advertises versions unknown to this SDK is outside the property's quantifier)
	for _, v := range []string{protocolVersion20250618, protocolVersion20251125, protocolVersion20260728} {
		if vBool("lists_" + v) {
			env.peerList = append(env.peerList, v)
		}
	}
	env.discoverOutcome = vChoice("discoverOutcome", 4) // a list / method not found / some other failure / -32022 with a list
	listsModern := false
	for _, v := range env.peerList {
		if v == protocolVersion20260728 {
			listsModern = true
		}
	}
	c := NewClient(&Implementation{Name: "c", Version: "v"}, nil)
	c.sendingMethodHandler_ = zzC07Router
	cs, err := c.Connect(context.Background(), &InMemoryTransport{}, &ClientSessionOptions{ProtocolVersion: requested})
	vAssert(env.discovers <= 2, "C07.at-most-two-discover-attempts")
	modernRequested := requested == "" || requested >= protocolVersion20260728
	if modernRequested && (env.discoverOutcome != 0 || !listsModern) {
		// discovery unavailable, failing, or without modern overlap: the client falls back to the initialize
		// handshake (which this peer serves) instead of giving up or trusting the discover answer
		vAssert(err == nil && env.inits == 1, "C07.falls-back-to-initialize-when-discovery-gives-nothing")
		vReach("fell-back")
	}
	if err != nil {
		vReach("failed")
		return
	}
	got := cs.state.InitializeResult.ProtocolVersion
	vAssert(zzIsSupported(got), "C07.negotiated-version-supported-by-the-sdk")
	if env.inits == 1 {
		vAssert(got < protocolVersion20260728, "C07.handshake-yields-a-legacy-version")
	}
	vReach("end")
}
