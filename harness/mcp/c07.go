package mcp

import (
	"io"
	"fmt"
	"context"
	"errors"
	"log/slog"

	"github.com/modelcontextprotocol/go-sdk/internal/jsonrpc2"
	"github.com/modelcontextprotocol/go-sdk/jsonrpc"
)

// C07 — version negotiation: the real Client.Connect/discover run against the real server-side gate
// (ServerSession.handle, validateRequestMeta, Server.discover, ServerSession.initialize, negotiatedVersion,
// filterSupportedVersions and the transports' SupportsProtocolVersion), the RPC carriage being a router.

type zzC07Env struct {
	ss        *ServerSession
	discovers int
	inits     int
	permissive bool
	discoverOutcome int     // the peer is not this SDK: it answers discover with an arbitrary version list
	peerList  []string
}

var zzC07 *zzC07Env

func zzC07Connect(ctx context.Context, t Transport, b binder[*ClientSession, *clientSessionState], s *clientSessionState, onClose func(), logger *slog.Logger) (*ClientSession, error) {
	return &ClientSession{client: b.(*Client)}, nil
}

func zzC07Router(ctx context.Context, method string, req Request) (Result, error) {
	env := zzC07
	var jreq *jsonrpc.Request
	switch method {
	case methodDiscover:
		env.discovers++
		p := req.GetParams().(*DiscoverParams)
		if env.permissive {
			switch env.discoverOutcome {
			case 1: // a server that predates server/discover
				return nil, fmt.Errorf("%w: %q", jsonrpc2.ErrMethodNotFound, method)
			case 2: // discovery unavailable for any other reason
				return nil, errors.New("discover: upstream unavailable")
			case 3: // refuses the version asked for and says which ones it serves
				return nil, &jsonrpc.Error{Code: CodeUnsupportedProtocolVersion, Message: "unsupported protocol version", Data: vJSON(UnsupportedProtocolVersionData{Supported: env.peerList})}
			}
			return &DiscoverResult{SupportedVersions: env.peerList}, nil
		}
		zzC06.meta = p.Meta
		jreq = &jsonrpc.Request{ID: jsonrpc2.Int64ID(1), Method: method, Params: vJSON(p)}
	case methodInitialize:
		env.inits++
		p := req.GetParams().(*InitializeParams)
		zzC06.meta = nil
		jreq = &jsonrpc.Request{ID: jsonrpc2.Int64ID(2), Method: method, Params: vJSON(&initializeParamsV2{InitializeParams: *p})}
	case notificationInitialized:
		zzC06.meta = nil
		jreq = &jsonrpc.Request{Method: method, Params: vJSON(&InitializedParams{})}
	default:
		return nil, errors.New("unexpected RPC " + method)
	}
	res, err := env.ss.handle(context.Background(), jreq)
	if err != nil {
		return nil, err
	}
	r, _ := res.(Result)
	return r, nil
}

func zzConnCloseNop(c *jsonrpc2.Connection) error { return nil }

func zzC07Negotiate() {
	zzC06 = &zzC06Env{}
	env := &zzC07Env{}
	zzC07 = env
	srv := NewServer(&Implementation{Name: "s", Version: "v"}, nil)
	// the server-side transport decides which versions the session may serve
	kind := vChoice("transport", 4)
	var t Transport
	switch kind {
	case 0:
		t = &InMemoryTransport{} // stdio / in-memory: every SDK version
	case 1:
		t = &SSEServerTransport{}
	case 2:
		st := &StreamableServerTransport{Stateless: false, SessionID: "S"}
		if vBool("emptySessionID") {
			st.SessionID = ""
		}
		t = st
	default:
		t = &StreamableServerTransport{Stateless: true}
	}
	modernOK := kind == 0 || kind == 3 // 2026-07-28 is never served over SSE or a stateful HTTP endpoint
	if vBool("wrappedInALoggingTransport") {
		// logging what goes over a transport changes nothing about the versions it can serve (defect D30, fixed: the
		// wrapper hid the limits of the transport inside it)
		t = &LoggingTransport{Transport: t, Writer: io.Discard}
	}
	env.ss = &ServerSession{server: srv, supportedVersions: filterSupportedVersions(t)}
	// what a session (and every discover answer built from it) holds is its own list: code that edits it — a
	// middleware trimming the versions it advertises — must not be editing the SDK's table for every other session
	if sv := env.ss.supportedVersions; len(sv) > 0 {
		keep := sv[0]
		sv[0] = "edited-by-a-middleware"
		vAssert(supportedProtocolVersions[0] != "edited-by-a-middleware", "C07.session-version-list-is-not-the-sdk-table")
		sv[0] = keep
	}

	c := NewClient(&Implementation{Name: "c", Version: "v"}, nil)
	c.sendingMethodHandler_ = zzC07Router
	requested := vStringAmong("requested", "", protocolVersion20241105, protocolVersion20250326, protocolVersion20250618, protocolVersion20251125, protocolVersion20260728)
	cs, err := c.Connect(context.Background(), t, &ClientSessionOptions{ProtocolVersion: requested})
	vAssert(env.discovers <= 2, "C07.at-most-two-discover-attempts")
	if err != nil {
		vReach("failed")
		return
	}
	got := cs.state.InitializeResult.ProtocolVersion
	vAssert(zzIsSupported(got), "C07.negotiated-version-supported-by-the-sdk")
	vAssert(got < protocolVersion20260728 || modernOK, "C07.modern-protocol-only-where-the-transport-serves-it")
	want := requested
	if requested == "" {
		want = latestProtocolVersion
	}
	if zzIsSupported(want) && (want < protocolVersion20260728 || modernOK) {
		vAssert(got == want, "C07.requested-version-honoured-when-mutually-supported")
		vReach("honoured")
	}
	// the server side agrees on the version it serves this session with
	sp := env.ss.state.InitializeParams
	vAssert(sp != nil, "C07.server-session-initialized")
	if got >= protocolVersion20260728 {
		vAssert(env.inits == 0 && sp.ProtocolVersion == got, "C07.modern-session-without-handshake")
		vReach("modern")
	} else {
		vAssert(env.inits == 1 && env.ss.state.InitializedParams != nil, "C07.legacy-session-handshaken")
		vReach("legacy")
	}
	vReach("end")
}

// The client half against an arbitrary peer: whatever list a (non-SDK) server advertises, the client only
// ever settles on a version this SDK supports.
func zzC07ArbitraryPeer() {
	zzC06 = &zzC06Env{}
	env := &zzC07Env{permissive: true}
	zzC07 = env
	srv := NewServer(&Implementation{Name: "s", Version: "v"}, nil)
	env.ss = &ServerSession{server: srv, supportedVersions: filterSupportedVersions(&InMemoryTransport{})}
	requested := vStringAmong("requested", "", protocolVersion20241105, protocolVersion20250326, protocolVersion20250618, protocolVersion20251125, protocolVersion20260728)
	// (the peer answers server/discover whatever version it is asked with, listing any subset of real versions;
	// a peer that advertises versions unknown to this SDK is outside the property's quantifier)
	for _, v := range []string{protocolVersion20250618, protocolVersion20251125, protocolVersion20260728} {
		if vBool("lists_" + v) {
			env.peerList = append(env.peerList, v)
		}
	}
	env.discoverOutcome = vChoice("discoverOutcome", 4) // a list / method not found / some other failure / -32022 with a list
	listsModern := false
	for _, v := range env.peerList {
		if v == protocolVersion20260728 {
			listsModern = true
		}
	}
	c := NewClient(&Implementation{Name: "c", Version: "v"}, nil)
	c.sendingMethodHandler_ = zzC07Router
	copts := &ClientSessionOptions{ProtocolVersion: requested}
	cs, err := c.Connect(context.Background(), &InMemoryTransport{}, copts)
	// the options are the caller's: they are read, never written (a caller re-using one value for its next Connect —
	// a reconnect, another endpoint — asks for what it wrote there, not for what the last negotiation ended with)
	vAssert(copts.ProtocolVersion == requested, "C07.connect-leaves-the-callers-options-alone")
	vAssert(env.discovers <= 2, "C07.at-most-two-discover-attempts")
	modernRequested := requested == "" || requested >= protocolVersion20260728
	if modernRequested && (env.discoverOutcome != 0 || !listsModern) {
		// discovery unavailable, failing, or without modern overlap: the client falls back to the initialize
		// handshake (which this peer serves) instead of giving up or trusting the discover answer
		vAssert(err == nil && env.inits == 1, "C07.falls-back-to-initialize-when-discovery-gives-nothing")
		vReach("fell-back")
	}
	if err != nil {
		vReach("failed")
		return
	}
	got := cs.state.InitializeResult.ProtocolVersion
	vAssert(zzIsSupported(got), "C07.negotiated-version-supported-by-the-sdk")
	if env.inits == 1 {
		vAssert(got < protocolVersion20260728, "C07.handshake-yields-a-legacy-version")
	}
	vReach("end")
}

// ---------------------------------------------------------------- Client.Connect: what follows the negotiation (C05, C18, C07)
//
// Modern session: the client opens subscriptions/listen for exactly the list-changed notifications it has handlers for
// (none: no listen) — otherwise the server never counts it among the entitled sessions (C18); a listen that cannot be
// opened fails the connect and cancels the listen. Legacy session: a handshake that fails at any step (initialize
// refused, a version this SDK does not support, the initialized notification undeliverable) closes the half-built
// session exactly once and reports the error; nothing is left running.
type zzConnectEnv struct {
	listens      []*SubscriptionsListenParams
	listenCtx    []context.Context
	listenFails  bool
	initOutcome  int // 0 ok, 1 initialize fails, 2 version unknown to this SDK
	notifyFails  bool
	closes       int
	sessionUpd   int
}

var zzCE *zzConnectEnv

func zzConnectRouter(ctx context.Context, method string, req Request) (Result, error) {
	e := zzCE
	switch method {
	case methodDiscover:
		return &DiscoverResult{SupportedVersions: []string{protocolVersion20260728, protocolVersion20251125}}, nil
	case methodSubscriptionsListen:
		e.listens = append(e.listens, req.GetParams().(*SubscriptionsListenParams))
		e.listenCtx = append(e.listenCtx, ctx)
		if e.listenFails {
			return nil, errors.New("listen refused")
		}
		return &SubscriptionsListenResult{}, nil
	case methodInitialize:
		switch e.initOutcome {
		case 1:
			return nil, errors.New("initialize refused")
		case 2:
			// ... from before the legacy era, or from after every revision this SDK knows (a server newer than the client)
			return &InitializeResult{ProtocolVersion: []string{"1999-01-01", "2099-12-31", protocolVersion20260728 + "-draft"}[vChoice("unknownVersion", 3)]}, nil
		}
		return &InitializeResult{ProtocolVersion: protocolVersion20251125}, nil
	case notificationInitialized:
		if e.notifyFails {
			return nil, errors.New("connection lost")
		}
		return nil, nil
	}
	return nil, errors.New("unexpected RPC " + method)
}

func zzConnectConnClose(c *jsonrpc2.Connection) error { zzCE.closes++; return nil }

func zzC07ConnectOutcomes() {
	zzC06 = &zzC06Env{}
	e := &zzConnectEnv{}
	zzCE = e
	opts := &ClientOptions{}
	hT, hP, hR := vBool("toolHandler"), vBool("promptHandler"), vBool("resourceHandler")
	if hT {
		opts.ToolListChangedHandler = func(context.Context, *ToolListChangedRequest) {}
	}
	if hP {
		opts.PromptListChangedHandler = func(context.Context, *PromptListChangedRequest) {}
	}
	if hR {
		opts.ResourceListChangedHandler = func(context.Context, *ResourceListChangedRequest) {}
	}
	c := NewClient(&Implementation{Name: "c", Version: "v"}, opts)
	c.sendingMethodHandler_ = zzConnectRouter
	modern := vBool("modernSession")
	requested := protocolVersion20251125
	if modern {
		requested = protocolVersion20260728
		e.listenFails = vBool("listenRefused")
	} else {
		e.initOutcome = vChoice("initialize", 3)
		e.notifyFails = vBool("initializedUndeliverable")
	}
	cs, err := c.Connect(context.Background(), &InMemoryTransport{}, &ClientSessionOptions{ProtocolVersion: requested})
	if modern {
		want := hT || hP || hR
		if !want {
			vAssert(err == nil && len(e.listens) == 0 && cs.listenCancel == nil, "C18.connect.no-handlers-no-listen")
			vReach("no-listen")
		} else {
			vAssert(len(e.listens) == 1, "C18.connect.one-listen-for-the-handlers-it-has")
			n := e.listens[0].Notifications
			vAssert(n != nil && n.ToolsListChanged == hT && n.PromptsListChanged == hP && n.ResourcesListChanged == hR, "C18.connect.subscribes-to-exactly-the-notifications-it-handles")
			if e.listenFails {
				vAssert(err != nil && cs == nil, "C18.connect.unopenable-listen-fails-the-connect")
				vAssert(e.listenCtx[0].Err() != nil, "C05.connect.failed-listen-is-cancelled")
				vReach("listen-refused")
			} else {
				vAssert(err == nil && cs.listenCancel != nil && e.listenCtx[0].Err() == nil, "C18.connect.listen-stays-open")
				cs.Close()
				vAssert(e.listenCtx[0].Err() != nil, "C05.close-ends-the-listen-stream")
				vReach("listening")
			}
		}
		vReach("end")
		return
	}
	failed := e.initOutcome != 0 || e.notifyFails
	if failed {
		vAssert(err != nil && cs == nil, "C07.connect.failed-handshake-is-an-error")
		vAssert(e.closes == 1, "C05.connect.failed-handshake-closes-the-session-once")
		vReach("handshake-failed")
	} else {
		vAssert(err == nil && cs != nil && e.closes == 0, "C07.connect.ok")
		vAssert(cs.state.InitializeResult.ProtocolVersion == protocolVersion20251125, "C07.connect.version-recorded")
	}
	vReach("end")
}
