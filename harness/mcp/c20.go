package mcp

import (
	"context"
	"errors"
)

// C20 — MemoryEventStore: one operation from an arbitrary store satisfying the representation
// invariant (ADT step), plus short histories from the empty store.

// zzList is the ghost view of one stream: what was appended (only the retained
// suffix is materialised; `first` items before it are "already evicted").
type zzList struct {
	sess, stream string
	dl           *dataList
	first        int      // number of evicted items
	items        [][]byte // retained items, in order
}

var zzC20Names = [][2]string{{"S0", "a"}, {"S0", "b"}, {"S1", "a"}}

// zzStore builds an arbitrary store satisfying the representation invariant, using
// the real init/appendData for the shape and symbolic values for sizes.
func zzStore(maxLists, maxItems int) (*MemoryEventStore, []*zzList) {
	s := NewMemoryEventStore(nil)
	s.maxBytes = vInt("maxBytes")
	vAssume(s.maxBytes >= 1)
	nl := vInt("nl")
	vAssume(nl >= 1 && nl <= maxLists)
	var ls []*zzList
	for i := 0; i < nl; i++ {
		l := &zzList{sess: zzC20Names[i][0], stream: zzC20Names[i][1]}
		l.dl = s.init(l.sess, l.stream)
		l.first = vInt("first")
		vAssume(l.first >= 0 && l.first <= 1<<40)
		l.dl.first = l.first
		n := vInt("n")
		vAssume(n >= 0 && n <= maxItems)
		for j := 0; j < n; j++ {
			d := vBytes("d", 1<<30)
			l.dl.appendData(d)
			s.nBytes += len(d)
			l.items = append(l.items, d)
		}
		ls = append(ls, l)
	}
	return s, ls
}

// zzRepInv: size = Σ len(item); nBytes = Σ size; data is exactly the retained ghost items; first agrees.
func zzRepInv(s *MemoryEventStore, ls []*zzList) bool {
	total := 0
	for _, l := range ls {
		if l.dl.first != l.first || len(l.dl.data) != len(l.items) {
			return false
		}
		sz := 0
		for i, d := range l.dl.data {
			if !vSame(d, l.items[i]) {
				return false
			}
			sz += len(d)
		}
		if sz != l.dl.size {
			return false
		}
		total += sz
	}
	return total == s.nBytes
}

func zzCollect(s *MemoryEventStore, sess, stream string, idx int) ([][]byte, error) {
	var got [][]byte
	var gerr error
	n := 0
	for d, err := range s.After(context.Background(), sess, stream, idx) {
		n++
		if err != nil {
			gerr = err
			vAssert(d == nil, "C20.after.err-without-data")
			break
		}
		got = append(got, d)
	}
	return got, gerr
}

// zzAfterSpec checks After(idx) against the ghost list l.
func zzAfterSpec(l *zzList, idx int, got [][]byte, gerr error) {
	if idx+1 < l.first {
		vAssert(gerr != nil && errors.Is(gerr, ErrEventsPurged) && len(got) == 0, "C20.after.purged")
		vReach("purged")
		return
	}
	vAssert(gerr == nil, "C20.after.noerr")
	start := idx + 1 - l.first
	want := 0
	if start < len(l.items) {
		want = len(l.items) - start
	}
	vAssert(len(got) == want, "C20.after.count")
	for k := 0; k < len(got); k++ {
		vAssert(vSame(got[k], l.items[start+k]), "C20.after.item")
	}
	vReach("served")
}

func zzGuardStore(s *MemoryEventStore, ls []*zzList) {
	objs := []any{s.store, &s.nBytes, &s.maxBytes}
	for _, l := range ls {
		objs = append(objs, l.dl, l.dl.data)
	}
	for _, m := range s.store {
		objs = append(objs, m)
	}
	vGuard(&s.mu, objs...)
}

func zzC20After() {
	s, ls := zzStore(vParam("lists"), vParam("items"))
	vAssume(zzRepInv(s, ls))
	zzGuardStore(s, ls)
	l := ls[vChoice("which", len(ls))]
	idx := vInt("idx")
	vAssume(idx >= -1 && idx < 1<<62)
	got, gerr := zzCollect(s, l.sess, l.stream, idx)
	zzAfterSpec(l, idx, got, gerr)
	vAssert(zzRepInv(s, ls), "C20.after.inv")
	vReach("end")
}

// After for a session or stream the store has never seen: an error, never data.
func zzC20AfterUnknown() {
	s, ls := zzStore(vParam("lists"), vParam("items"))
	idx := vInt("idx")
	vAssume(idx >= -1 && idx < 1<<62)
	var got [][]byte
	var gerr error
	if vBool("unknownSession") {
		got, gerr = zzCollect(s, "nosuch", "a", idx)
	} else {
		got, gerr = zzCollect(s, ls[0].sess, "nosuch", idx)
	}
	vAssert(gerr != nil && len(got) == 0, "C20.after.unknown")
	vAssert(zzRepInv(s, ls), "C20.after.inv")
	vReach("end")
}

func zzGhostEvict(ls []*zzList, label string) {
	for _, g := range ls {
		ev := g.dl.first - g.first
		vAssert(ev >= 0 && ev <= len(g.items), label)
		g.items = g.items[ev:]
		g.first = g.dl.first
	}
}

func zzC20Append() {
	s, ls := zzStore(vParam("lists"), vParam("items"))
	vAssume(zzRepInv(s, ls))
	zzGuardStore(s, ls)
	l := ls[vChoice("which", len(ls))]
	d := vBytes("new", 1<<30)
	if err := s.Append(context.Background(), l.sess, l.stream, d); err != nil {
		vAssert(false, "C20.append.err")
	}
	// ghost update: some prefix of every list may have been evicted; the new item is retained.
	zzGhostEvict(ls, "C20.append.evict-front-only")
	l.items = append(l.items, d)
	vAssert(zzRepInv(s, ls), "C20.append.inv")
	vAssert(s.nBytes-len(d) <= s.maxBytes, "C20.append.bound")
	// the item just appended is immediately replayable
	got, gerr := zzCollect(s, l.sess, l.stream, l.first+len(l.items)-2)
	vAssert(gerr == nil && len(got) == 1 && vSame(got[0], d), "C20.append.replayable")
	vReach("end")
}

// Append to a stream that was never opened creates it (index 0).
func zzC20AppendNew() {
	s, ls := zzStore(vParam("lists"), vParam("items"))
	vAssume(zzRepInv(s, ls))
	d := vBytes("new", 1<<30)
	if err := s.Append(context.Background(), "S9", "z", d); err != nil {
		vAssert(false, "C20.append.err")
	}
	zzGhostEvict(ls, "C20.append.evict-front-only")
	nl := &zzList{sess: "S9", stream: "z", dl: s.store["S9"]["z"], items: [][]byte{d}}
	vAssert(nl.dl != nil, "C20.appendnew.created")
	ls = append(ls, nl)
	vAssert(zzRepInv(s, ls), "C20.append.inv")
	vAssert(s.nBytes-len(d) <= s.maxBytes, "C20.append.bound")
	vReach("end")
}

func zzC20SetMaxBytes() {
	s, ls := zzStore(vParam("lists"), vParam("items"))
	vAssume(zzRepInv(s, ls))
	zzGuardStore(s, ls)
	n := vInt("n")
	vAssume(n >= 0)
	s.SetMaxBytes(n)
	zzGhostEvict(ls, "C20.setmax.evict-front-only")
	vAssert(zzRepInv(s, ls), "C20.setmax.inv")
	vAssert(s.nBytes <= s.maxBytes, "C20.setmax.bound")
	if n == 0 {
		vAssert(s.maxBytes == defaultMaxBytes, "C20.setmax.default")
	} else {
		vAssert(s.maxBytes == n, "C20.setmax.value")
	}
	vAssert(s.MaxBytes() == s.maxBytes, "C20.setmax.getter")
	vReach("end")
}

func zzC20SessionClosed() {
	s, ls := zzStore(vParam("lists"), vParam("items"))
	vAssume(zzRepInv(s, ls))
	zzGuardStore(s, ls)
	var victim string
	switch vChoice("victim", 3) {
	case 0:
		victim = "S0"
	case 1:
		victim = "S1"
	default:
		victim = "nosuch"
	}
	before := s.nBytes
	freed := 0
	var rest []*zzList
	for _, l := range ls {
		if l.sess == victim {
			freed += l.dl.size
		} else {
			rest = append(rest, l)
		}
	}
	if err := s.SessionClosed(context.Background(), victim); err != nil {
		vAssert(false, "C20.closed.err")
	}
	vAssert(s.nBytes == before-freed, "C20.closed.bytes-released")
	_, still := s.store[victim]
	vAssert(!still, "C20.closed.forgotten")
	vAssert(zzRepInv(s, rest), "C20.closed.inv-others")
	for _, l := range rest {
		vAssert(s.store[l.sess][l.stream] == l.dl, "C20.closed.others-untouched")
	}
	// a closed session no longer serves data
	got, gerr := zzCollect(s, victim, "a", -1)
	vAssert(gerr != nil && len(got) == 0, "C20.closed.no-replay")
	// a stream opened afterwards under the same ids is brand new: it replays exactly what is appended to it from
	// index 0, whatever the closed session had stored or evicted
	d := vBytes("fresh", 1<<20)
	vAssume(len(d) <= s.maxBytes)
	if err := s.Append(context.Background(), victim, "a", d); err == nil {
		got, gerr = zzCollect(s, victim, "a", -1)
		vAssert(gerr == nil && len(got) == 1 && vSame(got[0], d), "C20.closed.new-stream-starts-from-scratch")
		got, gerr = zzCollect(s, victim, "a", 0)
		vAssert(gerr == nil && len(got) == 0, "C20.closed.new-stream-starts-from-scratch")
		vReach("reopened")
	}
	vReach("end")
}

func zzC20Open() {
	s, ls := zzStore(vParam("lists"), vParam("items"))
	vAssume(zzRepInv(s, ls))
	zzGuardStore(s, ls)
	before := s.nBytes
	var sess, stream string
	switch vChoice("target", 3) {
	case 0:
		sess, stream = ls[0].sess, ls[0].stream // existing
	case 1:
		sess, stream = ls[0].sess, "fresh" // new stream of an existing session
	default:
		sess, stream = "S9", "a" // new session
	}
	if err := s.Open(context.Background(), sess, stream); err != nil {
		vAssert(false, "C20.open.err")
	}
	vAssert(s.nBytes == before, "C20.open.bytes")
	vAssert(zzRepInv(s, ls), "C20.open.inv")
	for _, l := range ls {
		vAssert(s.store[l.sess][l.stream] == l.dl, "C20.open.others-untouched")
	}
	dl := s.store[sess][stream]
	vAssert(dl != nil, "C20.open.exists")
	got, gerr := zzCollect(s, sess, stream, -1)
	if sess == ls[0].sess && stream == ls[0].stream {
		zzAfterSpec(ls[0], -1, got, gerr)
	} else {
		vAssert(gerr == nil && len(got) == 0 && dl.first == 0 && dl.size == 0, "C20.open.empty")
	}
	vReach("end")
}

// zzC20History: a short history from the empty store; the ghost history is the ground truth.
// Cross-checks that the invariant used by the step harnesses is what real histories produce.
func zzC20History() {
	s := NewMemoryEventStore(nil)
	s.maxBytes = vInt("maxBytes")
	vAssume(s.maxBytes >= 1)
	type hist struct {
		all [][]byte
	}
	h := map[string]*hist{"a": {}, "b": {}}
	steps := vParam("steps")
	for i := 0; i < steps; i++ {
		stream := "a"
		if vBool("stream") {
			stream = "b"
		}
		switch vChoice("op", 4) {
		case 3:
			// the session ends; whatever is appended afterwards under the same ids belongs to brand-new streams
			s.SessionClosed(context.Background(), "S")
			h["a"], h["b"] = &hist{}, &hist{}
			vAssert(s.nBytes == 0 && len(s.store["S"]) == 0, "C20.hist.session-closed-frees-everything")
		case 0:
			d := vBytes("d", 1<<30)
			s.Append(context.Background(), "S", stream, d)
			h[stream].all = append(h[stream].all, d)
			vAssert(s.nBytes-len(d) <= s.maxBytes, "C20.hist.bound")
		case 1:
			n := vInt("newmax")
			vAssume(n >= 1)
			s.SetMaxBytes(n)
			vAssert(s.nBytes <= s.maxBytes, "C20.hist.bound-after-setmax")
		case 2:
			idx := vInt("idx")
			vAssume(idx >= -1 && idx < len(h[stream].all))
			if len(h[stream].all) == 0 {
				continue
			}
			got, gerr := zzCollect(s, "S", stream, idx)
			if gerr != nil {
				vAssert(errors.Is(gerr, ErrEventsPurged) && len(got) == 0, "C20.hist.purged-or-all")
				dl := s.store["S"][stream]
				vAssert(idx+1 < dl.first, "C20.hist.purged-only-if-evicted")
				vReach("hist-purged")
			} else {
				want := h[stream].all[idx+1:]
				vAssert(len(got) == len(want), "C20.hist.count")
				for k := range got {
					vAssert(vSame(got[k], want[k]), "C20.hist.item")
				}
				vReach("hist-served")
			}
		}
	}
	vReach("end")
}

// C10/C20: one store shared by the sessions of a handler, each with a standalone stream of the same id "": what is
// appended for one session is replayed to that session only, whatever the order of the appends.
func zzC20TwoSessions() {
	s := NewMemoryEventStore(nil)
	all := map[string][][]byte{"S": nil, "T": nil}
	steps := vParam("steps")
	for i := 0; i < steps; i++ {
		sess := "S"
		if vBool("otherSession") {
			sess = "T"
		}
		d := vBytes("d", 1<<20)
		vAssert(s.Append(context.Background(), sess, "", d) == nil, "C20.two.append-ok")
		all[sess] = append(all[sess], d)
	}
	for _, sess := range []string{"S", "T"} {
		if len(all[sess]) == 0 {
			continue
		}
		got, gerr := zzCollect(s, sess, "", -1)
		vAssert(gerr == nil && len(got) == len(all[sess]), "C10.store.replay-holds-exactly-that-sessions-events")
		for k := range got {
			if k < len(all[sess]) {
				vAssert(vSame(got[k], all[sess][k]), "C10.store.replay-holds-exactly-that-sessions-events")
			}
		}
	}
	vReach("end")
}
