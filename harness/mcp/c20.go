package mcp

import (
	"context"
	"errors"
)


// zzList is the ghost view of one stream: what was appended (only the retained
// suffix is materialised; `first` items before it are "already evicted").
type zzList struct {
	sess, stream string
	dl           *dataList
	first        int      // number of evicted items
	items        [][]byte // retained items, in order
}

// zzStore builds an arbitrary store satisfying the representation invariant, using
// the real init/appendData for the shape and symbolic values for sizes.
func zzStore(maxLists, maxItems int) (*MemoryEventStore, []*zzList) {
	s := NewMemoryEventStore(nil)
	s.maxBytes = vInt("maxBytes")
	vAssume(s.maxBytes >= 1)
	nl := vInt("nl")
	vAssume(nl >= 1 && nl <= maxLists)
	var ls []*zzList
	names := []string{"a", "b", "c"}
	for i := 0; i < nl; i++ {
		l := &zzList{sess: "S", stream: names[i]}
		l.dl = s.init(l.sess, l.stream)
		l.first = vInt("first")
		vAssume(l.first >= 0 && l.first <= 1000)
		l.dl.first = l.first
		n := vInt("n")
		vAssume(n >= 0 && n <= maxItems)
		for j := 0; j < n; j++ {
			d := vBytes("d", 5)
			l.dl.appendData(d)
			s.nBytes += len(d)
			l.items = append(l.items, d)
		}
		ls = append(ls, l)
	}
	return s, ls
}

func zzRepInv(s *MemoryEventStore, ls []*zzList) bool {
	total := 0
	for _, l := range ls {
		if l.dl.first != l.first || len(l.dl.data) != len(l.items) {
			return false
		}
		sz := 0
		for i, d := range l.dl.data {
			if !vSame(d, l.items[i]) {
				return false
			}
			sz += len(d)
		}
		if sz != l.dl.size {
			return false
		}
		total += sz
	}
	return total == s.nBytes
}

func zzC20After() {
	s, ls := zzStore(2, 2)
	l := ls[0]
	idx := vInt("idx")
	vAssume(idx >= -1 && idx <= l.first+len(l.items)+1)
	var got [][]byte
	var gerr error
	for d, err := range s.After(context.Background(), l.sess, l.stream, idx) {
		if err != nil {
			gerr = err
			break
		}
		got = append(got, d)
	}
	if idx+1 < l.first {
		vAssert(gerr != nil && errors.Is(gerr, ErrEventsPurged) && len(got) == 0, "C20.after.purged")
		vReach("purged")
	} else {
		vAssert(gerr == nil, "C20.after.noerr")
		start := idx + 1 - l.first
		want := 0
		if start < len(l.items) {
			want = len(l.items) - start
		}
		vAssert(len(got) == want, "C20.after.count")
		for k := 0; k < len(got); k++ {
			vAssert(vSame(got[k], l.items[start+k]), "C20.after.item")
		}
		vReach("served")
	}
	vAssert(zzRepInv(s, ls), "C20.after.inv")
}

func zzC20Append() {
	s, ls := zzStore(2, 2)
	l := ls[0]
	d := vBytes("new", 9)
	before := s.nBytes
	_ = before
	if err := s.Append(context.Background(), l.sess, l.stream, d); err != nil {
		vAssert(false, "C20.append.err")
	}
	// ghost update: the new item is retained; some prefix of every list may have been evicted.
	for _, g := range ls {
		ev := g.dl.first - g.first
		vAssert(ev >= 0 && ev <= len(g.items), "C20.append.evict-front-only")
		g.items = g.items[ev:]
		g.first = g.dl.first
	}
	l.items = append(l.items, d)
	vAssert(zzRepInv(s, ls), "C20.append.inv")
	vAssert(s.nBytes <= s.maxBytes+len(d), "C20.append.bound")
	vReach("appended")
}
