package mcp

import (
	"context"
	"log/slog"
	"errors"
	"fmt"
	"time"

	"github.com/modelcontextprotocol/go-sdk/internal/jsonrpc2"
)

// C13 — startKeepalive: the real goroutine body is run against a ticker that delivers K ticks, a session
// stub whose Ping outcome is symbolic per tick, an arbitrary int threshold and an arbitrary interval.

var (
	zzC13PingTimeout   time.Duration
	zzC13PingCancels   int
	zzC13TickerPeriod  time.Duration
	zzC13TickerStopped int
	zzC13Tickers       int
	zzErrPing          = errors.New("ping failed")
)

func zzC13WithTimeout(parent context.Context, d time.Duration) (context.Context, context.CancelFunc) {
	zzC13PingTimeout = d
	ctx, cancel := context.WithCancel(parent)
	return ctx, func() { zzC13PingCancels++; cancel() }
}

func zzC13NewTicker(d time.Duration) *time.Ticker {
	zzC13TickerPeriod = d
	zzC13Tickers++
	k := vParam("ticks")
	ch := make(chan time.Time, 16)
	for i := 0; i < k; i++ {
		ch <- time.Time{}
	}
	return &time.Ticker{C: ch}
}
func zzC13TickerStop(t *time.Ticker) { zzC13TickerStopped++ }

type zzC13Sess struct {
	outcomes   []int // 0 ok, 1 method-not-found, 2 failure
	closes     int
	closedAt   int
	cancel     *context.CancelFunc
	cancelledAt int
	pingCtxs   []context.Context
	leaked     bool
	failureKind int // what a failed ping looks like in this run: generic error / timeout / closed connection
}

func (s *zzC13Sess) Ping(ctx context.Context, p *PingParams) error {
	o := vIntRange("outcome", 0, 2)
	s.outcomes = append(s.outcomes, o)
	s.pingCtxs = append(s.pingCtxs, ctx)
	// the owner may close the session (cancelling keep-alive) at any tick; it must do so at the last tick
	// of the bound so that the goroutine's termination is observable
	if len(s.outcomes) == vParam("ticks") || vBool("ownerCancels") {
		(*s.cancel)()
		if s.cancelledAt == 0 {
			s.cancelledAt = len(s.outcomes)
		}
	}
	switch o {
	case 0:
		return nil
	case 1:
		return fmt.Errorf("%w: %q", jsonrpc2.ErrMethodNotFound, "ping")
	}
	// a miss: the ping timed out (its context expired), the connection reported itself closed, or any other error
	switch s.failureKind {
	case 1:
		vCtxCancel(ctx, context.DeadlineExceeded)
		return ctx.Err()
	case 2:
		return fmt.Errorf("%w: calling %q", ErrConnectionClosed, "ping")
	case 3:
		// the transport could not put the ping on the wire (no stream attached to a dead HTTP client): still a miss
		return fmt.Errorf("calling %q: %w: undelivered message", "ping", jsonrpc2.ErrRejected)
	}
	return zzErrPing
}
func (s *zzC13Sess) Close() error {
	s.closes++
	s.closedAt = len(s.outcomes)
	return nil
}

func zzC13() {
	thr := vInt("threshold") // any int
	interval := vIntRange("interval", 2, 1<<40)
	var cancel context.CancelFunc
	s := &zzC13Sess{cancel: &cancel, failureKind: vChoice("failureKind", 4)}
	startKeepalive(s, time.Duration(interval), thr, &cancel, nil)
	vAssert(cancel != nil, "C13.cancel-assigned-before-return")
	zzC13Verify(s, thr, interval)
}

// zzC13Verify runs the keep-alive goroutine that was just started and compares what it did with the reference model.
func zzC13Verify(s *zzC13Sess, thr, interval int) {
	vAssert(vNumSpawned() == 1, "C13.one-goroutine")
	vRunSpawned(0) // the keep-alive goroutine; returning at all means it terminated (no leak)
	// reference model
	eff := thr
	if eff < 1 {
		eff = 1
	}
	run, want, wantAt, stopped := 0, 0, 0, false
	for i, o := range s.outcomes {
		vAssert(!stopped, "C13.no-ping-after-stop")
		if s.cancelledAt != 0 && i >= s.cancelledAt {
			// pings after the owner's cancellation may or may not happen (select race): not asserted
		}
		switch o {
		case 0:
			run = 0
		case 1:
			stopped = true
		default:
			run++
			if run >= eff {
				want, wantAt, stopped = 1, i+1, true
			}
		}
	}
	vAssert(s.closes == want, "C13.closed-iff-threshold-consecutive-misses")
	if want == 1 {
		vAssert(s.closedAt == wantAt, "C13.closed-right-after-last-miss")
		vReach("closed")
	}
	// (whatever tickers the loop created are stopped when it ends; that it uses exactly one is how it is written today,
	// not part of the property)
	vAssert(zzC13TickerStopped == zzC13Tickers, "C13.ticker-stopped-on-exit")
	vAssert(zzC13Tickers == 0 || int(zzC13TickerPeriod) == interval, "C13.ticker-period")
	vAssert(len(s.outcomes) == 0 || int(zzC13PingTimeout) == interval/2, "C13.ping-timeout-half-interval")
	vAssert(zzC13PingCancels == len(s.outcomes), "C13.every-ping-context-released")
	for _, c := range s.pingCtxs {
		vAssert(c.Err() != nil, "C13.ping-context-cancelled")
	}
	vReach("end")
}

// Cancelling before the first tick: the goroutine exits without pinging or closing.
func zzC13CancelFirst() {
	thr := vInt("threshold")
	interval := vIntRange("interval", 2, 1<<40)
	var cancel context.CancelFunc
	s := &zzC13Sess{cancel: &cancel}
	startKeepalive(s, time.Duration(interval), thr, &cancel, nil)
	cancel()
	vRunSpawned(0)
	// both select cases were ready: any number of pings may have happened, but never a Close unless the
	// threshold was met; with zero pings nothing else happens
	if len(s.outcomes) == 0 {
		vAssert(s.closes == 0, "C13.cancelled-no-close")
		vReach("exit-without-ping")
	}
	vAssert(zzC13TickerStopped == zzC13Tickers, "C13.ticker-stopped-on-exit")
	vReach("end")
}

// ---------------------------------------------------------------- where keep-alive is switched on
//
// startKeepalive is only as good as its call sites: a session that never starts it is never closed when its peer
// dies. The real Server.Connect / Client.Connect run with the transport binding (connect) and the session's
// startKeepalive replaced by recorders.

type zzKAStart struct {
	starts    int
	intervals []time.Duration
}

var zzKA *zzKAStart

func zzServerStartKeepalive(ss *ServerSession, interval time.Duration) {
	zzKA.starts++
	zzKA.intervals = append(zzKA.intervals, interval)
}
func zzClientStartKeepalive(cs *ClientSession, interval time.Duration) {
	zzKA.starts++
	zzKA.intervals = append(zzKA.intervals, interval)
}
func zzC13ServerConnect(ctx context.Context, t Transport, b binder[*ServerSession, *ServerSessionState], s *ServerSessionState, onClose func(), logger *slog.Logger) (*ServerSession, error) {
	ss := &ServerSession{server: b.(*Server), onClose: onClose}
	if s != nil {
		ss.state = *s
	}
	return ss, nil
}

func zzC13ServerStart() {
	ka := &zzKAStart{}
	zzKA = ka
	interval := time.Duration(vIntRange("keepAlive", -1, 1<<40)) // negative, zero (off) or any positive interval
	srv := NewServer(&Implementation{Name: "s", Version: "v"}, &ServerOptions{KeepAlive: interval})
	var opts *ServerSessionOptions
	switch vChoice("options", 4) {
	case 1:
		opts = &ServerSessionOptions{}
	case 2: // a session restored from saved state (e.g. a stateless or distributed deployment)
		opts = &ServerSessionOptions{State: &ServerSessionState{InitializeParams: &InitializeParams{ProtocolVersion: protocolVersion20250618}}}
	case 3:
		opts = &ServerSessionOptions{State: &ServerSessionState{}}
	}
	ss, err := srv.Connect(context.Background(), &InMemoryTransport{}, opts)
	vAssert(err == nil && ss != nil, "C13.server-connect-ok")
	if interval > 0 {
		vAssert(ka.starts == 1 && ka.intervals[0] == interval, "C13.server-session-starts-keepalive-when-configured")
		vReach("on")
	} else {
		vAssert(ka.starts == 0, "C13.keepalive-off-when-not-configured")
	}
	vReach("end")
}

func zzC13ClientStart() {
	ka := &zzKAStart{}
	zzKA = ka
	zzC06 = &zzC06Env{}
	env := &zzC07Env{}
	zzC07 = env
	srv := NewServer(&Implementation{Name: "s", Version: "v"}, nil)
	t := &InMemoryTransport{}
	env.ss = &ServerSession{server: srv, supportedVersions: filterSupportedVersions(t)}
	interval := time.Duration(vIntRange("keepAlive", -1, 1<<40))
	c := NewClient(&Implementation{Name: "c", Version: "v"}, &ClientOptions{KeepAlive: interval})
	c.sendingMethodHandler_ = zzC07Router
	requested := []string{"", protocolVersion20250618, protocolVersion20260728}[vChoice("requested", 3)]
	cs, err := c.Connect(context.Background(), t, &ClientSessionOptions{ProtocolVersion: requested})
	vAssert(err == nil && cs != nil, "C13.client-connect-ok")
	modern := cs.state.InitializeResult.ProtocolVersion >= protocolVersion20260728
	if modern {
		// documented (ClientOptions.KeepAlive): ping is removed from 2026-07-28 and keep-alive is not available there
		vAssert(ka.starts == 0, "C13.no-keepalive-pings-under-2026-07-28")
		vReach("modern")
	} else if interval > 0 {
		vAssert(ka.starts == 1 && ka.intervals[0] == interval, "C13.client-session-starts-keepalive-when-configured")
		vReach("on")
	} else {
		vAssert(ka.starts == 0, "C13.keepalive-off-when-not-configured")
	}
	vReach("end")
}

// ---------------------------------------------------------------- C07: what a server session may negotiate is decided by ITS transport
//
// One Server, several sessions over different transports (the stateless-per-request pattern mounts one Server on several
// handlers): each session's list of servable versions is exactly what its own transport supports — whatever other
// transports the same Server was connected to before.

func zzSameVersions(a, b []string) bool {
	if len(a) != len(b) {
		return false
	}
	for i := range a {
		if a[i] != b[i] {
			return false
		}
	}
	return true
}

func zzC07Transport(tag string) Transport {
	switch vChoice(tag, 4) {
	case 0:
		return &InMemoryTransport{}
	case 1:
		return &SSEServerTransport{}
	case 2:
		return &StreamableServerTransport{Stateless: false, SessionID: "S"}
	}
	return &StreamableServerTransport{Stateless: true}
}

func zzC07ServerSessions() {
	zzKA = &zzKAStart{}
	srv := NewServer(&Implementation{Name: "s", Version: "v"}, nil)
	t1, t2 := zzC07Transport("first"), zzC07Transport("second")
	s1, err1 := srv.Connect(context.Background(), t1, nil)
	s2, err2 := srv.Connect(context.Background(), t2, nil)
	vAssert(err1 == nil && err2 == nil, "C07.server-connect-ok")
	vAssert(s1.supportedVersions != nil && zzSameVersions(s1.supportedVersions, filterSupportedVersions(t1)), "C07.session-serves-what-its-own-transport-supports")
	vAssert(s2.supportedVersions != nil && zzSameVersions(s2.supportedVersions, filterSupportedVersions(t2)), "C07.session-serves-what-its-own-transport-supports")
	vReach("end")
}


// The same loop started the way sessions start it — through the real ServerSession.startKeepalive /
// ClientSession.startKeepalive — with the session's Ping and Close bridged to the scripted stub: whatever sits between
// the session and the loop (adapters, option plumbing) must leave "threshold consecutive misses close the session,
// an answer resets the count" intact for every kind of failed ping.
var zzC13S *zzC13Sess

func zzC13ServerPing(ss *ServerSession, ctx context.Context, p *PingParams) error { return zzC13S.Ping(ctx, p) }
func zzC13ServerClose(ss *ServerSession) error                                       { return zzC13S.Close() }
func zzC13ClientPing(cs *ClientSession, ctx context.Context, p *PingParams) error { return zzC13S.Ping(ctx, p) }
func zzC13ClientClose(cs *ClientSession) error                                       { return zzC13S.Close() }

func zzC13ViaSession() {
	thr := vInt("threshold")
	interval := vIntRange("interval", 2, 1<<40)
	var cancelp *context.CancelFunc
	if vBool("serverSide") {
		srv := &Server{}
		srv.opts.KeepAliveFailureThreshold = thr
		ss := &ServerSession{server: srv}
		cancelp = &ss.keepaliveCancel
		zzC13S = &zzC13Sess{cancel: cancelp, failureKind: vChoice("failureKind", 4)}
		ss.startKeepalive(time.Duration(interval))
	} else {
		c := &Client{}
		c.opts.KeepAliveFailureThreshold = thr
		cs := &ClientSession{client: c}
		cancelp = &cs.keepaliveCancel
		zzC13S = &zzC13Sess{cancel: cancelp, failureKind: vChoice("failureKind", 4)}
		cs.startKeepalive(time.Duration(interval))
	}
	vAssert(*cancelp != nil, "C13.cancel-assigned-before-return")
	zzC13Verify(zzC13S, thr, interval)
}

// zzC13PingIsSent: keep-alive counts what Ping reports. In EVERY lifecycle state of the session — nothing received yet,
// initialize answered but not confirmed, fully initialized, a 2026-07-28 session — ServerSession.Ping (and
// ClientSession.Ping) sends exactly one ping request and reports its outcome: a peer that has gone silent before
// finishing the handshake misses pings like any other (otherwise it would never be closed).
func zzC13PingIsSent() {
	srv := &Server{}
	var sent []string
	peerAnswers := vBool("peerAnswers")
	gone := errors.New("no answer")
	srv.sendingMethodHandler_ = func(ctx context.Context, method string, req Request) (Result, error) {
		sent = append(sent, method)
		if !peerAnswers {
			return nil, gone
		}
		return &emptyResult{}, nil
	}
	ss := &ServerSession{server: srv}
	switch vChoice("lifecycle", 4) {
	case 1:
		ss.state.InitializeParams = &InitializeParams{ProtocolVersion: protocolVersion20250618}
	case 2:
		ss.state.InitializeParams = &InitializeParams{ProtocolVersion: protocolVersion20250618}
		ss.state.InitializedParams = &InitializedParams{}
	case 3:
		ss.state.InitializeParams = &InitializeParams{ProtocolVersion: protocolVersion20260728}
	}
	err := ss.Ping(context.Background(), nil)
	vAssert(len(sent) == 1 && sent[0] == methodPing, "C13.ping-is-sent-in-every-lifecycle-state")
	vAssert((err == nil) == peerAnswers, "C13.ping-reports-what-the-peer-did")
	vReach("end")
}
