package mcp

import "time"

// calculateReconnectDelay for every attempt number a retry budget can reach (MaxRetries is the caller's choice): never a
// panic (the jitter source refuses a non-positive bound), never a negative or absurd delay — between the capped backoff
// and twice it. (D16: from attempt 58 on the float-to-Duration conversion overflowed, the "delay" was negative and
// rand.N panicked in the SSE goroutine.)
func zzRandN(n time.Duration) time.Duration {
	vAssert(n > 0, "C09.delay.jitter-bound-positive")
	j := vIntRange("jitter", 0, 1<<62)
	vAssume(time.Duration(j) < n)
	return time.Duration(j)
}

func zzC09Delay() {
	reconnectInitialDelay.Store(int64(time.Second)) // (the package's init is not run by the executor)
	attempt := vChoice("attempt", vParam("attempts"))
	d := calculateReconnectDelay(attempt)
	if attempt == 0 {
		vAssert(d == 0, "C09.delay.first-attempt-immediate")
	} else {
		vAssert(d > 0 && d <= 2*reconnectMaxDelay, "C09.delay.bounded-by-twice-the-cap")
	}
	vReach("end")
}
