package mcp

import (
	"bytes"
	"context"
	"encoding/json"
	"errors"
	"io"

	"github.com/modelcontextprotocol/go-sdk/jsonrpc"
)

// C02/C19 on the newline-delimited framing shared by the stdio, io, in-memory and command transports: the reader
// goroutine of newIOConn (json.Decoder over the stream, plus its trailing-data check) and ioConn.Read.
//
// encoding/json's Decoder is modelled at the level the framing code relies on: it takes bytes from the stream read by
// read (the chunk boundaries are the solver's), skips blanks, returns one value's text, keeps what it has read beyond
// it; Buffered() is a view of that surplus which does not consume it. Values are flat objects "{...}".

type zzNDStream struct {
	chunks []string
	next   int
	endErr error // nil: clean EOF
	closed int
}

func (s *zzNDStream) Read([]byte) (int, error)  { vUnsupported("zzNDStream.Read: only the Decoder model reads it"); return 0, nil }
func (s *zzNDStream) Write(b []byte) (int, error) { return len(b), nil }
func (s *zzNDStream) Close() error                { s.closed++; return nil }

type zzNDDec struct {
	src *zzNDStream
	buf string
	err error
}

var zzNDDecs map[*json.Decoder]*zzNDDec

func zzNDNewDecoder(r io.Reader) *json.Decoder {
	d := new(json.Decoder)
	zzNDDecs[d] = &zzNDDec{src: r.(*zzNDStream)}
	return d
}

func (d *zzNDDec) fill() bool {
	if d.src.next < len(d.src.chunks) {
		d.buf += d.src.chunks[d.src.next]
		d.src.next++
		return true
	}
	return false
}

func zzNDBlank(c byte) bool { return c == ' ' || c == '\n' || c == '\r' || c == '\t' }

func zzNDDecode(jd *json.Decoder, v any) error {
	d := zzNDDecs[jd]
	if d.err != nil {
		return d.err
	}
	// skip blanks, refilling as needed
	for {
		for len(d.buf) > 0 && zzNDBlank(d.buf[0]) {
			d.buf = d.buf[1:]
		}
		if len(d.buf) > 0 {
			break
		}
		if !d.fill() {
			d.err = io.EOF
			if d.src.endErr != nil {
				d.err = d.src.endErr
			}
			return d.err
		}
	}
	if d.buf[0] != '{' {
		d.err = errors.New("invalid character looking for beginning of value")
		return d.err
	}
	for {
		if i := bytes.IndexByte([]byte(d.buf), '}'); i >= 0 {
			*(v.(*json.RawMessage)) = json.RawMessage(d.buf[:i+1])
			d.buf = d.buf[i+1:]
			return nil
		}
		if !d.fill() {
			d.err = io.ErrUnexpectedEOF
			return d.err
		}
	}
}

type zzNDPeek struct{ data string }

func (p *zzNDPeek) Read(b []byte) (int, error) {
	if len(p.data) == 0 {
		return 0, io.EOF
	}
	n := copy(b, p.data)
	p.data = p.data[n:]
	return n, nil
}

func zzNDBuffered(jd *json.Decoder) io.Reader { return &zzNDPeek{data: zzNDDecs[jd].buf} }

func zzNDReadBatch(data []byte) ([]jsonrpc.Message, bool, error) {
	return []jsonrpc.Message{&jsonrpc.Request{Method: string(data)}}, false, nil
}

func zzNDJSON() {
	zzNDDecs = map[*json.Decoder]*zzNDDec{}
	n := 1 + vChoice("nmsgs", vParam("msgs"))
	all := ""
	var want []string
	for i := 0; i < n; i++ {
		m := string([]byte{'{', byte('0' + i), '}'})
		want = append(want, m)
		all += m
		switch vChoice("lineEnding", 3) {
		case 0:
			all += "\n"
		case 1:
			all += "\r\n" // Windows peers
		default:
			if i < n-1 {
				all += "\n"
			} // the last line may lack its newline (end of stream right after the value)
		}
	}
	// the stream arrives in reads cut anywhere — also between the CR and the LF of a line ending
	c1 := vIntRange("cut1", 0, len(all))
	c2 := vIntRange("cut2", c1, len(all))
	st := &zzNDStream{chunks: []string{all[:c1], all[c1:c2], all[c2:]}}
	if vBool("endsWithError") {
		st.endErr = errors.New("read |0: file already closed")
	}
	c := newIOConn(st)
	ctx := context.Background()
	for i := 0; i < n; i++ {
		m, err := c.Read(ctx)
		vAssert(err == nil && m != nil, "C02.ndjson.every-well-formed-line-is-delivered")
		vAssert(m.(*jsonrpc.Request).Method == want[i], "C19.ndjson.in-order-intact")
	}
	_, err := c.Read(ctx)
	vAssert(err != nil, "C01.ndjson.end-of-stream-surfaces-as-an-error")
	vJoin()
	vReach("end")
}
