package mcp

import (
	"context"
	"errors"
	"log/slog"

	"github.com/modelcontextprotocol/go-sdk/internal/jsonrpc2"
	"github.com/modelcontextprotocol/go-sdk/jsonrpc"
)

// C06 — one step of ServerSession.handle from an arbitrary session state, for an arbitrary method (rank
// encoded over the real method table and the gaps between its names) and arbitrary per-request _meta.
// The same harness decides C03-H1 (which requests are released with jsonrpc2.Async, and when).

func zzEnsureLogger(l *slog.Logger) *slog.Logger { return l }

type zzC06Env struct {
	meta        Meta // what extractRequestMeta yields for this request
	reached     []string
	asyncCalls  int
	asyncBefore bool // Async happened before the method layer was entered
	inMethod    bool
	initdCalls  int
}

var zzC06 *zzC06Env

func zzExtractMeta(raw []byte) Meta { return zzC06.meta }

// remarshal is only reached for _meta values that are not already of the target type, i.e. the
// ill-typed ones of this harness: JSON re-decoding fails.
func zzRemarshalFail(from, to any) error { return errors.New("json: cannot unmarshal") }

func zzAsyncRecorder(ctx context.Context) {
	zzC06.asyncCalls++
	if !zzC06.inMethod {
		zzC06.asyncBefore = true
	}
}

// receiving middleware standing for "server-side handlers": records the method; lifecycle methods run
// their real implementation, everything else is answered with an empty result.
func zzC06Recorder(ctx context.Context, method string, req Request) (Result, error) {
	zzC06.inMethod = true
	zzC06.reached = append(zzC06.reached, method)
	if method == methodSubscriptionsListen {
		// C05: from the moment any code of the method layer (middleware, user callbacks, the handler that will park)
		// runs for a listen call, Close must be able to find and cancel it — otherwise a Close landing in that
		// window waits for a handler nobody cancels
		id, _ := ctx.Value(idContextKey{}).(jsonrpc.ID)
		ss, _ := req.GetSession().(*ServerSession)
		tracked := false
		if ss != nil {
			for _, l := range ss.listenIDs {
				if l == id {
					tracked = true
				}
			}
		}
		vAssert(ss != nil && id.IsValid() && tracked, "C05.listen-call-tracked-before-the-method-layer-runs")
		vReach("listen-tracked")
	}
	switch method {
	case methodInitialize, notificationInitialized, methodPing:
		return defaultReceivingMethodHandler[*ServerSession](ctx, method, req)
	}
	return &emptyResult{}, nil
}

var zzC06Versions = []string{protocolVersion20250326, protocolVersion20250618, protocolVersion20251125, protocolVersion20260728}

// zzParamsFor returns a well-typed JSON params token for the method (or nil).
func zzParamsFor(method string) []byte {
	switch method {
	case methodInitialize:
		return vJSON(&initializeParamsV2{InitializeParams: InitializeParams{ProtocolVersion: vStringAmong("initVersion", zzC06Versions...)}})
	case notificationInitialized:
		return vJSON(&InitializedParams{})
	case methodPing, zzCustomMethod:
		return vJSON(&PingParams{})
	case methodSetLevel:
		return vJSON(&SetLoggingLevelParams{Level: "debug"})
	case methodSubscribe:
		return vJSON(&SubscribeParams{URI: "file:///x"})
	case methodUnsubscribe:
		return vJSON(&UnsubscribeParams{URI: "file:///x"})
	case methodCallTool:
		return vJSON(&CallToolParamsRaw{Name: "t"})
	case methodGetPrompt:
		return vJSON(&GetPromptParams{Name: "p"})
	case methodReadResource:
		return vJSON(&ReadResourceParams{URI: "file:///x"})
	case methodComplete:
		return vJSON(&CompleteParams{})
	case methodSubscriptionsListen:
		return vJSON(&SubscriptionsListenParams{})
	case notificationProgress:
		return vJSON(&ProgressNotificationParams{})
	}
	return nil // methods for which missing params are fine
}

const zzCustomMethod = "acme/search"

func zzC06Methods() []string {
	var ms []string
	for m := range serverMethodInfos {
		ms = append(ms, m)
	}
	return ms
}

func zzC06Gate() {
	env := &zzC06Env{}
	zzC06 = env
	srv := NewServer(&Implementation{Name: "s", Version: "v"}, &ServerOptions{
		InitializedHandler: func(context.Context, *InitializedRequest) { env.initdCalls++ },
	})
	srv.receivingMethodHandler_ = zzC06Recorder
	// the application has registered a method of its own (AddReceivingCustomMethod): it lives in the server's table,
	// not in the package-level one, and is gated like every other method
	cerr := AddReceivingCustomMethod[*PingParams, *emptyResult](srv, zzCustomMethod, func(context.Context, *ServerSession, *PingParams) (*emptyResult, error) {
		return &emptyResult{}, nil
	})
	vAssert(cerr == nil, "C06.custom-method-registered")
	ss := &ServerSession{server: srv}
	keepaliveStopped := 0
	ss.keepaliveCancel = func() { keepaliveStopped++ } // keep-alive is running (Server.Connect started it)

	// arbitrary session state
	var initParams *InitializeParams
	var initdParams *InitializedParams
	if vBool("stateInitialize") {
		initParams = &InitializeParams{ProtocolVersion: protocolVersion20250618}
	}
	if vBool("stateInitialized") {
		initdParams = &InitializedParams{}
	}
	ss.state.InitializeParams, ss.state.InitializedParams = initParams, initdParams

	// arbitrary request
	method := vStringAmong("method", append(zzC06Methods(), zzCustomMethod)...)
	known := vRankIsMember(method)
	req := &jsonrpc.Request{Method: method}
	isCall := vBool("hasID")
	if isCall {
		req.ID = jsonrpc2.Int64ID(7)
	}
	if known {
		req.Params = zzParamsFor(method)
	}

	// arbitrary _meta
	usesNew, metaComplete := false, false
	version := ""
	switch vChoice("metaKind", 4) {
	case 0: // no _meta
	case 1: // _meta without a protocol version
		env.meta = Meta{"progressToken": "x"}
	case 2: // version of the wrong JSON type
		env.meta = Meta{MetaKeyProtocolVersion: 20260728.0}
	case 3:
		version = vStringAmong("metaVersion", zzC06Versions...)
		env.meta = Meta{MetaKeyProtocolVersion: version}
		usesNew = version >= protocolVersion20260728
		capsOK, infoOK := true, true
		switch vChoice("caps", 3) {
		case 0:
			env.meta[MetaKeyClientCapabilities] = &clientCapabilitiesV2{}
		case 1:
			capsOK = false // absent
		case 2:
			env.meta[MetaKeyClientCapabilities] = "not an object"
			capsOK = false
		}
		switch vChoice("clientInfo", 3) {
		case 0:
			env.meta[MetaKeyClientInfo] = &Implementation{Name: "c"}
		case 1: // absent: optional
		case 2:
			env.meta[MetaKeyClientInfo] = 42.0
			infoOK = false
		}
		metaComplete = capsOK && infoOK
	}
	supported := version == protocolVersion20260728 || version == protocolVersion20251125 || version == protocolVersion20250618 || version == protocolVersion20250326

	res, err := ss.handle(context.Background(), req)
	reached := len(env.reached) > 0
	_ = res
	// (C13) serving a request — of whatever era, accepted or refused — never ends the session's keep-alive: a request
	// with 2026-07-28 metadata may be a mere probe (server/discover) that the legacy handshake follows on this session
	vAssert(keepaliveStopped == 0, "C13.serving-a-request-never-stops-keep-alive")

	var werr *jsonrpc.Error
	isWire := errors.As(err, &werr)
	removed := method == methodInitialize || method == methodPing || method == notificationInitialized ||
		method == notificationRootsListChanged || method == methodSetLevel || method == methodSubscribe || method == methodUnsubscribe

	if !usesNew {
		// ---- legacy request
		lifecycle := method == methodInitialize || method == notificationInitialized || method == methodPing
		if initParams == nil && reached {
			vKnownRegion("C06.pre-initialize-gate", "exempt-methods-served-before-initialize",
				method == methodSetLevel || method == methodSubscribe || method == methodUnsubscribe || method == notificationRootsListChanged)
			vAssert(lifecycle, "C06.pre-initialize-gate")
			vReach("lifecycle-before-init")
		}
		if method == methodPing && isCall {
			vAssert(reached && err == nil, "C06.ping-always-served")
		}
		if method == methodInitialize && isCall {
			if initParams != nil {
				vAssert(err != nil, "C06.second-initialize-rejected")
				vAssert(ss.state.InitializeParams == initParams && ss.state.InitializedParams == initdParams, "C06.second-initialize-state-unchanged")
				vReach("second-init")
			} else {
				vAssert(err == nil && ss.state.InitializeParams != nil, "C06.initialize-accepted")
			}
		}
		if method == notificationInitialized && !isCall {
			if initParams == nil || initdParams != nil {
				vAssert(err != nil, "C06.bad-initialized-rejected")
				vAssert(ss.state.InitializeParams == initParams && ss.state.InitializedParams == initdParams, "C06.bad-initialized-state-unchanged")
				vAssert(env.initdCalls == 0, "C06.bad-initialized-handler-not-called")
				vReach("bad-initialized")
			} else {
				vAssert(err == nil && ss.state.InitializedParams != nil && env.initdCalls == 1, "C06.initialized-accepted")
			}
		}
		if method == methodDiscover {
			vAssert(!reached && isWire && werr.Code == jsonrpc.CodeMethodNotFound, "C06.discover-needs-new-protocol")
		}
		if initParams != nil && known && !lifecycle && method != methodDiscover && (isCall != (serverMethodInfos[method].flags&notification != 0)) {
			vAssert(reached, "C06.served-after-initialize")
			vReach("served-legacy")
		}
	} else {
		// ---- request carrying 2026-07-28 metadata
		switch {
		case !metaComplete:
			vAssert(!reached && isWire && werr.Code == jsonrpc.CodeInvalidParams, "C06.incomplete-meta-invalid-params")
			vAssert(ss.state.InitializeParams == initParams && ss.state.InitializedParams == initdParams, "C06.rejected-meta-leaves-state")
			vReach("incomplete-meta")
		case !supported:
			vAssert(!reached && isWire && werr.Code == CodeUnsupportedProtocolVersion, "C06.unsupported-version-code")
			data, _ := vJSONOf(werr.Data).(UnsupportedProtocolVersionData)
			vAssert(len(data.Supported) == len(supportedProtocolVersions) && data.Requested == version, "C06.unsupported-version-data")
			vAssert(ss.state.InitializeParams == initParams && ss.state.InitializedParams == initdParams, "C06.rejected-meta-leaves-state")
			vReach("unsupported-version")
		case removed:
			vAssert(!reached && isWire && werr.Code == jsonrpc.CodeMethodNotFound, "C06.removed-method-not-found")
			vReach("removed-method")
		default:
			if known && (isCall != (serverMethodInfos[method].flags&notification != 0)) {
				vAssert(reached && err == nil, "C06.new-protocol-served-without-handshake")
				vReach("served-new")
			}
		}
	}

	// ---- C03-H1: release discipline
	if reached {
		wantAsync := 0
		if isCall && method != methodInitialize {
			wantAsync = 1
		}
		vAssert(env.asyncCalls == wantAsync, "C03.async-iff-call-and-not-initialize")
		vAssert(wantAsync == 0 || env.asyncBefore, "C03.async-before-method-layer")
	}
	vAssert(env.asyncCalls <= 1, "C03.async-at-most-once")
	vReach("end")
}

// C03-H1 (client side): ClientSession.handle releases calls with Async (before the method layer, at most once)
// and never notifications, for every method name the client can receive and the gaps between them.
func zzC03ClientGate() {
	env := &zzC06Env{}
	zzC06 = env
	c := NewClient(&Implementation{Name: "c", Version: "v"}, nil)
	c.receivingMethodHandler_ = func(ctx context.Context, method string, req Request) (Result, error) {
		zzC06.inMethod = true
		zzC06.reached = append(zzC06.reached, method)
		return &emptyResult{}, nil
	}
	cs := &ClientSession{client: c}
	var ms []string
	for m := range clientMethodInfos {
		ms = append(ms, m)
	}
	method := vStringAmong("method", ms...)
	req := &jsonrpc.Request{Method: method}
	isCall := vBool("hasID")
	if isCall {
		req.ID = jsonrpc2.Int64ID(7)
	}
	cs.handle(context.Background(), req)
	want := 0
	if isCall {
		want = 1
	}
	vAssert(env.asyncCalls == want, "C03.client-async-iff-call")
	vAssert(want == 0 || len(env.reached) == 0 || env.asyncBefore, "C03.async-before-method-layer")
	vReach("end")
}

// C05 (defect D27): a subscriptions/listen call that is dispatched only after ServerSession.Close has collected the
// listen ids to cancel (it was still queued behind another handler) must not park: nobody would cancel it any more and
// Close, waiting for the connection to drain, would never return.
func zzC05ListenAfterClose() {
	env := &zzC06Env{}
	zzC06 = env
	zzCR = &zzConnRec{}
	zzCloseErr = nil
	srv := NewServer(&Implementation{Name: "s", Version: "v"}, nil)
	srv.receivingMethodHandler_ = zzC06Recorder
	ss := &ServerSession{server: srv, conn: &jsonrpc2.Connection{}}
	env.meta = Meta{MetaKeyProtocolVersion: protocolVersion20260728, MetaKeyClientCapabilities: &clientCapabilitiesV2{}, MetaKeyClientInfo: &Implementation{Name: "c"}}
	req := &jsonrpc.Request{Method: methodSubscriptionsListen, ID: jsonrpc2.Int64ID(7), Params: zzParamsFor(methodSubscriptionsListen)}
	closeFirst := vBool("closeCollectedTheListenIDsFirst")
	if closeFirst {
		vAssert(ss.Close() == nil, "C05.close-ok")
	}
	_, err := ss.handle(context.Background(), req)
	reached := len(env.reached) > 0
	if closeFirst {
		cancelledLater := false
		for _, id := range zzCR.cancels {
			if id == req.ID {
				cancelledLater = true
			}
		}
		// either the listen never reaches the code that parks, or somebody cancels it
		vAssert(!reached || cancelledLater, "C05.listen-dispatched-after-close-does-not-park")
		vAssert(reached || err != nil, "C05.listen-dispatched-after-close-is-answered-with-an-error")
		vReach("after-close")
	} else {
		vAssert(reached && err == nil, "C06.complete-meta-served")
	}
	vReach("end")
}
