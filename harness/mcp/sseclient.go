package mcp

import (
	"bufio"
	"context"
	"errors"
	"io"
	"net/http"

	"github.com/modelcontextprotocol/go-sdk/jsonrpc"
)

// The client half of the (deprecated) HTTP+SSE transport: SSEClientTransport.Connect and sseClientConn.
//
// The hanging GET's body is a byte string the harness owns, delivered to the client in *reads* (chunks) whose
// boundaries the solver chooses; bufio.Reader is modelled faithfully with respect to read-ahead: every reader owns
// what it has taken from the body, so bytes buffered by one reader are invisible to another (defect D21).
// The pump goroutine of Connect runs as a real goroutine under the bounded scheduler.

type zzSCBody struct {
	chunks   []string // what successive reads of the body deliver
	next     int
	hang     bool  // after the last chunk: a live stream (blocks until closed) instead of an end of stream
	endErr   error // how the stream ends otherwise: nil = clean EOF
	closedCh chan struct{}
	closed   int
}

func (b *zzSCBody) Read(p []byte) (int, error) {
	vUnsupported("zzSCBody.Read: only bufio.Reader.ReadBytes over the body is modelled")
	return 0, nil
}
func (b *zzSCBody) Close() error {
	b.closed++
	if b.closed == 1 {
		close(b.closedCh)
	}
	return nil
}

type zzSCReader struct {
	src *zzSCBody
	buf string
}

type zzSCEnv struct {
	body      *zzSCBody
	status    int
	getFails  bool
	postCode  int
	postFails bool
	posts     []string // URL of every POST
	postBody  int      // response bodies of POSTs closed
	readers   map[*bufio.Reader]*zzSCReader
	hold      bool          // the server sits on the next POST (a slow peer) until release is closed
	entered   chan struct{} // closed when the held POST has reached the server
	release   chan struct{}
}

var zzSC *zzSCEnv

func zzSCNewReader(r io.Reader) *bufio.Reader {
	br := new(bufio.Reader)
	zzSC.readers[br] = &zzSCReader{src: r.(*zzSCBody)}
	return br
}

// model of (*bufio.Reader).ReadBytes: the line comes out of this reader's own buffer, refilled read by read.
func zzSCReadBytes(br *bufio.Reader, delim byte) ([]byte, error) {
	rd := zzSC.readers[br]
	for {
		for i := 0; i < len(rd.buf); i++ {
			if rd.buf[i] == delim {
				line := rd.buf[:i+1]
				rd.buf = rd.buf[i+1:]
				return []byte(line), nil
			}
		}
		b := rd.src
		rest := rd.buf
		if b.closed > 0 {
			rd.buf = ""
			return []byte(rest), errors.New("http: read on closed response body")
		}
		if b.next < len(b.chunks) {
			rd.buf += b.chunks[b.next]
			b.next++
			continue
		}
		rd.buf = ""
		if b.hang {
			<-b.closedCh
			return []byte(rest), errors.New("http: read on closed response body")
		}
		if b.endErr != nil {
			return []byte(rest), b.endErr
		}
		return []byte(rest), io.EOF
	}
}

type zzSCPostBody struct{}

func (zzSCPostBody) Read([]byte) (int, error) { return 0, io.EOF }
func (zzSCPostBody) Close() error             { zzSC.postBody++; return nil }

func zzSCNewRequest(ctx context.Context, method, url string, body io.Reader) (*http.Request, error) {
	r := (&http.Request{Method: method, Header: http.Header{}}).WithContext(ctx)
	r.Host = url // (the harness reads the target back from here)
	return r, nil
}

func zzSCDo(_ *http.Client, req *http.Request) (*http.Response, error) {
	e := zzSC
	if req.Method == "GET" {
		vAssert(req.Header.Get("Accept") == "text/event-stream", "C12.sse-client.get-accepts-event-stream")
		if e.getFails {
			return nil, errors.New("dial tcp: refused")
		}
		return &http.Response{StatusCode: e.status, Body: e.body, Header: http.Header{}}, nil
	}
	if err := req.Context().Err(); err != nil {
		return nil, err // (net/http: a request whose context has ended is not sent)
	}
	e.posts = append(e.posts, req.Host)
	vAssert(req.Header.Get("Content-Type") == "application/json", "C12.sse-client.post-is-json")
	if e.hold {
		e.hold = false
		close(e.entered)
		<-e.release
	}
	if e.postFails {
		return nil, errors.New("write tcp: broken pipe")
	}
	return &http.Response{StatusCode: e.postCode, Status: "status", Body: zzSCPostBody{}, Header: http.Header{}}, nil
}

func zzSCEncode(msg jsonrpc.Message) ([]byte, error) { return []byte("m"), nil }

func zzSCDecode(data []byte) (jsonrpc.Message, error) {
	if len(data) != 2 || data[0] != 'p' {
		return nil, errors.New("bad payload")
	}
	return &jsonrpc.Request{Method: string(data)}, nil
}

func zzSSEClient() {
	nmax := vParam("msgs")
	n := vChoice("nmsgs", nmax+1)
	firstIsEndpoint := !vBool("firstEventIsNotEndpoint")
	var evs []string
	if firstIsEndpoint {
		evs = append(evs, "event: endpoint\ndata: /msg?sessionid=A\n\n")
	} else {
		evs = append(evs, "event: message\ndata: p9\n\n")
	}
	for i := 0; i < n; i++ {
		e := ""
		if vBool("eventLineGiven") { // "message" is the default event type: a block without an event line is a message too
			e = "event: message\n"
		}
		evs = append(evs, e+"data: "+zzPayload(i)+"\n\n")
	}
	// how the bytes are cut into reads: event by event, several events in one read, or one cut anywhere
	var chunks []string
	if vParam("cuts") == 1 && vBool("cutAnywhere") {
		all := ""
		for _, e := range evs {
			all += e
		}
		cut := vIntRange("cut", 0, len(all))
		chunks = []string{all[:cut], all[cut:]}
	} else {
		for i, e := range evs {
			if i > 0 && vBool("sameReadAsPrevious") {
				chunks[len(chunks)-1] += e
			} else {
				chunks = append(chunks, e)
			}
		}
	}
	b := &zzSCBody{chunks: chunks, hang: vBool("liveStream"), closedCh: make(chan struct{})}
	if !b.hang && vBool("endsWithError") {
		b.endErr = zzReadError()
	}
	env := &zzSCEnv{body: b, status: vIntRange("status", 100, 599), getFails: vBool("getFails"),
		postCode: vIntRange("postStatus", 100, 599), postFails: vBool("postFails"), readers: map[*bufio.Reader]*zzSCReader{}}
	zzSC = env
	ctx := context.Background()
	tr := &SSEClientTransport{Endpoint: "https://h.example/sse", HTTPClient: &http.Client{}}
	conn, err := tr.Connect(ctx)
	if env.getFails {
		vAssert(err != nil && conn == nil, "C07.sse-client.connect-fails-when-the-get-fails")
		vReach("get-failed")
		return
	}
	if env.status < 200 || env.status >= 300 {
		vAssert(err != nil && conn == nil, "C07.sse-client.non-2xx-refused")
		vAssert(b.closed == 1, "C05.sse-client.body-closed-on-refusal")
		vReach("refused")
		return
	}
	if !firstIsEndpoint {
		vAssert(err != nil && conn == nil, "C07.sse-client.first-event-must-be-endpoint")
		vAssert(b.closed == 1, "C05.sse-client.body-closed-on-refusal")
		vReach("no-endpoint")
		return
	}
	vAssert(err == nil && conn != nil, "C07.sse-client.connected")
	c := conn.(*sseClientConn)
	vAssert(c.msgEndpoint.String() == "https://h.example/msg?sessionid=A", "C10.sse-client.endpoint-resolved-against-the-sse-url")

	if b.hang {
		// a live stream: every message the server sent arrives, once, in order, intact
		for i := 0; i < n; i++ {
			m, rerr := c.Read(ctx)
			vAssert(rerr == nil && m != nil, "C19.sse-client.every-message-delivered")
			vAssert(m.(*jsonrpc.Request).Method == zzPayload(i), "C03.sse-client.in-order-intact")
		}
		vReach("all-delivered")
		// writes are POSTs to the session endpoint and report the server's verdict
		werr := c.Write(ctx, &jsonrpc.Request{Method: "ping"})
		vAssert(len(env.posts) == 1 && env.posts[0] == "https://h.example/msg?sessionid=A", "C10.sse-client.post-goes-to-the-session-endpoint")
		ok := !env.postFails && env.postCode >= 200 && env.postCode < 300
		vAssert((werr == nil) == ok, "C01.sse-client.write-reports-the-servers-verdict")
		if !env.postFails {
			vAssert(env.postBody == 1, "C05.sse-client.post-body-closed")
		}
		if vBool("aPostIsHeldByASlowPeer") {
			// (C04) one write — say a cancellation notice — is stuck at a slow peer: other writes do not queue behind it;
			// in particular one whose context has already ended returns at once
			env.hold, env.entered, env.release = true, make(chan struct{}), make(chan struct{})
			stuckDone := make(chan struct{})
			vGo(func() {
				c.Write(ctx, &jsonrpc.Request{Method: "notifications/cancelled"})
				close(stuckDone)
			})
			<-env.entered
			gone, cancel := context.WithCancel(ctx)
			cancel()
			vAssert(c.Write(gone, &jsonrpc.Request{Method: "ping"}) != nil, "C04.sse-client.write-with-ended-context-fails")
			vReach("not-queued-behind-a-stuck-write") // (a write that waits for the stuck one never gets here: DEADLOCK)
			close(env.release)
			<-stuckDone // (not vJoin: the pump goroutine of the live stream runs until Close)
			env.posts = env.posts[:1]
		}
		vAssert(c.Close() == nil && b.closed == 1, "C05.sse-client.close-closes-the-stream")
		vAssert(c.Close() == nil && b.closed == 1, "C05.sse-client.close-idempotent")
		_, rerr := c.Read(ctx)
		vAssert(rerr != nil, "C01.sse-client.read-after-close-fails")
		vAssert(c.Write(ctx, &jsonrpc.Request{Method: "ping"}) != nil && len(env.posts) == 1, "C05.sse-client.write-after-close-fails")
		vJoin()
		vReach("end")
		return
	}
	// the stream ends: what was read before the end is a prefix, in order, and reading then fails instead of hanging
	got := 0
	ended := false
	for i := 0; i <= n && !ended; i++ {
		m, rerr := c.Read(ctx)
		if rerr != nil {
			ended = true
		} else {
			vAssert(got < n && m.(*jsonrpc.Request).Method == zzPayload(got), "C03.sse-client.in-order-intact")
			got++
		}
	}
	vAssert(ended, "C01.sse-client.end-of-stream-surfaces-as-an-error")
	vJoin()
	vAssert(b.closed == 1, "C05.sse-client.body-closed-when-the-stream-ends")
	if got == n {
		vReach("all-delivered")
	}
	vReach("end")
}
