package util

// C12/C15: IsLoopback (the real function; only net.SplitHostPort and netip.ParseAddr below it are native) over a
// table of host spellings: loopback is exactly the name "localhost" and the loopback IP literals, with or without a
// port — not names that merely contain, start or end with "localhost", nor names that embed a loopback literal.

func zzIsLoopbackTable() {
	cases := []string{
		"localhost", "localhost:8080", "127.0.0.1", "127.0.0.1:80", "127.8.9.1:1", "[::1]:8080", "[::1]", "::1",
		"", "evil.example", "evil.example:80", "notlocalhost", "notlocalhost:80", "localhost.evil.example", "localhost.evil.example:443",
		"evil.example.mylocalhost", "rebind-localhost:8080", "127.0.0.1.evil.example", "127.0.0.1.evil.example:80", "192.0.2.1:80", "[2001:db8::1]:80",
		"10.0.0.1", "0.0.0.0:80", "[::]:80", "localhost:evil:80", "128.0.0.1:80", "1127.0.0.1",
	}
	want := []bool{
		true, true, true, true, true, true, true, true,
		false, false, false, false, false, false, false,
		false, false, false, false, false, false,
		false, false, false, false, false, false,
	}
	i := vChoice("case", len(cases))
	vAssert(IsLoopback(cases[i]) == want[i], "C12.is-loopback-exactly-localhost-and-loopback-literals")
	if want[i] {
		vReach("loopback")
	}
	vReach("end")
}
