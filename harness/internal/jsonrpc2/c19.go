package jsonrpc2

import (
	"encoding/json"
	"errors"
	"fmt"
)

// C19-H1 — ids survive decode -> encode exactly (type and value), for every int64 and every string.
//
// JSON decoder contract used here: a JSON number delivered into an `any` field arrives as the nearest
// float64 (encoding/json and segmentio/encoding/json behave this way); a number delivered into a
// json.RawMessage field arrives as its text, which is an uninterpreted decimal token.

func zzC19IntID() {
	i := vInt("id") // the integer written on the wire, whole int64 range
	var w wireDecode
	w.VersionTag = wireVersion
	zzSetWireID(&w, i)
	w.Method = vJSON("m")
	msg, err := DecodeMessage(vJSON(w))
	vAssert(err == nil, "C19.id.decode-ok")
	req, ok := msg.(*Request)
	vAssert(ok && req.Method == "m", "C19.id.is-request")
	// re-encode
	var out wireCombined
	req.marshal(&out)
	got, isInt := out.ID.(int64)
	vAssert(isInt, "C19.id.int-type-preserved")
	vAssert(got == int64(i), "C19.id.int-value-preserved")
	// the same id given to MakeID by the streamable transports (cancellation params) maps to the same ID
	vAssert(req.ID == Int64ID(got), "C19.id.comparable")
	vReach("end")
}

func zzC19StringID() {
	s := vStringN("sid", 3)
	var w wireDecode
	w.VersionTag = wireVersion
	zzSetWireStringID(&w, s)
	w.Result = vJSON("r")
	msg, err := DecodeMessage(vJSON(w))
	vAssert(err == nil, "C19.sid.decode-ok")
	resp, ok := msg.(*Response)
	vAssert(ok, "C19.sid.is-response")
	vAssert(resp.Error == nil, "C19.sid.no-typed-nil-error")
	var out wireCombined
	resp.marshal(&out)
	got, isStr := out.ID.(string)
	vAssert(isStr && got == s, "C19.sid.string-preserved")
	vAssert(vSame(out.Result, w.Result), "C19.sid.result-intact")
	vAssert(out.Error == nil, "C19.sid.no-typed-nil-error")
	vReach("end")
}

// Responses: error code/message/data survive; no result+error confusion.
func zzC19ErrorResponse() {
	code := vIntRange("code", -40000, 40000)
	var w wireDecode
	w.VersionTag = wireVersion
	zzSetWireID(&w, 7)
	data := vJSON("d")
	w.Error = &WireError{Code: int64(code), Message: "boom", Data: data}
	msg, err := DecodeMessage(vJSON(w))
	vAssert(err == nil, "C19.err.decode-ok")
	resp := msg.(*Response)
	var out wireCombined
	resp.marshal(&out)
	vAssert(out.Error != nil && out.Error.Code == int64(code) && out.Error.Message == "boom" && vSame(out.Error.Data, data), "C19.err.roundtrip")
	vReach("end")
}

type zzCoded struct{ c int64 }

func (e *zzCoded) Error() string { return "coded" }

// H3: toWireError keeps code through wraps, keeps message, keeps Data when the error is a *WireError.
func zzC19ToWireError() {
	code := vIntRange("code", -40000, 40000)
	data := vJSON("d")
	inner := &WireError{Code: int64(code), Message: "inner", Data: data}
	switch vChoice("shape", 5) {
	case 0:
		vAssert(toWireError(nil) == nil, "C19.wire.nil")
	case 1:
		we := toWireError(inner)
		vAssert(we == inner, "C19.wire.identity")
	case 2:
		we := toWireError(fmt.Errorf("outer: %w", inner))
		vAssert(we.Code == int64(code) && we.Message == "outer: %w", "C19.wire.wrapped-keeps-code")
	case 3:
		we := toWireError(fmt.Errorf("a: %w", fmt.Errorf("b: %w", inner)))
		vAssert(we.Code == int64(code), "C19.wire.double-wrapped-keeps-code")
	case 4:
		we := toWireError(errors.New("plain"))
		vAssert(we.Code == 0 && we.Message == "plain", "C19.wire.plain")
	}
	// (*WireError).Is compares codes
	vAssert(errors.Is(fmt.Errorf("x: %w", inner), &WireError{Code: int64(code)}), "C19.wire.is-by-code")
	other := vIntRange("other", -40000, 40000)
	vAssert(errors.Is(inner, &WireError{Code: int64(other)}) == (other == code), "C19.wire.is-iff-same-code")
	vReach("end")
}

var _ = json.RawMessage(nil)

// Decoding is case-sensitive: a text whose member names differ from the envelope's only in letter case ("Method",
// "JSONRPC", "ID") is not the message it resembles. The JSON text layer is a token; the token carries the fact that
// its names are miscased, the repo's case-sensitive decoder matches none of them and encoding/json's default
// matching fills the fields — so the harness observes which decoder DecodeMessage hands the text to.
func zzC19CaseSensitive() {
	var w wireDecode
	w.VersionTag = wireVersion
	kind := vChoice("kind", 2)
	if kind == 0 {
		zzSetWireID(&w, vInt("id"))
		w.Method = vJSON("tools/call")
	} else {
		zzSetWireStringID(&w, "x")
		w.Result = vJSON("r")
	}
	msg, err := DecodeMessage(vJSONMiscased(w))
	vAssert(err != nil && msg == nil, "C19.case.miscased-envelope-rejected")
	vReach("end")
}
