package jsonrpc2

import (
	"encoding/json"
	"strconv"
)

// wireDecode.ID is a json.RawMessage: a JSON number arrives as its decimal text (an uninterpreted
// decimal token: ParseInt(FormatInt(i)) = i), a JSON string as a JSON document.
func zzSetWireID(w *wireDecode, i int)          { w.ID = json.RawMessage(strconv.FormatInt(int64(i), 10)) }
func zzSetWireStringID(w *wireDecode, s string) { w.ID = vJSON(s) }
