package jsonrpc2

import (
	"io"
	"context"
	"errors"
	"fmt"
)

// Thread-modular harness for Connection (DESIGN §2.5 A, §4 C01–C05).
//
// Every acquisition of stateMu replaces the shared state by an arbitrary one satisfying the invariant and
// this thread's stable facts; every release asserts the invariant, that the facts of a representative other
// thread survive, and records what this thread has established in concrete thread-local ghosts. One run of a
// real thread function therefore covers every interleaving and any number of threads. Code after the
// function under test only reads thread-local ghosts and stub logs (shared state is excluded from the
// section-boundary memoisation, so it must not be inspected there).

var (
	zzErrRead  = errors.New("zz read error")
	zzErrWrite = errors.New("zz write error")
)

// zzJSONMarshal: the JSON encoder as an uninterpreted token — which, like the real one, can refuse a value
// (NaN, a channel, a failing MarshalJSON): harnesses that pass caller-supplied params set zzMarshalMayFail.
var zzMarshalMayFail, zzMarshalFailed bool

func zzJSONMarshal(obj any) ([]byte, error) {
	if zzMarshalMayFail && obj != nil && vBool("paramsNotEncodable") {
		zzMarshalFailed = true
		return nil, errors.New("json: unsupported value: NaN")
	}
	return vJSON(obj), nil
}

type zzCloser struct {
	g     *zzG
	calls int
}

func (c *zzCloser) Close() error {
	s := &c.g.c.state
	idle := s.idle()
	shut := c.g.shutting()
	vAssert(c.calls == 0, "C05.transport-closed-at-most-once")
	vAssert(idle, "C05.transport-closed-only-when-idle")
	vAssert(shut, "C05.transport-closed-only-when-shutting-down")
	c.calls++
	if vBool("closerReportsError") {
		return errors.New("close: broken pipe") // closing a transport may fail; the connection is finished all the same
	}
	return nil
}

type zzWriter struct {
	g       *zzG
	msgs    []Message
	outcome int // of the last write: 0 ok, 1 broken, 2 rejected, 3 caller's ctx cancelled during the write
	refusedDone int // messages not sent because they were offered with a context that was already done
}

func (w *zzWriter) Write(ctx context.Context, msg Message) error {
	g := w.g
	if ctx.Err() != nil {
		// like the SDK's stream transports: a message offered with a context that is already done is not sent
		w.refusedDone++
		return ctx.Err()
	}
	w.msgs = append(w.msgs, msg)
	if req, ok := msg.(*Request); ok && req.IsCall() {
		// register-before-write: the call is already tracked when its request reaches the transport
		vAssert(g.mine != nil && g.mineReg && g.mine.id == req.ID, "C01.registered-before-write")
	}
	if resp, ok := msg.(*Response); ok && g.myReq != nil && resp.ID == g.myReq.ID {
		vAssert(!g.myReqIn, "C02.id-released-before-response-written")
	}
	w.outcome = vChoice("writeOutcome", 4)
	switch w.outcome {
	case 0:
		return nil
	case 1:
		return zzErrWrite
	case 2:
		return fmt.Errorf("transient: %w", ErrRejected)
	}
	if g.cancelCallerCtx != nil && ctx.Err() == nil {
		// the caller's context ends while the transport is writing: by cancellation or because its deadline passes;
		// the transport reports the context's error or whatever I/O error the interruption produced
		if vBool("endsByDeadline") {
			vCtxCancel(g.callerCtx, context.DeadlineExceeded)
		} else {
			g.cancelCallerCtx()
		}
		if ctx.Err() != nil {
			if vBool("transportReportsItsOwnError") {
				return zzErrWrite
			}
			return ctx.Err()
		}
	}
	w.outcome = 0
	return nil
}

type zzG struct {
	c      *Connection
	closer *zzCloser
	w      *zzWriter

	// roles and resources of this thread (concrete)
	isReader     bool // this thread is readIncoming: s.reading is stably true
	isDispatcher bool // this thread is handleAsync: s.handlerRunning is stably true
	myIn         int  // `incoming` tokens held by this thread
	myNotif      int  // `outgoingNotifications` tokens held by this thread

	mine     *AsyncCall // my outgoing call, once known
	mineReg  bool       // registered: P(mine) = tracked or completed, from now on
	mineDone bool       // observed completed (monotone)
	myReq    *incomingRequest
	myReqIn  bool // my request is registered in incomingByID until I remove it

	other    *AsyncCall // representative call of another thread
	otherReq *incomingRequest
	q1, q2   *incomingRequest
	q3       *incomingRequest

	cancelCallerCtx func()
	callerCtx       context.Context

	// which structural dimensions of the shared state this thread's code can observe (the others are fixed:
	// empty queue, allocated maps)
	varyQueue, varyByIDNil, varyCallsNil bool

	// facts established by my sections (concrete, thread-local)
	setWriteErr  bool               // one of my sections latched writeErr
	enqueued     bool               // I appended a request to the handler queue
	enqueuedShut bool               // ... while the connection was shutting down
	refusedShut  bool               // my last section ended in a shutting-down state
	brokenAtPost bool               // ... with the read or the write side broken (not merely Close called)
	dupSeen      bool               // my first section found otherReq registered
	doneSeen     bool               // a section of mine ended with done closed (stable: done is monotone)
	taken        []*incomingRequest // requests I (the dispatcher) took off the queue
	sections     int
	onPost       func() // harness-specific establishment checks, run at every release

	// per-section scratch (excluded from memoisation; rewritten by every pre hook)
	hOtherReqIn, hMineIn, hOtherIn, hQ1In bool
	preIncoming, preNotif                int
	preOtherP, preDone, preOtherRet      bool
	preQueue                             []*incomingRequest
	preHandlerRunning, preWriteErrNil    bool
	preMineOpen                          bool
	spawnedBefore                        int
	onDoneRuns                           int
}

func zzInMap(c *Connection, ac *AsyncCall) bool {
	return ac != nil && vMapHas(c.state.outgoingCalls, ac.id, ac)
}
func zzRetired(ac *AsyncCall) bool { return vIsClosed(ac.ready) }

func zzNewReq(id int64, method string) *incomingRequest {
	r := &Request{Method: method}
	if id != 0 {
		r.ID = Int64ID(id)
	}
	ctx, cancel := context.WithCancelCause(context.Background())
	return &incomingRequest{Request: r, ctx: ctx, cancel: cancel}
}

func zzFresh() *zzG {
	g := &zzG{}
	g.closer = &zzCloser{g: g}
	g.w = &zzWriter{g: g}
	c := &Connection{done: make(chan struct{})}
	c.writer = g.w
	c.onDone = func() { g.onDoneRuns++ }
	c.onInternalError = func(error) {}
	g.c = c
	// ids are opaque and pairwise distinct; concrete representatives lose nothing and keep thread-local state concrete
	g.other = &AsyncCall{id: Int64ID(1000), ready: make(chan struct{})}
	g.otherReq = zzNewReq(2000, "other/call")
	g.q1 = zzNewReq(2001, "queued/call")
	g.q2 = zzNewReq(0, "queued/notification")
	g.q3 = zzNewReq(2003, "queued/call2")
	return g
}

// havoc: an arbitrary shared state (within the shape bounds), consistent with this thread's ghosts.
// Membership of the optional map entries and the closed flags of channels stay symbolic (no path split).
func (g *zzG) havoc() {
	c := g.c
	s := &c.state
	s.connClosing = vBool("connClosing")
	s.reading = g.isReader || vBool("reading")
	s.readErr, s.writeErr, s.closeErr = nil, nil, nil
	if vBool("readErr") {
		s.readErr = zzErrRead
	}
	if vBool("writeErr") {
		s.writeErr = zzErrWrite
	}
	s.closer = nil
	g.closer.calls = 1
	if vBool("closerLive") {
		s.closer = g.closer
		g.closer.calls = 0
	}
	s.outgoingNotifications = g.myNotif + vIntRange("othersNotif", 0, 2)
	othersIn := vIntRange("othersIn", 0, 3)
	s.incoming = g.myIn + othersIn
	s.handlerRunning = g.isDispatcher || vBool("handlerRunning")
	s.handlerQueue = nil
	if g.varyQueue && len(g.taken) < 2 {
		// queued requests of other threads: the first 0..2 of the pool that this dispatcher has not taken yet
		// (after two iterations the dispatcher sees an empty queue: one iteration from an arbitrary state is
		// what is verified, the second one exercises ordering)
		var pool []*incomingRequest
		for _, r := range []*incomingRequest{g.q1, g.q2, g.q3} {
			was := false
			for _, t := range g.taken {
				if t == r {
					was = true
				}
			}
			if !was {
				pool = append(pool, r)
			}
		}
		n := vChoice("queue", 1+vParam("queueMax"))
		if n > len(pool) {
			n = len(pool)
		}
		s.handlerQueue = append([]*incomingRequest(nil), pool[:n]...)
	}
	g.hOtherReqIn, g.hMineIn, g.hOtherIn, g.hQ1In = false, false, false, false
	s.incomingByID = nil
	if !g.varyByIDNil || (g.myReq != nil && g.myReqIn) || vBool("byIDAllocated") {
		s.incomingByID = map[ID]*incomingRequest{}
		g.hOtherReqIn = vBool("otherReqIn")
		if g.myReq != nil && g.myReqIn && g.myReq.ID == g.otherReq.ID {
			g.hOtherReqIn = false // ids in flight are unique: my registered request occupies this id
		}
		vMapPutIf(s.incomingByID, g.otherReq.ID, g.otherReq, g.hOtherReqIn)
		if g.myReq != nil && g.myReqIn {
			s.incomingByID[g.myReq.ID] = g.myReq
		}
		if len(s.handlerQueue) > 0 && s.handlerQueue[0].IsCall() {
			g.hQ1In = vBool("q1In")
			vMapPutIf(s.incomingByID, s.handlerQueue[0].ID, s.handlerQueue[0], g.hQ1In)
		}
	}
	s.outgoingCalls = nil
	if !g.varyCallsNil || vBool("callsAllocated") {
		s.outgoingCalls = map[ID]*AsyncCall{}
		if g.mine != nil && g.mineReg {
			g.hMineIn = vBool("mineIn")
			vMapPutIf(s.outgoingCalls, g.mine.id, g.mine, g.hMineIn)
		}
		g.hOtherIn = vBool("otherIn")
		vMapPutIf(s.outgoingCalls, g.other.id, g.other, g.hOtherIn)
	}
	// every queued request and every registered request of another thread holds one `incoming` token
	need := len(s.handlerQueue)
	if g.hOtherReqIn {
		need++
	}
	vAssume(othersIn >= need)
	// done is monotone (asserted for every step of every thread as C05.done-is-monotone): once this thread has seen it
	// closed it stays closed in every later state
	vSetClosed(c.done, g.doneSeen || vBool("doneClosed"))
	vSetClosed(g.other.ready, vBool("otherRetired"))
	if g.mine != nil && g.mineReg {
		vSetClosed(g.mine.ready, g.mineDone || vBool("mineRetired"))
	}
	g.onDoneRuns = vIntRange("onDoneRuns", 0, 1)
}

func (g *zzG) shutting() bool {
	s := &g.c.state
	return s.connClosing || s.readErr != nil || s.writeErr != nil
}

// scalarInv: J2–J10 of DESIGN §4 C01 as one boolean term (no early returns, so it folds into the solver).
func (g *zzG) scalarInv() bool {
	c := g.c
	s := &c.state
	done := vIsClosed(c.done)
	idle := s.idle()
	shut := g.shutting()
	ok := true
	ok = ok && (!done || (idle && shut && !s.reading && s.closer == nil))          // J2
	ok = ok && g.closer.calls <= 1 && ((g.closer.calls == 1) == (s.closer == nil)) // J3
	ok = ok && (s.readErr == nil || (!s.reading && len(s.outgoingCalls) == 0))     // J4
	ok = ok && (len(s.handlerQueue) == 0 || s.handlerRunning)                      // J5
	ok = ok && (!(idle && shut && !s.reading) || done)                             // J7
	ok = ok && (!(idle && shut) || s.closer == nil)                                // J8
	ok = ok && len(s.incomingByID) <= s.incoming                                   // J9
	ok = ok && s.incoming >= 0 && s.outgoingNotifications >= 0
	ok = ok && ((g.onDoneRuns == 1) == done) && g.onDoneRuns <= 1 // J10
	return ok
}

// preInv: the invariant over the freshly havoc'd state; J1 is expressed through the havoc variables.
func (g *zzG) preInv() bool {
	ok := g.scalarInv()
	otherOpen := !vIsClosed(g.other.ready)
	ok = ok && (!g.hOtherIn || otherOpen)
	if g.mine != nil && g.mineReg {
		mineOpen := !vIsClosed(g.mine.ready)
		ok = ok && (!g.hMineIn || mineOpen)
	}
	return ok
}

// inv: the invariant over the real post-state.
func (g *zzG) inv() bool {
	ok := g.scalarInv()
	// J1: the tracked calls are exactly (a subset of) mine and other, each under its own id and not yet completed
	calls := g.c.state.outgoingCalls
	n := 0
	otherIn := vMapHas(calls, g.other.id, g.other)
	otherOpen := !vIsClosed(g.other.ready)
	if otherIn {
		n++
	}
	ok = ok && (!otherIn || otherOpen)
	if g.mine != nil {
		mineIn := vMapHas(calls, g.mine.id, g.mine)
		mineOpen := !vIsClosed(g.mine.ready)
		if mineIn {
			n++
		}
		ok = ok && (!mineIn || mineOpen)
		ok = ok && len(calls) == n
	}
	return ok
}

func (g *zzG) install() {
	c := g.c
	vShared(&c.state, c.done, g.other, g.other.ready, &g.closer.calls,
		&g.hOtherReqIn, &g.hMineIn, &g.hOtherIn, &g.hQ1In, &g.preIncoming, &g.preNotif, &g.preOtherP, &g.preDone, &g.preOtherRet, &g.preQueue,
		&g.preHandlerRunning, &g.preWriteErrNil, &g.preMineOpen, &g.spawnedBefore, &g.onDoneRuns)
	vLockHook(&c.stateMu, g.pre, g.post)
}

func (g *zzG) pre() {
	c := g.c
	s := &c.state
	g.havoc()
	inv := g.preInv()
	vAssume(inv)
	// stable facts of this thread
	if g.mine != nil && g.mineReg {
		mineRetired := zzRetired(g.mine)
		vAssume(g.hMineIn || mineRetired)
		g.preMineOpen = !mineRetired
	}
	g.sections++
	g.preIncoming, g.preNotif = s.incoming, s.outgoingNotifications
	otherRetired := zzRetired(g.other)
	g.preOtherP = g.hOtherIn || otherRetired
	g.preOtherRet = otherRetired
	g.preQueue = append([]*incomingRequest(nil), s.handlerQueue...)
	g.preHandlerRunning = s.handlerRunning
	g.preDone = vIsClosed(c.done)
	g.preWriteErrNil = s.writeErr == nil
	g.spawnedBefore = vNumSpawned()
	if g.sections == 1 && g.hOtherReqIn {
		g.dupSeen = true // (splits the path: the harness needs this fact concretely)
	}
}

func (g *zzG) post() {
	c := g.c
	s := &c.state
	invNow := g.inv()
	vAssert(invNow, "Inv.preserved")
	// ---- interference freedom: facts of other threads survive my step
	otherIn, otherRet := zzInMap(c, g.other), zzRetired(g.other)
	vAssert(!g.preOtherP || otherIn || otherRet, "C01.other-call-not-lost")
	otherReqIn := vMapHas(s.incomingByID, g.otherReq.ID, g.otherReq)
	vAssert(!g.hOtherReqIn || otherReqIn, "C02.other-request-entry-untouched")
	doneNow := vIsClosed(c.done)
	vAssert(!g.preDone || doneNow, "C05.done-is-monotone")
	g.doneSeen = g.doneSeen || doneNow
	// ---- token accounting: I only consume tokens I hold (deltas concretised so the ghosts stay concrete)
	switch d := s.incoming - g.preIncoming; {
	case d == 0:
	case d == 1:
		g.myIn++
	case d == -1:
		g.myIn--
	default:
		vAssert(false, "C02.incoming-changes-by-one")
	}
	switch d := s.outgoingNotifications - g.preNotif; {
	case d == 0:
	case d == 1:
		g.myNotif++
	case d == -1:
		g.myNotif--
	default:
		vAssert(false, "C05.notifications-change-by-one")
	}
	vAssert(g.myIn >= 0, "C02.incoming-token-underflow")
	vAssert(g.myNotif >= 0, "C05.notification-token-underflow")
	// ---- queue discipline (C03-H3): only the dispatcher removes, and only the head; others append at the tail
	old, cur := g.preQueue, s.handlerQueue
	if g.isDispatcher && len(cur) == len(old)-1 {
		for i := range cur {
			vAssert(cur[i] == old[i+1], "C03.dequeue-takes-the-head")
		}
		t := old[0]
		g.taken = append(g.taken, t)
		g.myIn++ // the dispatcher takes over the request together with its token
		g.myReq = t
		g.myReqIn = false
		if t.IsCall() && g.hQ1In {
			g.myReqIn = true
		}
	} else {
		vAssert(len(cur) >= len(old), "C03.only-dispatcher-dequeues")
		for i := range old {
			vAssert(cur[i] == old[i], "C03.enqueue-appends-at-tail")
		}
		vAssert(len(cur) <= len(old)+1, "C03.enqueue-one-at-a-time")
		if len(cur) == len(old)+1 {
			g.enqueued = true
			if g.shutting() {
				g.enqueuedShut = true
			}
			g.myIn-- // the queued request carries its token to the dispatcher
			vAssert(g.myIn >= 0, "C02.enqueue-without-token")
		}
	}
	stillRunning := g.isDispatcher || !g.preHandlerRunning || s.handlerRunning
	vAssert(stillRunning, "C03.only-dispatcher-clears-running")
	started := !g.preHandlerRunning && s.handlerRunning
	spawnedOne := vNumSpawned() == g.spawnedBefore+1
	vAssert(!started || spawnedOne, "C03.dispatcher-started-with-flag")
	if g.preWriteErrNil && s.writeErr != nil {
		g.setWriteErr = true
	}
	if g.shutting() {
		g.refusedShut = true
	} else {
		g.refusedShut = false
	}
	g.brokenAtPost = s.readErr != nil || s.writeErr != nil
	// ---- my own call
	if g.mine == nil {
		for _, ac := range s.outgoingCalls { // learn the call that Call registered
			if ac != g.other {
				g.mine, g.mineReg = ac, true
				vShared(ac, ac.ready)
			}
		}
	} else if g.mineReg {
		mineIn, mineRet := zzInMap(c, g.mine), zzRetired(g.mine)
		vAssert(mineIn || mineRet, "C01.own-call-tracked-or-completed")
		if !g.mineDone && mineRet {
			g.mineDone = true
			if g.preMineOpen {
				// completed by this very section: with its own id
				vAssert(g.mine.response != nil && g.mine.response.ID == g.mine.id, "C01.completed-with-own-id")
			}
		}
	}
	// ---- my own incoming request
	if g.isReader && g.myReq == nil && g.sections == 1 {
		for _, r := range s.incomingByID { // learn the request that acceptRequest registered
			if r != g.otherReq && r != g.q1 && r != g.q3 {
				g.myReq, g.myReqIn = r, true
			}
		}
	} else if g.myReq != nil && g.myReqIn {
		if s.incomingByID[g.myReq.ID] != g.myReq {
			g.myReqIn = false
		}
	}
	if g.onPost != nil {
		g.onPost()
	}
}

// ---------------------------------------------------------------- thread: Call

func zzConnCall() {
	g := zzFresh()
	g.varyCallsNil = true
	g.install()
	// the caller may be a request handler: its context then carries the dispatcher's releaser, which only the handler
	// itself (through Async) may release — C03 rests on it
	rel := &releaser{ch: make(chan struct{})}
	ctx, cancel := context.WithCancel(context.WithValue(context.Background(), asyncKey, rel))
	g.cancelCallerCtx = cancel
	g.callerCtx = ctx
	zzMarshalMayFail, zzMarshalFailed = true, false
	ac := g.c.Call(ctx, "m", "caller-supplied params")
	zzMarshalMayFail = false
	vAssert(!rel.released && !vIsClosed(rel.ch), "C03.only-the-handler-itself-releases-the-dispatcher")
	vAssert(ac != nil, "C01.call-returns-handle")
	if !g.mineReg {
		// never registered: the handle is still private to this thread; the connection refused the call
		vAssert(len(g.w.msgs) == 0, "C01.unregistered-call-not-written")
		// ... or its params could not be encoded; either way it is completed at once, under its own id, with an error
		vAssert(vIsClosed(ac.ready) && ac.response.ID == ac.id && ac.response.Error != nil, "C01.unsent-call-completed-with-error")
		if !zzMarshalFailed {
			vAssert(errors.Is(ac.response.Error, ErrClientClosing), "C01.refused-call-reports-closing")
		}
		vReach("refused")
	} else {
		vAssert(g.mine == ac, "C01.handle-is-the-registered-call")
		vAssert(len(g.w.msgs) <= 1, "C01.call-written-at-most-once")
		if len(g.w.msgs) == 1 && g.w.outcome != 0 {
			vAssert(g.mineDone, "C01.failed-write-completes-call")
			vReach("write-failed")
		}
		if len(g.w.msgs) == 1 && (g.w.outcome == 2 || g.w.outcome == 3) {
			vAssert(!g.setWriteErr, "C01.rejected-or-cancelled-write-does-not-break-connection")
		}
		if len(g.w.msgs) == 0 {
			// registered but the write was refused (shutdown began in between): the call is completed
			vAssert(g.mineDone, "C01.failed-write-completes-call")
		}
		vReach("registered")
	}
	vReach("end")
}

// Writer outcomes and writeErr (C01-g / C04-H3): write() alone, for a response and for a notification.
func zzConnWrite() {
	g := zzFresh()
	ctx, cancel := context.WithCancel(context.Background())
	g.cancelCallerCtx = cancel
	g.callerCtx = ctx
	var msg Message
	switch vChoice("msgKind", 3) {
	case 0:
		msg = &Response{ID: Int64ID(5), Result: []byte("r")}
	case 2:
		msg = &Request{ID: Int64ID(7), Method: "roots/list"} // the request of a Call registered a moment ago
		g.mine = &AsyncCall{id: Int64ID(7), ready: make(chan struct{})}
		g.mineReg = true
	default:
		msg = &Request{Method: "notifications/x"}
		g.myNotif = 1 // Notify holds a token while it writes
	}
	g.install()
	err := g.c.write(ctx, msg)
	if len(g.w.msgs) == 1 {
		switch g.w.outcome {
		case 0:
			vAssert(err == nil, "C04.write-ok")
		case 2, 3:
			vAssert(err != nil && !g.setWriteErr, "C01.rejected-or-cancelled-write-does-not-break-connection")
			vReach("benign-failure")
		case 1:
			// the last section of write() ends with writeErr latched (by me or by someone before me)
			vAssert(err != nil && g.refusedShut, "C01.broken-write-latches-writeErr")
			vReach("broken")
		}
	} else {
		vAssert(len(g.w.msgs) == 0 && err != nil && errors.Is(err, ErrServerClosing), "C05.write-refused-only-when-shutting-down")
		// a message refused at the shutdown gate was never handed to the writer: nothing is known about the writer, and
		// the handlers Close lets run to completion are not to be cancelled on that account
		vAssert(!g.setWriteErr, "C05.refused-write-is-not-a-broken-writer")
		vReach("refused")
	}
	vReach("end")
}

// ---------------------------------------------------------------- thread: Retire

func zzConnRetire() {
	g := zzFresh()
	g.varyCallsNil = true
	g.mine = &AsyncCall{id: Int64ID(7), ready: make(chan struct{})}
	g.mineReg = true
	g.install()
	vShared(g.mine, g.mine.ready)
	g.c.Retire(g.mine, zzErrWrite)
	vAssert(g.mineDone, "C01.retire-completes")
	g.c.Retire(g.mine, zzErrRead) // a second Retire is a no-op (no double completion)
	vReach("end")
}

// ---------------------------------------------------------------- thread: reader

type zzReader struct {
	msgs []Message
	pos  int
	err  error
}

func (r *zzReader) Read(ctx context.Context) (Message, error) {
	if r.pos < len(r.msgs) {
		m := r.msgs[r.pos]
		r.pos++
		return m, nil
	}
	return nil, r.err
}

type zzPreempter struct {
	calls   int
	outcome int
}

func (p *zzPreempter) Preempt(ctx context.Context, req *Request) (any, error) {
	p.calls++
	p.outcome = vChoice("preempt", 3)
	switch p.outcome {
	case 0:
		return nil, ErrNotHandled
	case 1:
		if req.IsCall() {
			return "preempted-result", nil
		}
		return nil, nil
	}
	return nil, errors.New("preempter failed")
}

// The reader delivers one response (for my call, another thread's call, or nobody), then exits with an error.
func zzConnReaderResponse() {
	g := zzFresh()
	g.isReader = true
	g.varyCallsNil = true
	g.mine = &AsyncCall{id: Int64ID(7), ready: make(chan struct{})}
	g.mineReg = true
	var id ID
	which := vChoice("respFor", 3)
	switch which {
	case 0:
		id = g.mine.id
	case 1:
		id = g.other.id
	default:
		id = Int64ID(31337) // late or unknown
	}
	resp := &Response{ID: id, Result: []byte("payload")}
	// how reading ends: a transport error, a clean end of input (the peer closed its side or vanished), or either
	// wrapped by the transport
	readErr := zzErrRead
	switch vChoice("readEndsWith", 3) {
	case 1:
		readErr = io.EOF
	case 2:
		readErr = fmt.Errorf("transport: %w", io.EOF)
	}
	g.onPost = func() {
		// whoever is completed with this response object is the call it answers
		if g.mine.response == resp {
			vAssert(which == 0, "C01.never-receives-another-calls-response")
		}
		if g.other.response == resp {
			vAssert(which == 1, "C01.never-receives-another-calls-response")
		}
		if g.sections == 2 {
			// the reader's exit section: nothing stays tracked, reading is over, the error is recorded
			s := &g.c.state
			vAssert(!s.reading && s.readErr == readErr && len(s.outgoingCalls) == 0, "C01.reader-exit-state")
			ret := zzRetired(g.mine)
			vAssert(ret, "C01.no-call-left-pending-after-reader-exit")
			// with the reader gone no cancellation can arrive and no answer is likely to leave: every request still in
			// flight is cancelled, however reading ended — otherwise a parked handler (a subscriptions/listen, a slow
			// tool) keeps the connection from ever becoming idle, and Wait/disconnect never happen (C05, C18)
			if g.hOtherReqIn {
				vAssert(g.otherReq.ctx.Err() != nil, "C05.reader-exit-cancels-every-request-still-in-flight")
			}
		}
	}
	g.install()
	vShared(g.mine, g.mine.ready)
	rd := &zzReader{msgs: []Message{resp}, err: readErr}
	g.c.readIncoming(context.Background(), rd, nil)
	vAssert(g.sections == 2, "C01.reader-sections")
	vAssert(g.mineDone, "C01.no-call-left-pending-after-reader-exit")
	vReach("end")
}

// The reader accepts one request (call or notification, fresh id or an id already in flight), then exits.
func zzConnAccept() {
	g := zzFresh()
	g.isReader = true
	g.varyQueue, g.varyByIDNil = true, true
	var req *Request
	dup := false
	switch vChoice("reqKind", 3) {
	case 0:
		req = &Request{ID: Int64ID(42), Method: "tools/call"}
	case 1:
		req = &Request{Method: "notifications/progress"}
	default:
		req = &Request{ID: g.otherReq.ID, Method: "dup/call"} // id possibly in flight
		dup = true
	}
	g.install()
	pre := &zzPreempter{}
	g.c.acceptRequest(context.Background(), req, pre) // one iteration of the reader loop
	responses := 0
	for _, m := range g.w.msgs {
		if r, ok := m.(*Response); ok {
			responses++
			if !(dup && g.dupSeen) {
				vAssert(r.ID == req.ID, "C02.response-echoes-id")
			} else {
				vAssert(r.ID != g.otherReq.ID, "C02.duplicate-not-misattributed")
			}
		}
	}
	vAssert(responses <= 1, "C02.at-most-one-response")
	vAssert(g.myIn == 0, "C02.token-returned-or-handed-over")
	if !req.IsCall() {
		vAssert(responses == 0, "C02.no-response-to-notification")
	}
	if g.enqueued {
		vAssert(responses == 0, "C02.enqueued-not-yet-answered")
		vAssert(!g.enqueuedShut, "C05.no-work-admitted-while-shutting-down")
		vAssert(!(dup && g.dupSeen), "C02.duplicate-id-not-dispatched")
		vAssert(pre.calls == 1 && pre.outcome == 0, "C03.enqueued-only-if-not-preempted")
		vReach("enqueued")
	} else if req.IsCall() && !(dup && g.dupSeen) {
		// answered by the connection itself (refused, preempted) unless the write admission was refused
		vAssert(responses == 1 || len(g.w.msgs) == 0, "C02.unqueued-call-answered")
		vReach("answered")
	}
	if dup && g.dupSeen {
		vReach("dup")
	}
	vReach("end")
}

// ---------------------------------------------------------------- thread: processResult

func zzConnProcessResult() {
	g := zzFresh()
	isCall := vChoice("isCall", 2) == 1
	if isCall {
		g.myReq = zzNewReq(42, "tools/call")
		g.myReqIn = true
	} else {
		g.myReq = zzNewReq(0, "notifications/x")
	}
	g.myIn = 1
	writeAdmissionRefused := false
	g.onPost = func() {
		if isCall && g.sections == 2 && g.refusedShut && g.brokenAtPost {
			// section 2 of processResult for a call is write()'s admission check. Only a BROKEN connection excuses a
			// missing answer: when Close was merely called, the handler was let run to completion and the transport is
			// still open — its response is written (D17: it used to be refused, and two peers serving each other's calls
			// waited for each other forever).
			writeAdmissionRefused = true
		}
	}
	g.install()
	if vBool("peerCancelledTheRequest") {
		g.myReq.cancel(errors.New("cancelled by peer")) // notifications/cancelled arrived while the handler ran
	}
	var result any
	var err error
	kind := vChoice("handlerOutcome", 6)
	switch kind {
	case 0:
		result = "ok"
	case 1:
		err = errors.New("handler error")
	case 2: // nil, nil
	case 3:
		result, err = "both", errors.New("and error")
	case 4:
		err = fmt.Errorf("%w: no such method", ErrNotHandled)
	case 5:
		err = fmt.Errorf("wrapped: %w", ErrMethodNotFound)
	}
	// the handler's result may be something the encoder refuses (NaN, a failing MarshalJSON): the caller still gets an
	// answer — an error (D18: it used to get none)
	zzMarshalMayFail, zzMarshalFailed = kind == 0, false
	g.c.processResult("harness", g.myReq, result, err)
	zzMarshalMayFail = false
	vAssert(g.myIn == 0, "C02.token-returned-exactly-once")
	vAssert(g.myReq.ctx.Err() != nil, "C02.request-context-released")
	vAssert(!g.myReqIn, "C02.id-released")
	responses := 0
	for _, m := range g.w.msgs {
		if r, ok := m.(*Response); ok {
			responses++
			vAssert(r.ID == g.myReq.ID, "C02.response-echoes-id")
			if kind == 0 && !zzMarshalFailed {
				vAssert(r.Error == nil && r.Result != nil, "C02.result-carried")
			}
			if kind == 0 && zzMarshalFailed {
				vAssert(r.Error != nil && r.Result == nil, "C02.unencodable-result-answered-with-an-error")
				vReach("unencodable")
			}
			if kind == 1 || kind == 3 {
				vAssert(r.Error != nil, "C02.error-carried")
			}
			if kind == 4 || kind == 5 {
				vAssert(errors.Is(r.Error, ErrMethodNotFound), "C02.unknown-method-code")
				vReach("method-not-found")
			}
			if kind == 2 {
				vAssert(r.Error != nil, "C02.nil-nil-reported-as-error")
			}
		}
	}
	vAssert(g.w.refusedDone == 0, "C02.response-not-tied-to-the-request-context")
	if isCall {
		vAssert(responses == 1 || (responses == 0 && writeAdmissionRefused), "C02.call-answered-exactly-once")
		vReach("call")
	} else {
		vAssert(len(g.w.msgs) == 0, "C02.no-response-to-notification")
	}
	vReach("end")
}

// ---------------------------------------------------------------- thread: dispatcher

type zzHandler struct {
	handled []*Request
}

func (h *zzHandler) Handle(ctx context.Context, req *Request) (any, error) {
	h.handled = append(h.handled, req)
	if vBool("handlerCallsAsync") {
		Async(ctx)
	}
	if req.IsCall() {
		return "result", nil
	}
	return nil, nil
}

func zzConnDispatch() {
	g := zzFresh()
	g.isDispatcher = true
	g.varyQueue = true
	h := &zzHandler{}
	g.c.handler = h
	// a queued request may already have been cancelled when its turn comes (the peer cancelled it, or a broken write
	// cancelled everything in flight)
	if k := vChoice("cancelledWhileQueued", 1+vParam("cancelKinds")); k > 0 { // none, or one of the queued requests (quick: the first call; thorough: any of the three)
		r := []*incomingRequest{g.q1, g.q2, g.q3}[k-1]
		r.cancel(zzErrWrite)
	}
	g.install()
	vGoInline("handleAsync$") // the handler goroutine of each iteration runs to completion before the dispatcher resumes
	g.c.handleAsync()
	// the dispatcher exits only when it found the queue empty; what it handled is what it dequeued, in order
	vAssert(len(h.handled) <= len(g.taken), "C03.handles-only-dequeued")
	k := 0
	for _, t := range g.taken {
		if k < len(h.handled) && h.handled[k] == t.Request {
			k++
		}
	}
	vAssert(k == len(h.handled), "C03.handled-in-dequeue-order")
	vAssert(g.myIn == 0, "C02.token-returned-exactly-once")
	for _, t := range g.taken {
		vAssert(t.ctx.Err() != nil, "C02.request-context-released")
		// (whether an already cancelled request is still shown to the handler is not part of any property; that it is
		// answered at most once and its token returned is)
		answers := 0
		for _, m := range g.w.msgs {
			if r, ok := m.(*Response); ok && r.ID == t.ID && t.IsCall() {
				answers++
			}
		}
		vAssert(answers <= 1, "C02.at-most-one-response")
	}
	if len(g.taken) > 0 {
		vReach("dispatched")
	}
	vReach("end")
}

// ---------------------------------------------------------------- thread: Notify

func zzConnNotify() {
	g := zzFresh()
	g.install()
	rel := &releaser{ch: make(chan struct{})}
	ctx, cancel := context.WithCancel(context.WithValue(context.Background(), asyncKey, rel))
	g.cancelCallerCtx = cancel
	g.callerCtx = ctx
	zzMarshalMayFail = true
	err := g.c.Notify(ctx, "notifications/progress", "caller-supplied params")
	zzMarshalMayFail = false
	vAssert(!rel.released && !vIsClosed(rel.ch), "C03.only-the-handler-itself-releases-the-dispatcher")
	vAssert(g.myNotif == 0, "C05.notification-token-returned")
	if len(g.w.msgs) == 0 {
		vAssert(err != nil, "C05.refused-notify-reports-error")
		vReach("refused")
	} else {
		vAssert(len(g.w.msgs) == 1, "C04.notify-written-once")
		vReach("written")
	}
	vReach("end")
}

// ---------------------------------------------------------------- thread: Cancel

func zzConnCancel() {
	g := zzFresh()
	g.myReq = zzNewReq(42, "tools/call")
	g.myReqIn = true
	g.myIn = 1
	var id ID
	which := vChoice("cancelWhich", 3)
	switch which {
	case 0:
		id = g.myReq.ID
	case 1:
		id = g.otherReq.ID
	default:
		id = Int64ID(31337)
	}
	// inbound and outbound ids are two independent number spaces (both peers count 1, 2, 3, ...): an outgoing call of
	// this connection may bear the very number being cancelled, and is none of Cancel's business
	if vBool("anOutgoingCallBearsTheSameNumber") {
		g.other = &AsyncCall{id: id, ready: make(chan struct{})}
	}
	otherWasIn := false
	outgoingDropped := false
	g.onPost = func() {
		if g.hOtherReqIn {
			otherWasIn = true
		}
		if g.hOtherIn && !g.preOtherRet && (!zzInMap(g.c, g.other) || zzRetired(g.other)) {
			outgoingDropped = true // it was tracked and open when Cancel took the lock, and is not when Cancel released it
		}
	}
	g.install()
	g.c.Cancel(id)
	vAssert(!outgoingDropped, "C04.cancel-of-an-inbound-request-leaves-outgoing-calls-alone")
	mineCancelled := g.myReq.ctx.Err() != nil
	otherCancelled := g.otherReq.ctx.Err() != nil
	vAssert(mineCancelled == (which == 0), "C04.cancels-exactly-the-matching-request")
	vAssert(otherCancelled == (which == 1 && otherWasIn), "C04.cancels-exactly-the-matching-request")
	vAssert(g.q1.ctx.Err() == nil && g.q2.ctx.Err() == nil && g.q3.ctx.Err() == nil, "C04.no-other-request-cancelled")
	if otherCancelled {
		vReach("cancelled-other")
	}
	vReach("end")
}

// ---------------------------------------------------------------- thread: Close

func zzConnClose() {
	g := zzFresh()
	marked := false
	g.onPost = func() {
		if g.sections == 1 {
			marked = g.c.state.connClosing
		}
	}
	g.install()
	g.c.Close() // blocks (allowed) unless done is closed when its first section ends
	vAssert(marked, "C05.close-marks-closing")
	// whoever's Close this is — the first, or one overlapping a shutdown already under way — it returns only once the
	// connection is done: handlers have returned, the transport is closed
	vAssert(vIsClosed(g.c.done), "C05.close-returns-only-when-the-connection-is-done")
	vReach("end")
}

// ---------------------------------------------------------------- C03 under the scheduler: a handler that is still running
//
// The thread-modular dispatcher harness runs each handler to completion before the dispatcher resumes, so it cannot see
// a later message overtaking a handler that is still running. Here the real handleAsync and the handler goroutines it
// starts run as coroutines under the bounded scheduler: the first message is a notification whose handler is still
// running — and whose request may be cancelled meanwhile (peer cancel, broken write) — when the dispatcher gets its
// next chance; the second message must not be handed to the handler before the first handler has returned.
type zzSlowHandler struct {
	first, second  *incomingRequest
	firstReturned  bool
	cancelMidRun   bool
	secondStarted  bool
}

func (h *zzSlowHandler) Handle(ctx context.Context, req *Request) (any, error) {
	if req == h.first.Request {
		if h.cancelMidRun {
			h.first.cancel(errors.New("cancelled by peer while running"))
		}
		vYield() // still running: everybody else gets a chance
		vYield()
		h.firstReturned = true
		return nil, nil
	}
	h.secondStarted = true
	vAssert(h.firstReturned, "C03.later-message-waits-for-the-running-notification-handler")
	return "result", nil
}

func zzConnStillRunning() {
	g := zzFresh() // no lock hooks installed: the state below is concrete
	h := &zzSlowHandler{first: zzNewReq(0, "notifications/slow"), second: zzNewReq(2, "later/call"), cancelMidRun: vBool("firstCancelledWhileRunning")}
	c := g.c
	c.handler = h
	s := &c.state
	s.reading = true
	s.incoming = 2
	s.incomingByID = map[ID]*incomingRequest{h.second.ID: h.second}
	s.handlerQueue = []*incomingRequest{h.first, h.second}
	s.handlerRunning = true
	vGo(func() { c.handleAsync() })
	vJoin()
	vAssert(h.firstReturned && h.secondStarted, "C03.both-messages-handled")
	vAssert(s.incoming == 0 && len(s.handlerQueue) == 0 && !s.handlerRunning, "C02.token-returned-exactly-once")
	vReach("end")
}

// ---------------------------------------------------------------- thread: Await (the caller's wait for its call)
//
// Await returns the call's own outcome once it is complete, or the context's error once the context ends (when both
// hold, Go's select may take either). It touches nothing else — in particular a handler that awaits a call it made
// to the peer keeps its place in the dispatch order (C03).
func zzConnAwait() {
	rel := &releaser{ch: make(chan struct{})}
	ctx, cancel := context.WithCancel(context.WithValue(context.Background(), asyncKey, rel))
	ac := &AsyncCall{id: Int64ID(7), ready: make(chan struct{})}
	complete := vBool("callComplete")
	failed := vBool("completedWithError")
	werr := &WireError{Code: int64(vIntRange("code", -40000, 40000)), Message: "boom"}
	if complete {
		if failed {
			ac.response = &Response{ID: ac.id, Error: werr}
		} else {
			ac.response = &Response{ID: ac.id, Result: vJSON("the result")}
		}
		close(ac.ready)
	}
	gone := vBool("callerContextEnded")
	if gone {
		cancel()
	}
	vAssume(complete || gone) // otherwise Await legitimately keeps waiting
	var got string
	err := ac.Await(ctx, &got)
	switch {
	case complete && !gone:
		if failed {
			vAssert(err == error(werr), "C01.await.own-error-intact")
		} else {
			vAssert(err == nil && got == "the result", "C01.await.own-result-intact")
		}
		vReach("completed")
	case gone && !complete:
		vAssert(err != nil && errors.Is(err, context.Canceled), "C04.await.returns-with-the-contexts-error")
		vReach("abandoned")
	default:
		vAssert((err != nil && errors.Is(err, context.Canceled)) || (failed && err == error(werr)) || (!failed && err == nil && got == "the result"), "C01.await.one-of-the-two-outcomes")
	}
	vAssert(!rel.released && !vIsClosed(rel.ch), "C03.only-the-handler-itself-releases-the-dispatcher")
	cancel()
	vReach("end")
}

// ---------------------------------------------------------------- Notify while Close drains (one concrete history)
//
// Not a thread-modular step: one history, built directly. Close has been called and is waiting for the handler of an
// incoming request; nothing else is in flight. What that handler sends — progress, a log record, the cancellation
// notice for a nested call it has just given up (the call is retired before the notice is sent) — still goes out:
// Close lets the handler run to completion, and a notice that is refused leaves the peer's handler running for ever
// (C04). An idle closing connection, by contrast, sends nothing more.
func zzConnNotifyWhileDraining() {
	g := zzFresh()
	s := &g.c.state
	s.closer = g.closer
	s.connClosing = true
	s.reading = true
	handlerRunning := vBool("aHandlerIsStillRunning")
	if handlerRunning {
		req := zzNewReq(42, "tools/call")
		s.incoming = 1
		s.incomingByID = map[ID]*incomingRequest{req.ID: req}
	}
	outgoing := vBool("anOutgoingCallIsInFlight")
	if outgoing {
		s.outgoingCalls = map[ID]*AsyncCall{g.other.id: g.other}
	}
	err := g.c.Notify(context.Background(), "notifications/cancelled", "params")
	if handlerRunning || outgoing {
		// handed to the writer exactly once; what Notify reports is then the writer's verdict
		vAssert(len(g.w.msgs) == 1 && (err == nil) == (g.w.outcome == 0), "C04.notification-sent-while-close-waits-for-work-in-flight")
		vReach("sent")
	} else {
		vAssert(err != nil && len(g.w.msgs) == 0, "C05.idle-closing-connection-sends-nothing")
		vReach("refused")
	}
	vAssert(s.outgoingNotifications == 0, "C05.notification-token-returned")
	vReach("end")
}
