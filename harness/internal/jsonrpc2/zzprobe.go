package jsonrpc2

import (
	"bytes"
	"sync"
)

var zzPool = sync.Pool{New: func() any { return new(bytes.Buffer) }}

// zzBufProbe: engine self-check of the bytes.Buffer (real code), sync.Pool and json.Encoder models — the real
// jsonMarshal runs un-stubbed, and a pooled buffer handed out again aliases what its previous user still holds.
func zzBufProbe() {
	t1, err := jsonMarshal("x")
	vAssert(err == nil && len(t1) == 1, "probe.jsonMarshal")
	v, _ := vJSONOf(t1).(string)
	vAssert(v == "x", "probe.jsonMarshal-value")
	b := zzPool.Get().(*bytes.Buffer)
	b.Write(t1)
	d := b.Bytes()
	vAssert(string(d) == string(t1), "probe.first")
	b.Reset()
	zzPool.Put(b)
	b2 := zzPool.Get().(*bytes.Buffer)
	vAssert(b2 == b, "probe.pool-lifo")
	t2 := vJSON("y")
	b2.Write(t2)
	vAssert(string(d) == string(t2), "probe.aliased")
	b3 := zzPool.Get().(*bytes.Buffer)
	vAssert(b3 != b && b3.Len() == 0, "probe.pool-new")
	vReach("end")
}
