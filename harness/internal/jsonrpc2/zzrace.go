package jsonrpc2

// zzRaceProbe: engine self-check of the bounded scheduler — an entry that returns while a spawned goroutine is still
// blocked or runnable (F23: a parked goroutine captured the path epoch after handing over and could survive into the
// next path), and unbuffered rendezvous sends.

func zzRaceProbe() {
	k := vChoice("a", 4)
	ch := make(chan int)
	res := make(chan int, 1)
	go func() {
		<-ch
		res <- zzRaceG
		if vChoice("inner", 2) == 1 {
			res <- 1
		}
	}()
	zzRaceG = k
	j := vChoice("b", 3)
	if j == 0 {
		close(ch)
		vYield()
	}
	if j == 1 {
		close(ch)
	}
	vAssert(k+j >= 0, "probe")
	vReach("end")
}

var zzRaceG int
