package oauthex

// ZzVerifStatusErr lets the auth harness produce the unexported HTTP status error getJSON returns.
func ZzVerifStatusErr(code int) error { return &httpStatusError{StatusCode: code} }
