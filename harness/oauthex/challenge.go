package oauthex

import (
	"fmt"
	"strings"
)

// The challenge the SDK's own resource-server middleware emits (auth.RequireBearerToken: `Bearer
// resource_metadata=%q, scope=%q`, either parameter optional) read back by the client's ParseWWWAuthenticate: one
// challenge, scheme bearer, and each parameter exactly the string the server was configured with — whatever visible
// ASCII it contains (commas, equal signs, spaces included), up to the stated length. The metadata URL the client then
// fetches, and the scopes it asks for, are the ones the server named. Quotes and backslashes are left out: neither a URL
// nor an RFC 6749 scope contains one (and the engine's %q does not model their escaping). Observation, outside the
// property: a quoted value ENDING in an escaped backslash (`x="\\\\", y=","`) is mis-split by splitChallenges, which takes
// the closing quote for an escaped one.
func zzChallengeRoundTrip() {
	url := vStringN("url", vParam("len"))
	scope := vStringN("scope", vParam("len"))
	for i := 0; i < len(url); i++ {
		vAssume(url[i] >= 0x20 && url[i] < 0x7F && url[i] != '"' && url[i] != '\\')
	}
	for i := 0; i < len(scope); i++ {
		vAssume(scope[i] >= 0x20 && scope[i] < 0x7F && scope[i] != '"' && scope[i] != '\\')
	}
	var params []string
	if url != "" {
		params = append(params, fmt.Sprintf("resource_metadata=%q", url))
	}
	if scope != "" {
		params = append(params, fmt.Sprintf("scope=%q", scope))
	}
	vAssume(len(params) > 0)
	hdr := "Bearer " + strings.Join(params, ", ")
	cs, err := ParseWWWAuthenticate([]string{hdr})
	vAssert(err == nil, "C15.challenge.own-servers-challenge-parses")
	vAssert(len(cs) == 1 && cs[0].Scheme == "bearer", "C15.challenge.one-bearer-challenge")
	if url != "" {
		vAssert(cs[0].Params["resource_metadata"] == url, "C15.challenge.resource-metadata-is-what-the-server-named")
	}
	if scope != "" {
		vAssert(cs[0].Params["scope"] == scope, "C15.challenge.scope-is-what-the-server-named")
	}
	vReach("end")
}
